//! Deviations, known findings, violation/replay files and evidence files.

use serde_json::{json, Value};
use std::collections::{BTreeMap, BTreeSet};
use std::path::PathBuf;

pub fn verif_root() -> PathBuf {
    PathBuf::from(std::env::var("VERIF_ROOT").unwrap_or_else(|_| "/verif".to_string()))
}

#[derive(Debug, Clone)]
pub struct Deviation {
    pub property: String,
    /// canonical signature: what failed, abstracted
    pub sig: String,
    /// everything needed to re-execute: history / schedule / bytes, expected and actual
    pub replay: Value,
}

impl Deviation {
    pub fn to_json(&self) -> Value {
        json!({"property": self.property, "sig": self.sig, "replay": self.replay})
    }
    pub fn from_json(v: &Value) -> Deviation {
        Deviation {
            property: v["property"].as_str().unwrap_or("").to_string(),
            sig: v["sig"].as_str().unwrap_or("").to_string(),
            replay: v["replay"].clone(),
        }
    }
}

#[derive(Debug, Clone)]
pub struct Finding {
    pub id: String,
    pub property: String,
    pub what_fails: String,
    pub signatures: Vec<String>,
}

pub struct Findings {
    pub list: Vec<Finding>,
}

/// '*' matches any run of characters; everything else is literal.
pub fn sig_match(pat: &str, s: &str) -> bool {
    if !pat.contains('*') {
        return pat == s;
    }
    let parts: Vec<&str> = pat.split('*').collect();
    let mut pos = 0usize;
    for (i, part) in parts.iter().enumerate() {
        if part.is_empty() {
            continue;
        }
        if i == 0 {
            if !s.starts_with(part) {
                return false;
            }
            pos = part.len();
        } else if i == parts.len() - 1 {
            return s.len() >= pos + part.len() && s[pos..].ends_with(part);
        } else {
            match s[pos..].find(part) {
                Some(k) => pos += k + part.len(),
                None => return false,
            }
        }
    }
    true
}

impl Findings {
    pub fn load() -> Findings {
        let path = verif_root().join("known_findings.json");
        let mut list = Vec::new();
        if let Ok(txt) = std::fs::read_to_string(&path) {
            if let Ok(v) = serde_json::from_str::<Value>(&txt) {
                for f in v["findings"].as_array().cloned().unwrap_or_default() {
                    list.push(Finding {
                        id: f["id"].as_str().unwrap_or("").to_string(),
                        property: f["property"].as_str().unwrap_or("").to_string(),
                        what_fails: f["what_fails"].as_str().unwrap_or("").to_string(),
                        signatures: f["signatures"].as_array().cloned().unwrap_or_default().iter().filter_map(|s| s.as_str().map(|s| s.to_string())).collect(),
                    });
                }
            }
        }
        Findings { list }
    }
    pub fn lookup(&self, property: &str, sig: &str) -> Option<&Finding> {
        self.list.iter().find(|f| f.property == property && f.signatures.iter().any(|p| sig_match(p, sig)))
    }
    pub fn is_known(&self, property: &str, sig: &str) -> bool {
        self.lookup(property, sig).is_some()
    }
}

pub struct RunReport {
    pub property: String,
    pub tier: String,
    pub seed: i64,
    pub level: String,
    pub coverage: Value,
    pub assumptions: Vec<String>,
    pub deviations: Vec<Deviation>,
    pub machinery_errors: Vec<String>,
    pub start_real_ns: u64,
}

impl RunReport {
    pub fn new(property: &str, tier: &str, level: &str) -> RunReport {
        let seed = std::env::var("VERIF_SEED").ok().and_then(|s| s.parse::<i64>().ok()).unwrap_or(0);
        RunReport {
            property: property.to_string(),
            tier: tier.to_string(),
            seed,
            level: level.to_string(),
            coverage: json!({}),
            assumptions: Vec::new(),
            deviations: Vec::new(),
            machinery_errors: Vec::new(),
            start_real_ns: crate::vtime::real_now_ns(),
        }
    }

    /// Classify deviations, print KNOWN-FINDING / VIOLATION lines, write replays and the evidence file.
    /// Returns the process exit code.
    pub fn finish(mut self) -> i32 {
        let findings = Findings::load();
        let root = verif_root();
        let _ = std::fs::create_dir_all(root.join("evidence"));
        let _ = std::fs::create_dir_all(root.join("replays"));
        // replays of earlier runs of this property are obsolete: a run rewrites what it finds
        if let Ok(rd) = std::fs::read_dir(root.join("replays")) {
            let prefix = format!("{}-", self.property);
            for e in rd.flatten() {
                if e.file_name().to_string_lossy().starts_with(&prefix) {
                    let _ = std::fs::remove_file(e.path());
                }
            }
        }
        // group by signature, keep the first (smallest, deterministic order given by the caller) witness
        let mut by_sig: BTreeMap<String, Deviation> = BTreeMap::new();
        let mut counts: BTreeMap<String, u64> = BTreeMap::new();
        for d in self.deviations.drain(..) {
            *counts.entry(d.sig.clone()).or_insert(0) += 1;
            by_sig.entry(d.sig.clone()).or_insert(d);
        }
        let mut known_seen: BTreeMap<String, (String, u64)> = BTreeMap::new();
        let mut violations: Vec<(String, String)> = Vec::new();
        for (sig, d) in by_sig.iter() {
            match findings.lookup(&self.property, sig) {
                Some(f) => {
                    if std::env::var("VERIF_SHOW_KNOWN").is_ok() {
                        println!("  known [{}] {}", f.id, sig);
                    }
                    let e = known_seen.entry(f.id.clone()).or_insert((f.what_fails.clone(), 0));
                    e.1 += counts[sig];
                }
                None => {
                    let fname = format!("{}-{:016x}.json", self.property, fnv(sig.as_bytes()));
                    let path = root.join("replays").join(&fname);
                    let body = json!({"property": self.property, "sig": sig, "replay": d.replay, "occurrences": counts[sig]});
                    let _ = std::fs::write(&path, serde_json::to_string_pretty(&body).unwrap());
                    violations.push((sig.clone(), path.to_string_lossy().to_string()));
                }
            }
        }
        for (id, (what, n)) in known_seen.iter() {
            println!("KNOWN-FINDING: property={} {} [{}; {} occurrence(s)]", self.property, what, id, n);
        }
        for (sig, path) in violations.iter() {
            println!("VIOLATION property={} replay={}", self.property, path);
            println!("  signature: {}", sig);
        }
        for m in self.machinery_errors.iter() {
            println!("MACHINERY-ERROR: {}", m);
        }
        let wall = (crate::vtime::real_now_ns() - self.start_real_ns) as f64 / 1e9;
        let mut cov = self.coverage.clone();
        if let Some(o) = cov.as_object_mut() {
            o.insert("deviation_signatures".into(), json!(by_sig.keys().cloned().collect::<Vec<_>>().len()));
            o.insert("known_findings_seen".into(), json!(known_seen.keys().cloned().collect::<Vec<_>>()));
            o.insert("unlisted_violation_signatures".into(), json!(violations.iter().map(|v| v.0.clone()).take(50).collect::<Vec<_>>()));
            if !self.machinery_errors.is_empty() {
                o.insert("machinery_errors".into(), json!(self.machinery_errors));
                o.insert("exhaustive".into(), json!(false));
            }
        }
        let ev = json!({
            "property_id": self.property,
            "tier": self.tier,
            "seed": self.seed,
            "level": self.level,
            "coverage": cov,
            "assumptions": self.assumptions,
            "wall_s": wall,
            "violations": violations.len(),
        });
        let evpath = root.join("evidence").join(format!("{}.json", self.property));
        let _ = std::fs::write(&evpath, serde_json::to_string_pretty(&ev).unwrap());
        println!("{} {}: wall {:.1}s, {} deviation signature(s), {} known finding(s), {} violation(s); evidence {}",
            self.property, self.tier, wall, by_sig.len(), known_seen.len(), violations.len(), evpath.display());
        // a violation that was found stands whatever else went wrong in the run (a subject that crashes tends to leave
        // a case or two without a verdict as well); machinery trouble alone is never a verdict
        if !violations.is_empty() {
            return 1;
        }
        if !self.machinery_errors.is_empty() {
            return 2;
        }
        0
    }
}

pub fn fnv(b: &[u8]) -> u64 {
    let mut h: u64 = 0xcbf29ce484222325;
    for &c in b {
        h ^= c as u64;
        h = h.wrapping_mul(0x100000001b3);
    }
    h
}

pub fn fnv128(b: &[u8]) -> u128 {
    // two independent 64-bit FNV-style hashes
    let mut h1: u64 = 0xcbf29ce484222325;
    let mut h2: u64 = 0x84222325cbf29ce4;
    for &c in b {
        h1 ^= c as u64;
        h1 = h1.wrapping_mul(0x100000001b3);
        h2 = h2.wrapping_add(c as u64 + 0x9e3779b97f4a7c15);
        h2 = (h2 ^ (h2 >> 30)).wrapping_mul(0xbf58476d1ce4e5b9);
        h2 = (h2 ^ (h2 >> 27)).wrapping_mul(0x94d049bb133111eb);
    }
    ((h1 as u128) << 64) | h2 as u128
}

/// small helper to keep a bounded set of samples
pub struct Samples {
    pub items: Vec<Value>,
    cap: usize,
}
impl Samples {
    pub fn new(cap: usize) -> Samples {
        Samples { items: Vec::new(), cap }
    }
    pub fn push(&mut self, v: Value) {
        if self.items.len() < self.cap {
            self.items.push(v);
        }
    }
}

pub fn distinct_count<T: Ord + Clone>(it: impl Iterator<Item = T>) -> usize {
    it.collect::<BTreeSet<T>>().len()
}
