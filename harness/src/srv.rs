//! A real ferrous `Server` running its real `run()` loop on its own thread, released one iteration at a
//! time through the LOOP_TOP gate, plus plain nonblocking TCP clients.

use crate::gate::{self, Gate, StepResult};
use crate::resp::{self, R};
use crate::vtime;
use ferrous::network::server::VerifHandles;
use std::io::{Read, Write};
use std::net::{SocketAddr, TcpStream};
use std::path::PathBuf;
use std::sync::atomic::{AtomicU64, Ordering};
use std::sync::{Arc, Mutex};

static DIR_SEQ: AtomicU64 = AtomicU64::new(0);
pub static LAST_PANIC: Mutex<String> = Mutex::new(String::new());

#[derive(Clone, Debug, Default)]
pub struct SrvOpts {
    pub password: Option<String>,
    pub aof: Option<ferrous::storage::aof::FsyncPolicy>,
    pub auto_save: bool,
    pub save_rules: Vec<(u64, u64)>,
    /// reuse an existing directory (restart on the same files)
    pub dir: Option<PathBuf>,
    /// slow log, MONITOR support and statistics switched on in the configuration (another implementation of the
    /// per-command bookkeeping is used then)
    pub monitoring: bool,
    /// n > 1: every connection's id is the previous one's plus n (16 puts all connections into the same shard of the
    /// server's connection table; ids handed out one after the other never share one)
    pub conn_stride: u64,
}

pub struct Srv {
    pub conn_stride: u64,
    pub h: VerifHandles,
    pub gate: Arc<Gate>,
    thread: Option<std::thread::JoinHandle<()>>,
    pub dir: PathBuf,
    pub addr: SocketAddr,
}

#[derive(Debug, Clone, PartialEq)]
pub enum CallErr {
    /// no reply frame arrived within the step budget (connection still open)
    NoReply,
    /// the server closed the connection without a (complete) reply
    Closed,
    /// the server's event-loop thread ended (panic or return)
    ServerDied,
    /// the loop thread is parked at a hook point
    Parked,
    /// bytes arrived that are not valid RESP
    Garbage(String),
}

pub fn run_root() -> PathBuf {
    let base = std::env::var("VERIF_RUN_DIR").unwrap_or_else(|_| "/verif/target/run".to_string());
    let p = PathBuf::from(base).join(format!("{}", std::process::id()));
    std::fs::create_dir_all(&p).expect("create run dir");
    p
}

pub fn fresh_dir() -> PathBuf {
    let p = run_root().join(format!("d{}", DIR_SEQ.fetch_add(1, Ordering::SeqCst)));
    let _ = std::fs::remove_dir_all(&p);
    std::fs::create_dir_all(&p).expect("create server dir");
    p
}

pub fn cleanup_run_root() {
    let _ = std::fs::remove_dir_all(run_root());
}

impl Srv {
    pub fn start(opts: &SrvOpts) -> Srv {
        let dir = opts.dir.clone().unwrap_or_else(fresh_dir);
        let mut cfg = ferrous::Config::default();
        cfg.network.port = 0;
        cfg.network.bind_addr = "127.0.0.1".to_string();
        cfg.network.password = opts.password.clone();
        cfg.rdb.dir = dir.to_string_lossy().to_string();
        cfg.rdb.auto_save = opts.auto_save;
        if !opts.save_rules.is_empty() {
            cfg.rdb.save_rules = opts.save_rules.clone();
        }
        if opts.monitoring {
            cfg.monitoring.slowlog_enabled = true;
            cfg.monitoring.monitor_enabled = true;
            cfg.monitoring.stats_enabled = true;
        }
        cfg.aof.dir = dir.to_string_lossy().to_string();
        if let Some(p) = opts.aof {
            cfg.aof.enabled = true;
            cfg.aof.fsync_policy = p;
        }
        let expected_sleepers = if vtime::VIRTUAL.load(Ordering::SeqCst) { vtime::sleeper_count() + 1 + if opts.auto_save { 1 } else { 0 } } else { 0 };
        let server = ferrous::Server::from_config(cfg).expect("server from_config");
        let h = server.verif_handles();
        let addr = h.addr;
        let gate = Gate::new();
        gate::register_gate(gate.clone());
        let g2 = gate.clone();
        let thread = std::thread::Builder::new()
            .name("ferrous-loop".into())
            .stack_size(16 << 20)
            .spawn(move || {
                vtime::mark_free_running();
                gate::set_thread_gate(g2.clone());
                let mut server = server;
                let r = std::panic::catch_unwind(std::panic::AssertUnwindSafe(|| server.run()));
                if let Err(p) = &r {
                    let msg = if let Some(s) = p.downcast_ref::<&str>() {
                        s.to_string()
                    } else if let Some(s) = p.downcast_ref::<String>() {
                        s.clone()
                    } else {
                        "panic".to_string()
                    };
                    *LAST_PANIC.lock().unwrap() = msg;
                }
                // keep the server (and its listener/sockets) alive until here, then drop
                drop(server);
                g2.mark_dead();
            })
            .expect("spawn loop thread");
        // wait for the loop thread to reach the top of its loop the first time
        let srv = Srv { conn_stride: opts.conn_stride, h, gate, thread: Some(thread), dir, addr };
        srv.gate.wait_at_top();
        if expected_sleepers > 0 {
            // the engine's sweeper (and the auto-save monitor) must have entered their first sleep
            let start = vtime::real_now_ns();
            while vtime::sleeper_count() < expected_sleepers {
                vtime::real_sleep_us(20);
                if vtime::real_now_ns() - start > 10_000_000_000 {
                    panic!("machinery: background threads did not reach their first sleep");
                }
            }
        }
        srv
    }

    pub fn step(&self) -> StepResult {
        self.gate.step()
    }

    pub fn steps(&self, n: usize) -> StepResult {
        let mut r = StepResult::Arrived;
        for _ in 0..n {
            r = self.step();
            if r != StepResult::Arrived {
                break;
            }
        }
        r
    }

    pub fn is_dead(&self) -> bool {
        self.gate.is_dead()
    }

    /// Stop the loop (LOOP_TOP returns 1) and join the thread.
    pub fn stop(mut self) -> PathBuf {
        self.gate.request_stop();
        if let Some(t) = self.thread.take() {
            let _ = t.join();
        }
        self.dir.clone()
    }

    /// Open a client connection and step until the server has accepted it; returns the client with its id.
    pub fn connect(&self) -> Result<Client, CallErr> {
        let before: Vec<u64> = (self.h.connections)().iter().map(|r| r.id).collect();
        if self.conn_stride > 1 {
            ferrous::network::server::verif_skip_conn_ids(self.conn_stride - 1);
        }
        let stream = TcpStream::connect(self.addr).map_err(|e| CallErr::Garbage(format!("connect: {}", e)))?;
        stream.set_nonblocking(true).unwrap();
        stream.set_nodelay(true).unwrap();
        for _ in 0..8 {
            match self.step() {
                StepResult::Arrived => {}
                StepResult::Died => return Err(CallErr::ServerDied),
                StepResult::Parked => return Err(CallErr::Parked),
            }
            let after = (self.h.connections)();
            if let Some(r) = after.iter().find(|r| !before.contains(&r.id)) {
                if self.conn_stride > 1 && before.iter().any(|b| b % self.conn_stride != r.id % self.conn_stride) {
                    return Err(CallErr::Garbage(format!("machinery: connection id {} is not congruent to {:?} modulo {}", r.id, before, self.conn_stride)));
                }
                return Ok(Client { stream: Some(stream), buf: Vec::new(), id: r.id, closed: false });
            }
        }
        Err(CallErr::NoReply)
    }

    /// write all bytes, releasing loop iterations whenever the socket buffer is full (large requests)
    pub fn send_all(&self, c: &mut Client, bytes: &[u8]) -> Result<(), CallErr> {
        let mut off = 0;
        let mut stalls = 0u32;
        while off < bytes.len() {
            let n = c.send_some(&bytes[off..]);
            off += n;
            if n == 0 {
                if c.closed {
                    return Err(CallErr::Closed);
                }
                match self.step() {
                    StepResult::Arrived => {}
                    StepResult::Died => return Err(CallErr::ServerDied),
                    StepResult::Parked => return Err(CallErr::Parked),
                }
                stalls += 1;
                if stalls > 1_000_000 {
                    return Err(CallErr::NoReply);
                }
            }
        }
        Ok(())
    }

    /// send one command and step until one reply frame is decoded (at most `budget` steps)
    pub fn call<T: AsRef<[u8]>>(&self, c: &mut Client, args: &[T]) -> Result<R, CallErr> {
        let bytes = resp::cmd(args);
        self.send_all(c, &bytes)?;
        // the server reads 8 KiB per connection per loop iteration
        self.await_reply(c, 6 + bytes.len() / 4096)
    }

    pub fn await_reply(&self, c: &mut Client, budget: usize) -> Result<R, CallErr> {
        for _ in 0..budget {
            match self.step() {
                StepResult::Arrived => {}
                StepResult::Died => {
                    return Err(CallErr::ServerDied);
                }
                StepResult::Parked => return Err(CallErr::Parked),
            }
            c.poll();
            match c.take_frame() {
                Ok(Some(f)) => return Ok(f),
                Ok(None) => {}
                Err(e) => return Err(CallErr::Garbage(e)),
            }
            if c.closed {
                return Err(CallErr::Closed);
            }
        }
        Err(CallErr::NoReply)
    }

    /// send several commands in one write and collect exactly n replies
    pub fn pipeline(&self, c: &mut Client, bytes: &[u8], n: usize) -> Result<Vec<R>, (Vec<R>, CallErr)> {
        c.send(bytes);
        let mut out = Vec::new();
        let mut idle = 0;
        while out.len() < n {
            match self.step() {
                StepResult::Arrived => {}
                StepResult::Died => return Err((out, CallErr::ServerDied)),
                StepResult::Parked => return Err((out, CallErr::Parked)),
            }
            c.poll();
            let mut got = false;
            loop {
                match c.take_frame() {
                    Ok(Some(f)) => {
                        out.push(f);
                        got = true;
                        if out.len() == n {
                            break;
                        }
                    }
                    Ok(None) => break,
                    Err(e) => return Err((out, CallErr::Garbage(e))),
                }
            }
            if out.len() == n {
                break;
            }
            if c.closed {
                return Err((out, CallErr::Closed));
            }
            if got {
                idle = 0;
            } else {
                idle += 1;
                if idle > 6 {
                    return Err((out, CallErr::NoReply));
                }
            }
        }
        Ok(out)
    }
}

impl Drop for Srv {
    fn drop(&mut self) {
        self.gate.request_stop();
        if let Some(t) = self.thread.take() {
            let _ = t.join();
        }
    }
}

pub struct Client {
    stream: Option<TcpStream>,
    pub buf: Vec<u8>,
    pub id: u64,
    pub closed: bool,
}

impl Client {
    /// a second handle on the socket (for a reader thread of the checker's own)
    pub fn clone_stream(&self) -> Option<TcpStream> {
        self.stream.as_ref().and_then(|s| s.try_clone().ok())
    }

    pub fn send(&mut self, bytes: &[u8]) {
        if let Some(s) = self.stream.as_mut() {
            let mut off = 0;
            let start = vtime::real_now_ns();
            while off < bytes.len() {
                match s.write(&bytes[off..]) {
                    Ok(0) => {
                        self.closed = true;
                        return;
                    }
                    Ok(n) => off += n,
                    Err(e) if e.kind() == std::io::ErrorKind::WouldBlock => {
                        // socket buffer full: the caller must step the server; for big payloads we
                        // simply wait a little in real time (kernel buffers are >= 2.5 MB on loopback)
                        vtime::real_sleep_us(50);
                        if vtime::real_now_ns() - start > 5_000_000_000 {
                            return;
                        }
                    }
                    Err(_) => {
                        self.closed = true;
                        return;
                    }
                }
            }
        }
    }

    /// try to write; returns bytes written (for large payloads interleaved with steps)
    pub fn send_some(&mut self, bytes: &[u8]) -> usize {
        if let Some(s) = self.stream.as_mut() {
            match s.write(bytes) {
                Ok(n) => n,
                Err(e) if e.kind() == std::io::ErrorKind::WouldBlock => 0,
                Err(_) => {
                    self.closed = true;
                    0
                }
            }
        } else {
            0
        }
    }

    /// read whatever has arrived
    pub fn poll(&mut self) {
        if let Some(s) = self.stream.as_mut() {
            let mut tmp = [0u8; 65536];
            loop {
                match s.read(&mut tmp) {
                    Ok(0) => {
                        self.closed = true;
                        break;
                    }
                    Ok(n) => self.buf.extend_from_slice(&tmp[..n]),
                    Err(e) if e.kind() == std::io::ErrorKind::WouldBlock => break,
                    Err(_) => {
                        self.closed = true;
                        break;
                    }
                }
            }
        }
    }

    pub fn take_frame(&mut self) -> Result<Option<R>, String> {
        match resp::decode(&self.buf) {
            Ok(Some((f, n))) => {
                self.buf.drain(..n);
                Ok(Some(f))
            }
            Ok(None) => Ok(None),
            Err(e) => Err(format!("{:?} in {:?}", e, resp::show_bytes(&self.buf))),
        }
    }

    pub fn take_all(&mut self) -> Result<Vec<R>, String> {
        let mut v = Vec::new();
        while let Some(f) = self.take_frame()? {
            v.push(f);
        }
        Ok(v)
    }

    /// orderly close (FIN): what a modelled "client disconnects" action does. Every orderly close leaves a
    /// TIME_WAIT socket for 60 s; beyond 1500 of them within a minute in this process the disconnect is
    /// made abortive (RST) instead - to the server both are a dead peer handled by the same removal path.
    pub fn close(&mut self) {
        static RECENT: Mutex<Vec<u64>> = Mutex::new(Vec::new());
        let now = vtime::real_now_ns();
        let too_many = {
            let mut r = RECENT.lock().unwrap();
            r.retain(|t| now - *t < 60_000_000_000);
            if r.len() >= 1500 {
                true
            } else {
                r.push(now);
                false
            }
        };
        if too_many {
            self.discard();
            return;
        }
        if let Some(s) = self.stream.take() {
            let _ = s.shutdown(std::net::Shutdown::Both);
        }
        self.closed = true;
    }

    /// abortive close (RST, SO_LINGER 0) for the harness's own housekeeping between cases: leaves no
    /// TIME_WAIT socket behind (tens of thousands of short connections would exhaust the port range)
    pub fn discard(&mut self) {
        if let Some(s) = self.stream.take() {
            use std::os::fd::AsRawFd;
            let lg = libc::linger { l_onoff: 1, l_linger: 0 };
            unsafe {
                libc::setsockopt(s.as_raw_fd(), libc::SOL_SOCKET, libc::SO_LINGER, &lg as *const libc::linger as *const libc::c_void, std::mem::size_of::<libc::linger>() as libc::socklen_t);
            }
            drop(s);
        }
        self.closed = true;
    }

    pub fn is_open(&self) -> bool {
        self.stream.is_some() && !self.closed
    }
}

impl Drop for Client {
    fn drop(&mut self) {
        self.discard();
    }
}
