//! The hook callback installed into ferrous: the event-loop gate (LOOP_TOP), parking of background
//! threads at sync points, write-failure injection, forced skip-list levels, and point counters.

use crate::vtime;
use ferrous::verif_hooks as vh;
use std::cell::RefCell;
use std::collections::HashMap;
use std::sync::atomic::{AtomicI64, AtomicU64, Ordering};
use std::sync::{Arc, Condvar, Mutex};

/// Per-server gate for the event loop thread
pub struct Gate {
    st: Mutex<GateState>,
    cv: Condvar,
}

#[derive(Default)]
struct GateState {
    arrivals: u64,
    permits: u64,
    stop: bool,
    dead: bool,
    at_top: bool,
}

impl Gate {
    pub fn new() -> Arc<Gate> {
        Arc::new(Gate { st: Mutex::new(GateState::default()), cv: Condvar::new() })
    }
    /// called on the server thread at LOOP_TOP
    fn arrive_and_wait(&self) -> u64 {
        let mut st = self.st.lock().unwrap();
        st.arrivals += 1;
        st.at_top = true;
        self.cv.notify_all();
        loop {
            if st.stop {
                return 1;
            }
            if st.permits > 0 {
                st.permits -= 1;
                st.at_top = false;
                return 0;
            }
            st = self.cv.wait(st).unwrap();
        }
    }
    pub fn mark_dead(&self) {
        let mut st = self.st.lock().unwrap();
        st.dead = true;
        st.at_top = false;
        self.cv.notify_all();
    }
    pub fn is_dead(&self) -> bool {
        self.st.lock().unwrap().dead
    }
    pub fn request_stop(&self) {
        let mut st = self.st.lock().unwrap();
        st.stop = true;
        self.cv.notify_all();
    }
    pub fn arrivals(&self) -> u64 {
        self.st.lock().unwrap().arrivals
    }
    /// wait until the loop thread is parked at the top of its loop (or dead)
    pub fn wait_at_top(&self) -> StepResult {
        WAIT_START.store(vtime::real_now_ns(), Ordering::SeqCst);
        let r = self.wait_inner();
        WAIT_START.store(0, Ordering::SeqCst);
        r
    }
    fn wait_inner(&self) -> StepResult {
        let mut st = self.st.lock().unwrap();
        loop {
            if st.dead {
                return StepResult::Died;
            }
            if st.at_top {
                return StepResult::Arrived;
            }
            if !parked_list_on_server_thread_is_empty() {
                return StepResult::Parked;
            }
            st = self.cv.wait(st).unwrap();
        }
    }
    /// Grant one iteration and wait for the thread to come back to the top (or park at a hook / die).
    pub fn step(&self) -> StepResult {
        {
            let mut st = self.st.lock().unwrap();
            if st.dead {
                return StepResult::Died;
            }
            if !st.at_top {
                drop(st);
                // the loop thread is parked at a hook point inside an iteration
                return StepResult::Parked;
            }
            st.permits += 1;
            st.at_top = false;
            self.cv.notify_all();
        }
        self.wait_at_top()
    }
    /// wake anyone waiting on this gate (used when a thread parks at a hook point)
    fn poke(&self) {
        let _st = self.st.lock().unwrap();
        self.cv.notify_all();
    }
}

#[derive(Debug, Clone, Copy, PartialEq, Eq)]
pub enum StepResult {
    Arrived,
    Parked,
    Died,
}

thread_local! {
    static MY_GATE: RefCell<Option<Arc<Gate>>> = const { RefCell::new(None) };
}

pub fn set_thread_gate(g: Arc<Gate>) {
    MY_GATE.with(|m| *m.borrow_mut() = Some(g));
}

// ------------------------------------------------------------------ parking of threads at hook points

#[derive(Debug, Clone)]
pub struct ParkedThread {
    pub tid: u64,
    pub point: u32,
    pub arg: u64,
    pub on_server_thread: bool,
    released: bool,
}

struct Ctl {
    /// points at which arriving threads park
    park_points: Vec<u32>,
    /// park only threads other than an event-loop thread (a SAVE issued while a background save is being
    /// stepped must run through)
    park_background_only: bool,
    parked: Vec<ParkedThread>,
    /// fail the write whose 0-based index equals this
    fail_write_at: Option<u64>,
    /// fail every write from this index on
    fail_writes_from: Option<u64>,
    /// forced skip-list levels, consumed front to back (value = level)
    forced_levels: Vec<u64>,
    forced_level_default: Option<u64>,
    /// gates to poke when something parks
    gates: Vec<Arc<Gate>>,
    counters: HashMap<u32, u64>,
    /// trace of (point,arg) seen on non-loop points when tracing is on
    trace_on: bool,
    trace: Vec<(u32, u64, u64)>,
}

static CTL: Mutex<Option<Ctl>> = Mutex::new(None);
static CTL_CV: Condvar = Condvar::new();
pub static WRITE_COUNT: AtomicU64 = AtomicU64::new(0);
static SERVER_PARKED: AtomicI64 = AtomicI64::new(0);
/// real-time ns at which the checker thread entered a gate wait (0 = not waiting); read by the watchdog
pub static WAIT_START: AtomicU64 = AtomicU64::new(0);

fn parked_list_on_server_thread_is_empty() -> bool {
    SERVER_PARKED.load(Ordering::SeqCst) == 0
}

fn with_ctl<R>(f: impl FnOnce(&mut Ctl) -> R) -> R {
    let mut g = CTL.lock().unwrap();
    if g.is_none() {
        *g = Some(Ctl {
            park_points: Vec::new(),
            park_background_only: false,
            parked: Vec::new(),
            fail_write_at: None,
            fail_writes_from: None,
            forced_levels: Vec::new(),
            forced_level_default: None,
            gates: Vec::new(),
            counters: HashMap::new(),
            trace_on: false,
            trace: Vec::new(),
        });
    }
    f(g.as_mut().unwrap())
}

pub fn install() {
    with_ctl(|_| ());
    vh::install(hook);
}

pub fn register_gate(g: Arc<Gate>) {
    with_ctl(|c| c.gates.push(g));
}

pub fn set_park_points(points: &[u32]) {
    with_ctl(|c| c.park_points = points.to_vec());
}

pub fn set_park_background_only(on: bool) {
    with_ctl(|c| c.park_background_only = on);
}

/// Wait (real time, bounded) until some background thread is parked at any point; returns it.
/// Real-time waits for a thread to show up are multiplied by this: a verdict "the thread never arrived" is only given
/// after the case was repeated with more patience (a loaded machine may not schedule a thread for seconds).
pub static PATIENCE: std::sync::atomic::AtomicU64 = std::sync::atomic::AtomicU64::new(1);
/// virtual nanoseconds that pass before every step of the RDB loader (0 = loading is instantaneous), and the steps counted
pub static LOAD_TICK_NS: std::sync::atomic::AtomicU64 = std::sync::atomic::AtomicU64::new(0);
pub static LOAD_TICKS: std::sync::atomic::AtomicU64 = std::sync::atomic::AtomicU64::new(0);

pub fn wait_parked_background(timeout_ms: u64) -> Option<ParkedThread> {
    let timeout_ms = timeout_ms * if timeout_ms >= 1000 { PATIENCE.load(Ordering::SeqCst) } else { 1 };
    let start = vtime::real_now_ns();
    loop {
        if let Some(p) = with_ctl(|c| c.parked.iter().find(|p| !p.on_server_thread && !p.released).cloned()) {
            return Some(p);
        }
        vtime::real_sleep_us(10);
        if vtime::real_now_ns() - start > timeout_ms * 1_000_000 {
            return None;
        }
    }
}

pub fn counter(point: u32) -> u64 {
    with_ctl(|c| *c.counters.get(&point).unwrap_or(&0))
}

pub fn reset_counters() {
    with_ctl(|c| c.counters.clear());
    WRITE_COUNT.store(0, Ordering::SeqCst);
}

pub fn set_fail_write_at(n: Option<u64>) {
    with_ctl(|c| c.fail_write_at = n);
}
pub fn set_fail_writes_from(n: Option<u64>) {
    with_ctl(|c| c.fail_writes_from = n);
}

pub fn set_forced_levels(levels: Vec<u64>, default: Option<u64>) {
    with_ctl(|c| {
        c.forced_levels = levels;
        c.forced_level_default = default;
    });
}

pub fn set_trace(on: bool) {
    with_ctl(|c| {
        c.trace_on = on;
        c.trace.clear();
    });
}
pub fn take_trace() -> Vec<(u32, u64, u64)> {
    with_ctl(|c| std::mem::take(&mut c.trace))
}

pub fn parked() -> Vec<ParkedThread> {
    with_ctl(|c| c.parked.iter().filter(|p| !p.released).cloned().collect())
}

/// Wait (real time, bounded) until some thread is parked at `point`; returns it.
pub fn wait_parked(point: u32, timeout_ms: u64) -> Option<ParkedThread> {
    let start = vtime::real_now_ns();
    loop {
        if let Some(p) = with_ctl(|c| c.parked.iter().find(|p| p.point == point && !p.released).cloned()) {
            return Some(p);
        }
        vtime::real_sleep_us(10);
        if vtime::real_now_ns() - start > timeout_ms * 1_000_000 {
            return None;
        }
    }
}

/// Wait until a counter reaches a value
pub fn wait_counter(point: u32, at_least: u64, timeout_ms: u64) -> bool {
    let timeout_ms = timeout_ms * if timeout_ms >= 1000 { PATIENCE.load(Ordering::SeqCst) } else { 1 };
    let start = vtime::real_now_ns();
    loop {
        if counter(point) >= at_least {
            return true;
        }
        vtime::real_sleep_us(10);
        if vtime::real_now_ns() - start > timeout_ms * 1_000_000 {
            return false;
        }
    }
}

/// Release one parked thread; it runs until its next parking point, its next sleep, or its end.
pub fn release(tid: u64) {
    with_ctl(|c| {
        for p in c.parked.iter_mut() {
            if p.tid == tid && !p.released {
                p.released = true;
                if !p.on_server_thread {
                    vtime::note_unparked();
                } else {
                    SERVER_PARKED.fetch_sub(1, Ordering::SeqCst);
                }
            }
        }
    });
    CTL_CV.notify_all();
}

pub fn release_all() {
    with_ctl(|c| {
        for p in c.parked.iter_mut() {
            if !p.released {
                p.released = true;
                if !p.on_server_thread {
                    vtime::note_unparked();
                } else {
                    SERVER_PARKED.fetch_sub(1, Ordering::SeqCst);
                }
            }
        }
    });
    CTL_CV.notify_all();
}

fn park_here(point: u32, arg: u64, on_server_thread: bool) {
    let tid = vtime::my_tid();
    let gates = {
        let mut g = CTL.lock().unwrap();
        let c = g.as_mut().unwrap();
        c.parked.push(ParkedThread { tid, point, arg, on_server_thread, released: false });
        c.gates.clone()
    };
    if on_server_thread {
        SERVER_PARKED.fetch_add(1, Ordering::SeqCst);
    } else {
        vtime::note_parked();
    }
    for gt in gates {
        gt.poke();
    }
    let mut g = CTL.lock().unwrap();
    loop {
        let c = g.as_mut().unwrap();
        if let Some(pos) = c.parked.iter().position(|p| p.tid == tid && p.point == point) {
            if c.parked[pos].released {
                c.parked.remove(pos);
                break;
            }
        } else {
            break;
        }
        g = CTL_CV.wait(g).unwrap();
    }
    drop(g);
}

fn hook(point: u32, arg: u64) -> u64 {
    if point == vh::LOOP_TOP {
        let g = MY_GATE.with(|m| m.borrow().clone());
        return match g {
            Some(g) => g.arrive_and_wait(),
            None => 0, // an ungated server (not created by the harness)
        };
    }
    let on_server_thread = MY_GATE.with(|m| m.borrow().is_some());
    if point == vh::SKIP_LEVEL {
        return with_ctl(|c| {
            if !c.forced_levels.is_empty() {
                c.forced_levels.remove(0) + 1
            } else if let Some(d) = c.forced_level_default {
                d + 1
            } else {
                0
            }
        });
    }
    if point == vh::RDB_LOAD_STEP {
        // loading takes (virtual) time if the checker says so: the clock moves before every opcode the loader reads
        let t = LOAD_TICK_NS.load(Ordering::SeqCst);
        if t > 0 {
            LOAD_TICKS.fetch_add(1, Ordering::SeqCst);
            let _ = vtime::tick(t);
        }
        return 0;
    }
    if point == vh::RDB_WRITE {
        let n = WRITE_COUNT.fetch_add(1, Ordering::SeqCst);
        let (fail, park) = with_ctl(|c| {
            *c.counters.entry(point).or_insert(0) += 1;
            let fail = c.fail_write_at == Some(n) || c.fail_writes_from.map(|f| n >= f).unwrap_or(false);
            (fail, c.park_points.contains(&point) && !(on_server_thread && c.park_background_only))
        });
        if park {
            park_here(point, n, on_server_thread);
        }
        return if fail { 1 } else { 0 };
    }
    if !on_server_thread {
        if point == vh::BGSAVE_BEGIN || point == vh::SWEEP_BEGIN {
            vtime::note_known_running();
        }
    }
    let park = with_ctl(|c| {
        *c.counters.entry(point).or_insert(0) += 1;
        if c.trace_on {
            c.trace.push((point, arg, vtime::my_tid()));
        }
        c.park_points.contains(&point) && !(on_server_thread && c.park_background_only)
    });
    if park {
        park_here(point, arg, on_server_thread);
    }
    if point == vh::BGSAVE_END && !on_server_thread {
        vtime::note_thread_end();
    }
    0
}
