//! Reference model (see /verif/SEMANTICS.md)
