//! Reference model of the Redis semantics named in the properties (see /verif/SEMANTICS.md).
//! Boring on purpose: ordered maps, a clock value, nothing else.

use crate::resp::{self, R};
use std::collections::{BTreeMap, BTreeSet, VecDeque};

pub mod cmds;
pub mod conn;
pub mod glob;
pub mod streams;

pub type Bytes = Vec<u8>;

#[derive(Clone, Debug, PartialEq)]
pub enum Val {
    Str(Bytes),
    List(VecDeque<Bytes>),
    Set(BTreeSet<Bytes>),
    Hash(BTreeMap<Bytes, Bytes>),
    ZSet(BTreeMap<Bytes, f64>),
    Stream(streams::StreamM),
}

impl Val {
    pub fn type_name(&self) -> &'static str {
        match self {
            Val::Str(_) => "string",
            Val::List(_) => "list",
            Val::Set(_) => "set",
            Val::Hash(_) => "hash",
            Val::ZSet(_) => "zset",
            Val::Stream(_) => "stream",
        }
    }
    pub fn size(&self) -> usize {
        match self {
            Val::Str(b) => b.len(),
            Val::List(l) => l.len(),
            Val::Set(s) => s.len(),
            Val::Hash(h) => h.len(),
            Val::ZSet(z) => z.len(),
            Val::Stream(s) => s.entries.len(),
        }
    }
}

#[derive(Clone, Debug, PartialEq)]
pub struct Entry {
    pub val: Val,
    /// absolute virtual monotonic ns
    pub deadline: Option<u64>,
}

#[derive(Clone, Debug, Default, PartialEq)]
pub struct Db {
    pub keys: BTreeMap<Bytes, Entry>,
}

/// What the model expects as the reply of one command (normal form, see DESIGN §3.6)
pub enum Exp {
    Is(R),
    Err,
    /// array whose element order is unspecified
    AnyOrder(Vec<R>),
    /// flat array k,v,k,v… compared as a multiset of pairs
    PairsAnyOrder(Vec<(R, R)>),
    OneOf(Vec<Exp>),
    IntIn(i64, i64),
    /// bulk string holding a float equal to this
    Score(f64),
    /// flat array member,score,… in this order, scores compared numerically
    ScoredSeq(Vec<(Bytes, f64)>),
    /// members only, in order
    Seq(Vec<Bytes>),
    /// free-form predicate with a description
    Pred(String, Box<dyn Fn(&R) -> bool>),
    /// anything goes (don't care)
    Any,
}

pub fn same(e: &R, a: &R) -> bool {
    match (e, a) {
        (R::Err(_), R::Err(_)) => true,
        (R::NilArr, R::Arr(v)) | (R::Arr(v), R::NilArr) => v.is_empty(),
        (R::Arr(x), R::Arr(y)) => x.len() == y.len() && x.iter().zip(y.iter()).all(|(p, q)| same(p, q)),
        _ => e == a,
    }
}

fn as_items(a: &R) -> Option<Vec<R>> {
    match a {
        R::Arr(v) => Some(v.clone()),
        R::NilArr => Some(Vec::new()),
        _ => None,
    }
}

pub fn parse_score_bytes(b: &[u8]) -> Option<f64> {
    let s = std::str::from_utf8(b).ok()?;
    match s.to_ascii_lowercase().as_str() {
        "inf" | "+inf" | "infinity" | "+infinity" => Some(f64::INFINITY),
        "-inf" | "-infinity" => Some(f64::NEG_INFINITY),
        "nan" | "-nan" | "+nan" => Some(f64::NAN),
        _ => s.parse::<f64>().ok(),
    }
}

fn score_eq(x: f64, y: f64) -> bool {
    x == y || (x.is_nan() && y.is_nan())
}

fn multiset_eq(x: &[R], y: &[R]) -> bool {
    if x.len() != y.len() {
        return false;
    }
    let mut a: Vec<String> = x.iter().map(resp::show).collect();
    let mut b: Vec<String> = y.iter().map(resp::show).collect();
    a.sort();
    b.sort();
    a == b
}

impl Exp {
    pub fn matches(&self, a: &R) -> bool {
        match self {
            Exp::Is(e) => same(e, a),
            Exp::Err => a.is_err(),
            Exp::AnyOrder(items) => match as_items(a) {
                Some(v) => multiset_eq(items, &v),
                None => false,
            },
            Exp::PairsAnyOrder(pairs) => match as_items(a) {
                Some(v) => {
                    if v.len() != pairs.len() * 2 {
                        return false;
                    }
                    let mut got: Vec<String> = v.chunks(2).map(|c| format!("{}={}", resp::show(&c[0]), resp::show(&c[1]))).collect();
                    let mut want: Vec<String> = pairs.iter().map(|(k, v)| format!("{}={}", resp::show(k), resp::show(v))).collect();
                    got.sort();
                    want.sort();
                    got == want
                }
                None => false,
            },
            Exp::OneOf(v) => v.iter().any(|e| e.matches(a)),
            Exp::IntIn(lo, hi) => matches!(a, R::Int(i) if i >= lo && i <= hi),
            Exp::Score(s) => match a {
                R::Bulk(b) | R::Simple(b) => parse_score_bytes(b).map(|x| score_eq(x, *s)).unwrap_or(false),
                R::Double(d) => score_eq(*d, *s),
                _ => false,
            },
            Exp::ScoredSeq(items) => match as_items(a) {
                Some(v) => {
                    v.len() == items.len() * 2
                        && v.chunks(2).zip(items.iter()).all(|(c, (m, s))| {
                            c[0] == R::Bulk(m.clone())
                                && match &c[1] {
                                    R::Bulk(b) => parse_score_bytes(b).map(|x| score_eq(x, *s)).unwrap_or(false),
                                    R::Double(d) => score_eq(*d, *s),
                                    _ => false,
                                }
                        })
                }
                None => false,
            },
            Exp::Seq(items) => match as_items(a) {
                Some(v) => v.len() == items.len() && v.iter().zip(items.iter()).all(|(x, m)| *x == R::Bulk(m.clone())),
                None => false,
            },
            Exp::Pred(_, f) => f(a),
            Exp::Any => true,
        }
    }

    /// outcome class for signatures
    pub fn class(&self) -> String {
        match self {
            Exp::Is(r) => resp::class(r),
            Exp::Err => "err".into(),
            Exp::AnyOrder(v) => format!("arr[{}]", v.len()),
            Exp::PairsAnyOrder(v) => format!("arr[{}]", v.len() * 2),
            Exp::OneOf(v) => v.iter().map(|e| e.class()).collect::<Vec<_>>().join("/"),
            Exp::IntIn(a, b) => format!(":{}..{}", a, b),
            Exp::Score(s) => format!("score {}", s),
            Exp::ScoredSeq(v) => format!("arr[{}]", v.len() * 2),
            Exp::Seq(v) => format!("arr[{}]", v.len()),
            Exp::Pred(d, _) => d.clone(),
            Exp::Any => "any".into(),
        }
    }

    /// long description for replay files
    pub fn describe(&self) -> String {
        match self {
            Exp::Is(r) => resp::show(r),
            Exp::Err => "an error reply".into(),
            Exp::AnyOrder(v) => format!("any order of [{}]", v.iter().map(resp::show).collect::<Vec<_>>().join(" ")),
            Exp::PairsAnyOrder(v) => format!("any order of pairs [{}]", v.iter().map(|(k, v)| format!("{}={}", resp::show(k), resp::show(v))).collect::<Vec<_>>().join(" ")),
            Exp::OneOf(v) => v.iter().map(|e| e.describe()).collect::<Vec<_>>().join(" | "),
            Exp::IntIn(a, b) => format!("integer in {}..={}", a, b),
            Exp::Score(s) => format!("score {}", s),
            Exp::ScoredSeq(v) => format!("[{}]", v.iter().map(|(m, s)| format!("{} {}", resp::show_bytes(m), s)).collect::<Vec<_>>().join(", ")),
            Exp::Seq(v) => format!("[{}]", v.iter().map(|m| resp::show_bytes(m)).collect::<Vec<_>>().join(" ")),
            Exp::Pred(d, _) => d.clone(),
            Exp::Any => "anything".into(),
        }
    }
}

/// Result of judging one command
#[derive(Debug, Clone)]
pub struct Judged {
    pub ok: bool,
    pub exp_class: String,
    pub exp_desc: String,
}

#[derive(Clone, Debug, PartialEq)]
pub struct Model {
    pub dbs: Vec<Db>,
    /// virtual monotonic now, set by the driver before each command
    pub now: u64,
    /// virtual wall clock in ms, set by the driver before each command
    pub wall_ms: u64,
    /// epoch (wall ms) of the current history: signatures print clock-derived stream ids relative to it
    pub sig_ms_base: u64,
    /// set by a command whose effect the reference leaves open in a way that changes later behaviour (claiming a
    /// pending id whose entry was trimmed away: dropped from the PEL since Redis 7, transferred before); the
    /// driver then neither judges the reply nor explores beyond that step
    pub out_of_scope: bool,
}

impl Model {
    pub fn new() -> Model {
        Model { dbs: (0..16).map(|_| Db::default()).collect(), now: 0, wall_ms: 0, sig_ms_base: 0, out_of_scope: false }
    }

    pub fn set_clock(&mut self) {
        self.now = crate::vtime::mono_ns();
        self.wall_ms = crate::vtime::wall_ms();
    }

    /// remove `key` if its deadline has passed; returns whether a live entry exists
    pub fn purge(&mut self, db: usize, key: &[u8]) -> bool {
        let now = self.now;
        let d = &mut self.dbs[db];
        match d.keys.get(key) {
            Some(e) => {
                if let Some(dl) = e.deadline {
                    if now > dl {
                        d.keys.remove(key);
                        return false;
                    }
                }
                true
            }
            None => false,
        }
    }

    pub fn purge_all(&mut self) {
        let now = self.now;
        for d in self.dbs.iter_mut() {
            d.keys.retain(|_, e| e.deadline.map(|dl| now <= dl).unwrap_or(true));
        }
    }

    pub fn get(&mut self, db: usize, key: &[u8]) -> Option<&Entry> {
        if self.purge(db, key) {
            self.dbs[db].keys.get(key)
        } else {
            None
        }
    }

    pub fn get_mut(&mut self, db: usize, key: &[u8]) -> Option<&mut Entry> {
        if self.purge(db, key) {
            self.dbs[db].keys.get_mut(key)
        } else {
            None
        }
    }

    pub fn set(&mut self, db: usize, key: &[u8], val: Val, deadline: Option<u64>) {
        self.dbs[db].keys.insert(key.to_vec(), Entry { val, deadline });
    }

    pub fn del(&mut self, db: usize, key: &[u8]) -> bool {
        let live = self.purge(db, key);
        if live {
            self.dbs[db].keys.remove(key);
        }
        live
    }

    /// remove the key if its collection became empty (streams excepted)
    pub fn drop_if_empty(&mut self, db: usize, key: &[u8]) {
        let empty = match self.dbs[db].keys.get(key) {
            Some(e) => match &e.val {
                Val::List(l) => l.is_empty(),
                Val::Set(s) => s.is_empty(),
                Val::Hash(h) => h.is_empty(),
                Val::ZSet(z) => z.is_empty(),
                _ => false,
            },
            None => false,
        };
        if empty {
            self.dbs[db].keys.remove(key);
        }
    }

    /// class of a key's state for signatures: type, size class, ttl flag
    pub fn key_class(&self, db: usize, key: &[u8]) -> String {
        match self.dbs[db].keys.get(key) {
            None => "absent".into(),
            Some(e) => {
                if let Some(dl) = e.deadline {
                    if self.now > dl {
                        return format!("expired-{}", e.val.type_name());
                    }
                }
                let n = e.val.size();
                let sz = match n {
                    0 => "0".to_string(),
                    1 => "1".to_string(),
                    2 => "2".to_string(),
                    3 => "3".to_string(),
                    _ => "4+".to_string(),
                };
                let ttl = if e.deadline.is_some() { "+ttl" } else { "" };
                if let Val::Str(b) = &e.val {
                    if strict_i64(b).is_some() {
                        return format!("string:int{}", ttl);
                    }
                    if lenient_i64(b).is_some() {
                        return format!("string:lenient-int{}", ttl);
                    }
                }
                format!("{}({}){}", e.val.type_name(), sz, ttl)
            }
        }
    }

    /// canonical text of the model state (for fingerprints): deadlines relative to now
    pub fn canon(&self, ms_base: u64) -> String {
        let mut out = String::new();
        for (i, d) in self.dbs.iter().enumerate() {
            if d.keys.is_empty() {
                continue;
            }
            out.push_str(&format!("db{}:", i));
            for (k, e) in d.keys.iter() {
                if let Some(dl) = e.deadline {
                    if self.now > dl {
                        continue;
                    }
                }
                let v = match &e.val {
                    Val::Stream(s) => s.canon(ms_base),
                    Val::ZSet(z) => format!("zset{:?}", z.iter().map(|(m, s)| (m.clone(), s.to_bits())).collect::<Vec<_>>()),
                    other => format!("{:?}", other),
                };
                let dl = e.deadline.map(|d| format!("{}", d as i128 - self.now as i128)).unwrap_or_else(|| "-".into());
                out.push_str(&format!("{:?}={} ttl={};", k, v, dl));
            }
        }
        out
    }
}

/// Redis string2ll: strict signed 64-bit integer
pub fn strict_i64(b: &[u8]) -> Option<i64> {
    if b.is_empty() || b.len() > 20 {
        return None;
    }
    let (neg, digits) = if b[0] == b'-' { (true, &b[1..]) } else { (false, b) };
    if digits.is_empty() {
        return None;
    }
    if digits.len() == 1 && digits[0] == b'0' {
        return if neg { None } else { Some(0) };
    }
    if !(b'1'..=b'9').contains(&digits[0]) {
        return None;
    }
    let mut v: u64 = 0;
    for &c in digits {
        if !c.is_ascii_digit() {
            return None;
        }
        v = v.checked_mul(10)?.checked_add((c - b'0') as u64)?;
    }
    if neg {
        if v > (i64::MAX as u64) + 1 {
            None
        } else {
            Some((v as i128 * -1) as i64)
        }
    } else if v > i64::MAX as u64 {
        None
    } else {
        Some(v as i64)
    }
}

/// what Rust's `str::parse::<i64>` accepts (the lenient parser ferrous uses)
pub fn lenient_i64(b: &[u8]) -> Option<i64> {
    std::str::from_utf8(b).ok()?.parse::<i64>().ok()
}

#[derive(Debug, Clone, Copy, PartialEq)]
pub enum FloatArg {
    Val(f64),
    Invalid,
    /// spelling whose acceptance is don't-care (e.g. "infinity", "1e400", hex floats)
    DontCare,
}

/// Score / increment argument per SEMANTICS: strtod with the whole string consumed, no leading space, NaN rejected
pub fn float_arg(b: &[u8]) -> FloatArg {
    let s = match std::str::from_utf8(b) {
        Ok(s) => s,
        Err(_) => return FloatArg::Invalid,
    };
    if s.is_empty() || s.starts_with(char::is_whitespace) || s.ends_with(char::is_whitespace) {
        return FloatArg::Invalid;
    }
    let low = s.to_ascii_lowercase();
    match low.as_str() {
        "inf" | "+inf" => return FloatArg::Val(f64::INFINITY),
        "-inf" => return FloatArg::Val(f64::NEG_INFINITY),
        "nan" | "-nan" | "+nan" => return FloatArg::Invalid,
        "infinity" | "+infinity" | "-infinity" => return FloatArg::DontCare,
        _ => {}
    }
    if low.starts_with("0x") || low.starts_with("-0x") || low.starts_with("+0x") {
        return FloatArg::DontCare;
    }
    match s.parse::<f64>() {
        Ok(v) => {
            if v.is_nan() {
                FloatArg::Invalid
            } else if v.is_infinite() {
                FloatArg::DontCare // out-of-range decimal such as 1e400
            } else {
                FloatArg::Val(v)
            }
        }
        Err(_) => FloatArg::Invalid,
    }
}

pub fn bulk(b: &[u8]) -> R {
    R::Bulk(b.to_vec())
}

pub fn int(i: i64) -> R {
    R::Int(i)
}

pub fn upper(b: &[u8]) -> String {
    String::from_utf8_lossy(b).to_ascii_uppercase()
}
