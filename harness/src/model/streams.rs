//! Stream and consumer-group part of the reference model: an ordered map + last_id + groups.

use super::Bytes;
use std::collections::{BTreeMap, BTreeSet};

pub type Id = (u64, u64);

#[derive(Clone, Debug, PartialEq, Default)]
pub struct GroupM {
    pub cursor: Id,
    /// id -> (consumer, delivery wall ms, delivery count)
    pub pel: BTreeMap<Id, (String, u64, u64)>,
    /// consumers that certainly exist (explicitly created, or hold / held pending entries)
    pub consumers: BTreeSet<String>,
    /// consumers named by a read/claim that delivered nothing: Redis creates them, their existence is don't-care
    pub maybe: BTreeSet<String>,
    /// `$` taken while the top entry was deleted: the largest present id is accepted as the cursor too
    /// (no entry lies between the two, so deliveries are identical); cleared when the cursor moves
    pub cursor_alt: Option<Id>,
}

#[derive(Clone, Debug, PartialEq, Default)]
pub struct StreamM {
    pub entries: BTreeMap<Id, Vec<(Bytes, Bytes)>>,
    pub last_id: Id,
    pub groups: BTreeMap<String, GroupM>,
}

pub fn parse_id(b: &[u8]) -> Option<Id> {
    let s = std::str::from_utf8(b).ok()?;
    let (a, c) = s.split_once('-')?;
    if a.is_empty() || c.is_empty() || !a.bytes().all(|x| x.is_ascii_digit()) || !c.bytes().all(|x| x.is_ascii_digit()) {
        return None;
    }
    Some((a.parse::<u64>().ok()?, c.parse::<u64>().ok()?))
}

pub fn fmt_id(id: Id) -> String {
    format!("{}-{}", id.0, id.1)
}

pub fn rel_id(id: Id, ms_base: u64) -> String {
    if ms_base > 0 && id.0 >= ms_base && id.0 - ms_base < 1_000_000_000 {
        format!("T+{}-{}", id.0 - ms_base, id.1)
    } else {
        fmt_id(id)
    }
}

impl StreamM {
    pub fn canon(&self, ms_base: u64) -> String {
        let mut out = String::from("stream[");
        for (id, f) in self.entries.iter() {
            let mut f2 = f.clone();
            f2.sort();
            out.push_str(&format!("({} {:?})", rel_id(*id, ms_base), f2));
        }
        out.push_str(&format!("] last={}", rel_id(self.last_id, ms_base)));
        for (name, g) in self.groups.iter() {
            out.push_str(&format!(" group {:?} cursor={} pel=[", name, rel_id(g.cursor, ms_base)));
            for (id, (c, _t, _n)) in g.pel.iter() {
                out.push_str(&format!("({} {:?})", rel_id(*id, ms_base), c));
            }
            out.push_str(&format!("] consumers={:?}", g.consumers));
        }
        out
    }
}


use super::{bulk, int, strict_i64, upper, Entry, Exp, Model, Val};
use crate::resp::R;

type Fields = Vec<(Bytes, Bytes)>;

fn fields_match(r: &R, f: &Fields) -> bool {
    let v = match r {
        R::Arr(v) => v,
        _ => return false,
    };
    if v.len() != f.len() * 2 {
        return false;
    }
    let mut got: Vec<(Bytes, Bytes)> = Vec::new();
    for c in v.chunks(2) {
        match (&c[0], &c[1]) {
            (R::Bulk(k), R::Bulk(x)) => got.push((k.clone(), x.clone())),
            _ => return false,
        }
    }
    let mut want = f.clone();
    got.sort();
    want.sort();
    got == want
}

fn entry_matches(r: &R, id: Id, f: &Fields) -> bool {
    match r {
        R::Arr(v) if v.len() == 2 => v[0] == R::Bulk(fmt_id(id).into_bytes()) && fields_match(&v[1], f),
        _ => false,
    }
}

fn entries_match(r: &R, want: &[(Id, Fields)]) -> bool {
    match r {
        R::Arr(v) => v.len() == want.len() && v.iter().zip(want.iter()).all(|(x, (id, f))| entry_matches(x, *id, f)),
        R::NilArr => want.is_empty(),
        _ => false,
    }
}

fn exp_entries(want: Vec<(Id, Fields)>) -> Exp {
    let desc = format!("entries [{}]", want.iter().map(|(id, f)| format!("{}:{}", fmt_id(*id), f.len())).collect::<Vec<_>>().join(" "));
    let cls = format!("arr[{}]", want.len());
    let _ = desc;
    Exp::Pred(cls, Box::new(move |a| entries_match(a, &want)))
}

/// range bound: "-" "+" "ms-seq" "ms" (incomplete: low end -> seq 0, high end -> seq max)
fn range_id(b: &[u8], high: bool) -> Option<Option<Id>> {
    // Some(None) = don't care form (exclusive bound)
    if b == b"-" {
        return Some(Some((0, 0)));
    }
    if b == b"+" {
        return Some(Some((u64::MAX, u64::MAX)));
    }
    if b.first() == Some(&b'(') {
        return Some(None);
    }
    if let Some(id) = parse_id(b) {
        return Some(Some(id));
    }
    let s = std::str::from_utf8(b).ok()?;
    if !s.is_empty() && s.bytes().all(|c| c.is_ascii_digit()) {
        let ms = s.parse::<u64>().ok()?;
        return Some(Some((ms, if high { u64::MAX } else { 0 })));
    }
    None
}

impl Model {
    fn stream_of(&mut self, db: usize, key: &[u8]) -> Result<Option<&mut StreamM>, ()> {
        match self.get_mut(db, key) {
            None => Ok(None),
            Some(e) => match &mut e.val {
                Val::Stream(s) => Ok(Some(s)),
                _ => Err(()),
            },
        }
    }

    /// stream / consumer-group commands; None = not a stream command
    pub fn exec_stream(&mut self, db: usize, name: &str, args: &[Bytes], actual: &R) -> Option<Exp> {
        let n = args.len();
        let wall = self.wall_ms;
        Some(match name {
            "XADD" => {
                if n < 5 || (n - 3) % 2 != 0 {
                    return Some(Exp::Err);
                }
                let auto = args[2] == b"*";
                let explicit = if auto {
                    None
                } else {
                    match parse_id(&args[2]) {
                        Some(id) => Some(id),
                        None => {
                            // forms such as "5" or "5-*" are not in any alphabet
                            let s = String::from_utf8_lossy(&args[2]).to_string();
                            if s.ends_with("-*") || (!s.is_empty() && s.bytes().all(|c| c.is_ascii_digit())) {
                                return Some(Exp::Any);
                            }
                            return Some(Exp::Err);
                        }
                    }
                };
                let fields: Fields = args[3..].chunks(2).map(|c| (c[0].clone(), c[1].clone())).collect();
                let last = match self.stream_of(db, &args[1]) {
                    Err(()) => return Some(Exp::Err),
                    Ok(Some(s)) => s.last_id,
                    Ok(None) => (0, 0),
                };
                let id = match explicit {
                    Some(id) => {
                        if id == (0, 0) || id <= last {
                            return Some(Exp::Err);
                        }
                        id
                    }
                    None => {
                        if wall > last.0 {
                            (wall, 0)
                        } else if last.1 == u64::MAX {
                            if last.0 == u64::MAX {
                                return Some(Exp::Err);
                            }
                            (last.0 + 1, 0)
                        } else {
                            (last.0, last.1 + 1)
                        }
                    }
                };
                if self.get(db, &args[1]).is_none() {
                    self.set(db, &args[1], Val::Stream(StreamM::default()), None);
                }
                if let Some(Entry { val: Val::Stream(s), .. }) = self.dbs[db].keys.get_mut(&args[1]) {
                    s.entries.insert(id, fields);
                    s.last_id = id;
                }
                Exp::Is(R::Bulk(fmt_id(id).into_bytes()))
            }
            "XLEN" => {
                if n != 2 {
                    return Some(Exp::Err);
                }
                match self.stream_of(db, &args[1]) {
                    Err(()) => Exp::Err,
                    Ok(None) => Exp::Is(int(0)),
                    Ok(Some(s)) => Exp::Is(int(s.entries.len() as i64)),
                }
            }
            "XRANGE" | "XREVRANGE" => {
                if n != 4 && n != 6 {
                    return Some(Exp::Err);
                }
                let rev = name == "XREVRANGE";
                let count = if n == 6 {
                    if upper(&args[4]) != "COUNT" {
                        return Some(Exp::Err);
                    }
                    match strict_i64(&args[5]) {
                        Some(c) if c >= 0 => Some(c as usize),
                        Some(_) => return Some(Exp::Any),
                        None => return Some(Exp::Err),
                    }
                } else {
                    None
                };
                let (lo_arg, hi_arg) = if rev { (&args[3], &args[2]) } else { (&args[2], &args[3]) };
                let lo = match range_id(lo_arg, false) {
                    Some(Some(x)) => x,
                    Some(None) => return Some(Exp::Any),
                    None => return Some(Exp::Err),
                };
                let hi = match range_id(hi_arg, true) {
                    Some(Some(x)) => x,
                    Some(None) => return Some(Exp::Any),
                    None => return Some(Exp::Err),
                };
                match self.stream_of(db, &args[1]) {
                    Err(()) => Exp::Err,
                    Ok(None) => Exp::Is(R::Arr(vec![])),
                    Ok(Some(s)) => {
                        let mut sel: Vec<(Id, Fields)> = if lo <= hi { s.entries.range(lo..=hi).map(|(i, f)| (*i, f.clone())).collect() } else { vec![] };
                        if rev {
                            sel.reverse();
                        }
                        if let Some(c) = count {
                            sel.truncate(c);
                        }
                        exp_entries(sel)
                    }
                }
            }
            "XDEL" => {
                if n < 3 {
                    return Some(Exp::Err);
                }
                let mut ids = Vec::new();
                for a in &args[2..] {
                    match parse_id(a) {
                        Some(i) => ids.push(i),
                        None => return Some(Exp::Err),
                    }
                }
                match self.stream_of(db, &args[1]) {
                    Err(()) => Exp::Err,
                    Ok(None) => Exp::Is(int(0)),
                    Ok(Some(s)) => {
                        let mut c = 0;
                        for i in ids {
                            if s.entries.remove(&i).is_some() {
                                c += 1;
                            }
                        }
                        Exp::Is(int(c))
                    }
                }
            }
            "XTRIM" => {
                if n != 4 && n != 5 {
                    return Some(Exp::Err);
                }
                if upper(&args[2]) != "MAXLEN" {
                    return Some(Exp::Any); // MINID is not in any alphabet
                }
                let (approx, narg) = if n == 5 {
                    match args[3].as_slice() {
                        b"~" => (true, &args[4]),
                        b"=" => (false, &args[4]),
                        _ => return Some(Exp::Err),
                    }
                } else {
                    (false, &args[3])
                };
                let max = match strict_i64(narg) {
                    Some(m) if m >= 0 => m as usize,
                    _ => return Some(Exp::Err),
                };
                match self.stream_of(db, &args[1]) {
                    Err(()) => Exp::Err,
                    Ok(None) => Exp::Is(int(0)),
                    Ok(Some(s)) => {
                        let exact = s.entries.len().saturating_sub(max);
                        if approx {
                            // any number between 0 and the exact amount: adopt what was removed
                            let took = match actual {
                                R::Int(i) if *i >= 0 && (*i as usize) <= exact => *i as usize,
                                _ => exact,
                            };
                            let ids: Vec<Id> = s.entries.keys().take(took).cloned().collect();
                            for i in ids {
                                s.entries.remove(&i);
                            }
                            return Some(Exp::IntIn(0, exact as i64));
                        }
                        let ids: Vec<Id> = s.entries.keys().take(exact).cloned().collect();
                        for i in ids {
                            s.entries.remove(&i);
                        }
                        Exp::Is(int(exact as i64))
                    }
                }
            }
            "XREAD" => {
                // XREAD [COUNT n] STREAMS k... id...
                let mut i = 1;
                let mut count: Option<usize> = None;
                while i < n {
                    let o = upper(&args[i]);
                    if o == "COUNT" {
                        if i + 1 >= n {
                            return Some(Exp::Err);
                        }
                        match strict_i64(&args[i + 1]) {
                            Some(c) if c > 0 => count = Some(c as usize),
                            Some(_) => return Some(Exp::Any),
                            None => return Some(Exp::Err),
                        }
                        i += 2;
                    } else if o == "BLOCK" {
                        return Some(Exp::Any);
                    } else if o == "STREAMS" {
                        i += 1;
                        break;
                    } else {
                        return Some(Exp::Err);
                    }
                }
                let rest = &args[i.min(n)..];
                if rest.is_empty() || rest.len() % 2 != 0 {
                    return Some(Exp::Err);
                }
                let k = rest.len() / 2;
                let mut want: Vec<(Bytes, Vec<(Id, Fields)>)> = Vec::new();
                let mut dollar_alt: Vec<(Bytes, Vec<(Id, Fields)>)> = Vec::new();
                let mut has_alt = false;
                for j in 0..k {
                    let key = &rest[j];
                    let idb = &rest[k + j];
                    let st = match self.stream_of(db, key) {
                        Err(()) => return Some(Exp::Err),
                        Ok(None) => {
                            if idb.as_slice() != b"$" && range_id(idb, false).is_none() {
                                return Some(Exp::Err);
                            }
                            continue;
                        }
                        Ok(Some(s)) => s.clone(),
                    };
                    let (after, alt) = if idb.as_slice() == b"$" {
                        let top = st.entries.keys().next_back().cloned().unwrap_or((0, 0));
                        (st.last_id, if top != st.last_id { Some(top) } else { None })
                    } else {
                        match range_id(idb, false) {
                            Some(Some(x)) => (x, None),
                            Some(None) => return Some(Exp::Any),
                            None => return Some(Exp::Err),
                        }
                    };
                    let sel = |a: Id| -> Vec<(Id, Fields)> {
                        let mut v: Vec<(Id, Fields)> = st.entries.iter().filter(|(i, _)| **i > a).map(|(i, f)| (*i, f.clone())).collect();
                        if let Some(c) = count {
                            v.truncate(c);
                        }
                        v
                    };
                    let main = sel(after);
                    if !main.is_empty() {
                        want.push((key.clone(), main.clone()));
                    }
                    let other = match alt {
                        Some(a) => {
                            has_alt = true;
                            sel(a)
                        }
                        None => main,
                    };
                    if !other.is_empty() {
                        dollar_alt.push((key.clone(), other));
                    }
                }
                let mk = |w: Vec<(Bytes, Vec<(Id, Fields)>)>| -> Exp {
                    let cls = if w.is_empty() { "arr[0]".to_string() } else { format!("arr[{}]", w.len()) };
                    Exp::Pred(cls, Box::new(move |a| match a {
                        R::NilArr | R::Nil => w.is_empty(),
                        R::Arr(v) => v.len() == w.len() && v.iter().zip(w.iter()).all(|(x, (k, es))| match x {
                            R::Arr(p) if p.len() == 2 => p[0] == R::Bulk(k.clone()) && entries_match(&p[1], es),
                            _ => false,
                        }),
                        _ => false,
                    }))
                };
                if has_alt {
                    Exp::OneOf(vec![mk(want), mk(dollar_alt)])
                } else {
                    mk(want)
                }
            }
            "XGROUP" | "XREADGROUP" | "XACK" | "XCLAIM" | "XPENDING" | "XINFO" => return Some(self.exec_group(db, name, args, actual)),
            _ => return None,
        })
    }

    fn exec_group(&mut self, db: usize, name: &str, args: &[Bytes], _actual: &R) -> Exp {
        let n = args.len();
        let wall = self.wall_ms;
        let s = |b: &Bytes| String::from_utf8_lossy(b).to_string();
        match name {
            "XGROUP" => {
                if n < 2 {
                    return Exp::Err;
                }
                let sub = upper(&args[1]);
                match sub.as_str() {
                    "CREATE" => {
                        if n != 5 && n != 6 {
                            return Exp::Err;
                        }
                        let mk = if n == 6 {
                            if upper(&args[5]) == "MKSTREAM" {
                                true
                            } else {
                                return Exp::Any;
                            }
                        } else {
                            false
                        };
                        let idarg = args[4].clone();
                        let st = match self.stream_of(db, &args[2]) {
                            Err(()) => return Exp::Err,
                            Ok(x) => x.map(|s| s.clone()),
                        };
                        if st.is_none() && !mk {
                            return Exp::Err;
                        }
                        let cur = st.clone().unwrap_or_default();
                        let mut cursor_alt = None;
                        let cursor = if idarg.as_slice() == b"$" {
                            let top = cur.entries.keys().next_back().cloned().unwrap_or((0, 0));
                            if top != cur.last_id {
                                cursor_alt = Some(top);
                            }
                            cur.last_id
                        } else {
                            match range_id(&idarg, false) {
                                Some(Some(x)) => x,
                                _ => return Exp::Err,
                            }
                        };
                        if cur.groups.contains_key(&s(&args[3])) {
                            return Exp::Err;
                        }
                        if st.is_none() {
                            self.set(db, &args[2], Val::Stream(StreamM::default()), None);
                        }
                        if let Some(Entry { val: Val::Stream(sm), .. }) = self.dbs[db].keys.get_mut(&args[2]) {
                            sm.groups.insert(s(&args[3]), GroupM { cursor, cursor_alt, ..Default::default() });
                        }
                        Exp::Is(R::ok())
                    }
                    "DESTROY" => {
                        if n != 4 {
                            return Exp::Err;
                        }
                        match self.stream_of(db, &args[2]) {
                            Err(()) => Exp::Err,
                            Ok(None) => Exp::OneOf(vec![Exp::Is(int(0)), Exp::Err]),
                            Ok(Some(sm)) => Exp::Is(int(sm.groups.remove(&s(&args[3])).is_some() as i64)),
                        }
                    }
                    "SETID" => {
                        if n != 5 {
                            return Exp::Err;
                        }
                        let idarg = args[4].clone();
                        match self.stream_of(db, &args[2]) {
                            Err(()) | Ok(None) => Exp::Err,
                            Ok(Some(sm)) => {
                                let mut cursor_alt = None;
                                let cursor = if idarg.as_slice() == b"$" {
                                    let top = sm.entries.keys().next_back().cloned().unwrap_or((0, 0));
                                    if top != sm.last_id {
                                        cursor_alt = Some(top);
                                    }
                                    sm.last_id
                                } else {
                                    match range_id(&idarg, false) {
                                        Some(Some(x)) => x,
                                        _ => return Exp::Err,
                                    }
                                };
                                match sm.groups.get_mut(&s(&args[3])) {
                                    Some(g) => {
                                        g.cursor = cursor;
                                        g.cursor_alt = cursor_alt;
                                        Exp::Is(R::ok())
                                    }
                                    None => Exp::Err,
                                }
                            }
                        }
                    }
                    "CREATECONSUMER" => {
                        if n != 5 {
                            return Exp::Err;
                        }
                        match self.stream_of(db, &args[2]) {
                            Err(()) | Ok(None) => Exp::Err,
                            Ok(Some(sm)) => match sm.groups.get_mut(&s(&args[3])) {
                                Some(g) => {
                                    let c = s(&args[4]);
                                    if g.maybe.remove(&c) {
                                        g.consumers.insert(c);
                                        Exp::OneOf(vec![Exp::Is(int(0)), Exp::Is(int(1))])
                                    } else {
                                        Exp::Is(int(g.consumers.insert(c) as i64))
                                    }
                                }
                                None => Exp::Err,
                            },
                        }
                    }
                    "DELCONSUMER" => {
                        if n != 5 {
                            return Exp::Err;
                        }
                        match self.stream_of(db, &args[2]) {
                            Err(()) | Ok(None) => Exp::Err,
                            Ok(Some(sm)) => match sm.groups.get_mut(&s(&args[3])) {
                                Some(g) => {
                                    let c = s(&args[4]);
                                    let ids: Vec<Id> = g.pel.iter().filter(|(_, v)| v.0 == c).map(|(i, _)| *i).collect();
                                    for i in ids.iter() {
                                        g.pel.remove(i);
                                    }
                                    g.consumers.remove(&c);
                                    g.maybe.remove(&c);
                                    Exp::Is(int(ids.len() as i64))
                                }
                                None => Exp::Err,
                            },
                        }
                    }
                    _ => Exp::Err,
                }
            }
            "XREADGROUP" => {
                // XREADGROUP GROUP g c [COUNT n] [NOACK] STREAMS k id   (one stream only in our alphabets)
                if n < 7 || upper(&args[1]) != "GROUP" {
                    return Exp::Err;
                }
                let (g, c) = (s(&args[2]), s(&args[3]));
                let mut i = 4;
                let mut count: Option<usize> = None;
                let mut noack = false;
                while i < n {
                    let o = upper(&args[i]);
                    match o.as_str() {
                        "COUNT" => {
                            if i + 1 >= n {
                                return Exp::Err;
                            }
                            match strict_i64(&args[i + 1]) {
                                Some(x) if x > 0 => count = Some(x as usize),
                                Some(_) => return Exp::Any,
                                None => return Exp::Err,
                            }
                            i += 2;
                        }
                        "NOACK" => {
                            noack = true;
                            i += 1;
                        }
                        "BLOCK" => return Exp::Any,
                        "STREAMS" => {
                            i += 1;
                            break;
                        }
                        _ => return Exp::Err,
                    }
                }
                let rest = &args[i.min(n)..];
                if rest.len() != 2 {
                    if rest.is_empty() || rest.len() % 2 != 0 {
                        return Exp::Err;
                    }
                    // several streams: every id is checked before anything is delivered (Redis parses them all first), so
                    // one malformed id refuses the whole call without any effect; well-formed calls are not modelled
                    let ids = &rest[rest.len() / 2..];
                    if ids.iter().any(|x| x.as_slice() != b">" && !matches!(range_id(x, false), Some(Some(_)))) {
                        return Exp::Err;
                    }
                    return Exp::Any;
                }
                let key = rest[0].clone();
                let idb = rest[1].clone();
                let sm = match self.stream_of(db, &key) {
                    Err(()) => return Exp::Err,
                    Ok(None) => return Exp::Err,
                    Ok(Some(sm)) => sm,
                };
                let entries = sm.entries.clone();
                let grp = match sm.groups.get_mut(&g) {
                    Some(x) => x,
                    None => return Exp::Err,
                };
                if !grp.consumers.contains(&c) {
                    grp.maybe.insert(c.clone());
                }
                if idb.as_slice() == b">" {
                    let mut sel: Vec<(Id, Fields)> = entries.iter().filter(|(i, _)| **i > grp.cursor).map(|(i, f)| (*i, f.clone())).collect();
                    if let Some(k) = count {
                        sel.truncate(k);
                    }
                    if let Some((last, _)) = sel.last() {
                        grp.cursor = *last;
                        grp.cursor_alt = None;
                    }
                    if !noack {
                        for (i, _) in sel.iter() {
                            grp.pel.insert(*i, (c.clone(), wall, 1));
                        }
                        if !sel.is_empty() {
                            grp.maybe.remove(&c);
                            grp.consumers.insert(c.clone());
                        }
                    }
                    let w = sel;
                    let cls = format!("arr[{}]", if w.is_empty() { 0 } else { 1 });
                    Exp::Pred(cls, Box::new(move |a| match a {
                        R::NilArr | R::Nil => w.is_empty(),
                        R::Arr(v) if w.is_empty() => v.is_empty() || (v.len() == 1 && matches!(&v[0], R::Arr(p) if p.len() == 2 && entries_match(&p[1], &[]))),
                        R::Arr(v) => v.len() == 1 && matches!(&v[0], R::Arr(p) if p.len() == 2 && p[0] == R::Bulk(key.clone()) && entries_match(&p[1], &w)),
                        _ => false,
                    }))
                } else {
                    let after = match range_id(&idb, false) {
                        Some(Some(x)) => x,
                        _ => return Exp::Err,
                    };
                    // the consumer's own pending entries after the id; entries deleted from the stream: DC
                    let mine: Vec<Id> = grp.pel.iter().filter(|(i, v)| **i > after && v.0 == c).map(|(i, _)| *i).collect();
                    let mut sel: Vec<Id> = mine;
                    if let Some(k) = count {
                        sel.truncate(k);
                    }
                    // re-reading counts as one more delivery at this instant (Redis: delivery_count++, delivery_time = now)
                    for i in sel.iter() {
                        if let Some(p) = grp.pel.get_mut(i) {
                            p.2 += 1;
                            p.1 = wall;
                        }
                    }
                    let present: Vec<(Id, Fields)> = sel.iter().filter_map(|i| entries.get(i).map(|f| (*i, f.clone()))).collect();
                    let any_deleted = present.len() != sel.len();
                    let w = present;
                    let ids: Vec<Id> = sel.clone();
                    let cls = format!("history[{}]", ids.len());
                    Exp::Pred(cls, Box::new(move |a| {
                        let inner: Vec<R> = match a {
                            R::NilArr | R::Nil => vec![],
                            R::Arr(v) if v.is_empty() => vec![],
                            R::Arr(v) if v.len() == 1 => match &v[0] {
                                R::Arr(p) if p.len() == 2 => match &p[1] {
                                    R::Arr(es) => es.clone(),
                                    R::NilArr => vec![],
                                    _ => return false,
                                },
                                _ => return false,
                            },
                            _ => return false,
                        };
                        if any_deleted {
                            // ids must be the pending ones in order; bodies of deleted entries are don't-care
                            inner.len() == ids.len() && inner.iter().zip(ids.iter()).all(|(x, id)| matches!(x, R::Arr(p) if !p.is_empty() && p[0] == R::Bulk(fmt_id(*id).into_bytes())))
                                || entries_match(&R::Arr(inner.clone()), &w)
                        } else {
                            entries_match(&R::Arr(inner), &w)
                        }
                    }))
                }
            }
            "XACK" => {
                if n < 4 {
                    return Exp::Err;
                }
                let mut ids = Vec::new();
                for a in &args[3..] {
                    match parse_id(a) {
                        Some(i) => ids.push(i),
                        None => return Exp::Err,
                    }
                }
                match self.stream_of(db, &args[1]) {
                    Err(()) => Exp::Err,
                    Ok(None) => Exp::Is(int(0)),
                    Ok(Some(sm)) => match sm.groups.get_mut(&s(&args[2])) {
                        None => Exp::Is(int(0)),
                        Some(g) => {
                            let mut c = 0;
                            for i in ids {
                                if g.pel.remove(&i).is_some() {
                                    c += 1;
                                }
                            }
                            Exp::Is(int(c))
                        }
                    },
                }
            }
            "XCLAIM" => {
                // XCLAIM k g c min-idle id... [FORCE] [JUSTID]
                if n < 6 {
                    return Exp::Err;
                }
                let min_idle = match strict_i64(&args[4]) {
                    Some(x) if x >= 0 => x as u64,
                    _ => return Exp::Err,
                };
                let mut ids = Vec::new();
                let mut force = false;
                let mut justid = false;
                for a in &args[5..] {
                    let o = upper(a);
                    if o == "FORCE" {
                        force = true;
                    } else if o == "JUSTID" {
                        justid = true;
                    } else if let Some(i) = parse_id(a) {
                        ids.push(i);
                    } else {
                        return Exp::Any; // IDLE/TIME/RETRYCOUNT options are not in any alphabet
                    }
                }
                let c = s(&args[3]);
                let sm = match self.stream_of(db, &args[1]) {
                    Err(()) => return Exp::Err,
                    Ok(None) => return Exp::Err,
                    Ok(Some(sm)) => sm,
                };
                let entries = sm.entries.clone();
                let g = match sm.groups.get_mut(&s(&args[2])) {
                    Some(g) => g,
                    None => return Exp::Err,
                };
                if !g.consumers.contains(&c) {
                    g.maybe.insert(c.clone());
                }
                let mut claimed: Vec<Id> = Vec::new();
                let mut out_of_scope = false;
                for i in ids {
                    let in_pel = g.pel.contains_key(&i);
                    if in_pel {
                        let idle = wall.saturating_sub(g.pel[&i].1);
                        if idle >= min_idle {
                            let cnt = g.pel[&i].2;
                            if entries.contains_key(&i) {
                                g.pel.insert(i, (c.clone(), wall, if justid { cnt } else { cnt + 1 }));
                                claimed.push(i);
                            } else {
                                // the entry is pending but no longer in the stream (XDEL / XTRIM): Redis 7 drops it
                                // from the PEL, earlier versions transfer it; both are reference behaviour and lead to
                                // different states, so the step is out of scope
                                g.pel.remove(&i);
                                out_of_scope = true;
                            }
                        }
                    } else if force && entries.contains_key(&i) {
                        g.pel.insert(i, (c.clone(), wall, 1));
                        claimed.push(i);
                    }
                }
                if !claimed.is_empty() {
                    g.maybe.remove(&c);
                    g.consumers.insert(c.clone());
                }
                if out_of_scope {
                    self.out_of_scope = true;
                    return Exp::Any;
                }
                if justid {
                    Exp::Is(R::Arr(claimed.iter().map(|i| R::Bulk(fmt_id(*i).into_bytes())).collect()))
                } else {
                    exp_entries(claimed.iter().map(|i| (*i, entries[i].clone())).collect())
                }
            }
            "XPENDING" => {
                if n != 3 && n != 6 && n != 7 {
                    return Exp::Err;
                }
                let sm = match self.stream_of(db, &args[1]) {
                    Err(()) => return Exp::Err,
                    Ok(None) => return Exp::OneOf(vec![Exp::Err, Exp::Is(R::NilArr)]),
                    Ok(Some(sm)) => sm.clone(),
                };
                let g = match sm.groups.get(&s(&args[2])) {
                    Some(g) => g.clone(),
                    None => return Exp::OneOf(vec![Exp::Err, Exp::Is(R::NilArr)]),
                };
                if n == 3 {
                    let total = g.pel.len() as i64;
                    let min = g.pel.keys().next().cloned();
                    let max = g.pel.keys().next_back().cloned();
                    let mut per: std::collections::BTreeMap<String, i64> = std::collections::BTreeMap::new();
                    for (_, v) in g.pel.iter() {
                        *per.entry(v.0.clone()).or_insert(0) += 1;
                    }
                    let cls = format!("summary total={}", total);
                    Exp::Pred(cls, Box::new(move |a| {
                        let v = match a {
                            R::Arr(v) if v.len() == 4 => v,
                            _ => return false,
                        };
                        if v[0] != R::Int(total) {
                            return false;
                        }
                        let idok = |r: &R, want: Option<Id>| match want {
                            Some(i) => *r == R::Bulk(fmt_id(i).into_bytes()),
                            None => matches!(r, R::Nil),
                        };
                        if !idok(&v[1], min) || !idok(&v[2], max) {
                            return false;
                        }
                        let list: Vec<R> = match &v[3] {
                            R::Arr(l) => l.clone(),
                            R::NilArr | R::Nil => vec![],
                            _ => return false,
                        };
                        let mut got: std::collections::BTreeMap<String, i64> = std::collections::BTreeMap::new();
                        for x in list {
                            match x {
                                R::Arr(p) if p.len() == 2 => {
                                    let name = match &p[0] {
                                        R::Bulk(b) => String::from_utf8_lossy(b).to_string(),
                                        _ => return false,
                                    };
                                    let cnt = match &p[1] {
                                        R::Int(i) => *i,
                                        R::Bulk(b) => match std::str::from_utf8(b).ok().and_then(|s| s.parse::<i64>().ok()) {
                                            Some(i) => i,
                                            None => return false,
                                        },
                                        _ => return false,
                                    };
                                    if cnt != 0 {
                                        if got.insert(name, cnt).is_some() {
                                            return false;
                                        }
                                    }
                                }
                                _ => return false,
                            }
                        }
                        got == per
                    }))
                } else {
                    let lo = match range_id(&args[3], false) {
                        Some(Some(x)) => x,
                        Some(None) => return Exp::Any,
                        None => return Exp::Err,
                    };
                    let hi = match range_id(&args[4], true) {
                        Some(Some(x)) => x,
                        Some(None) => return Exp::Any,
                        None => return Exp::Err,
                    };
                    let cnt = match strict_i64(&args[5]) {
                        Some(c) if c >= 0 => c as usize,
                        _ => return Exp::Err,
                    };
                    let only = if n == 7 { Some(s(&args[6])) } else { None };
                    let mut sel: Vec<(Id, String, u64)> = g.pel.iter().filter(|(i, v)| **i >= lo && **i <= hi && only.as_ref().map(|c| *c == v.0).unwrap_or(true)).map(|(i, v)| (*i, v.0.clone(), wall.saturating_sub(v.1))).collect();
                    sel.truncate(cnt);
                    let cls = format!("pending[{}]", sel.len());
                    Exp::Pred(cls, Box::new(move |a| {
                        let v: Vec<R> = match a {
                            R::Arr(v) => v.clone(),
                            R::NilArr => vec![],
                            _ => return false,
                        };
                        v.len() == sel.len() && v.iter().zip(sel.iter()).all(|(x, (id, c, idle))| match x {
                            R::Arr(p) if p.len() == 4 => {
                                p[0] == R::Bulk(fmt_id(*id).into_bytes()) && p[1] == R::Bulk(c.clone().into_bytes())
                                    && matches!(&p[2], R::Int(i) if (*i - *idle as i64).abs() <= 1) && matches!(&p[3], R::Int(_))
                            }
                            _ => false,
                        })
                    }))
                }
            }
            "XINFO" => {
                if n < 3 {
                    return Exp::Err;
                }
                let sub = upper(&args[1]);
                let sm = match self.stream_of(db, &args[2]) {
                    Err(()) => return Exp::Err,
                    Ok(None) => return Exp::Err,
                    Ok(Some(sm)) => sm.clone(),
                };
                fn field<'a>(item: &'a R, name: &str) -> Option<&'a R> {
                    let v = match item {
                        R::Arr(v) => v,
                        _ => return None,
                    };
                    let mut it = v.chunks(2);
                    while let Some(c) = it.next() {
                        if c.len() == 2 {
                            if let Some(k) = c[0].as_bytes() {
                                if k == name.as_bytes() {
                                    return Some(&c[1]);
                                }
                            }
                        }
                    }
                    None
                }
                match sub.as_str() {
                    "GROUPS" => {
                        if n != 3 {
                            return Exp::Err;
                        }
                        let want: Vec<(String, i64, i64, String)> = sm.groups.iter().map(|(name, g)| (name.clone(), g.consumers.len() as i64, g.pel.len() as i64, fmt_id(g.cursor))).collect();
                        let alts: std::collections::BTreeMap<String, String> = sm.groups.iter().filter_map(|(name, g)| g.cursor_alt.map(|a| (name.clone(), fmt_id(a)))).collect();
                        let slack: std::collections::BTreeMap<String, i64> = sm.groups.iter().map(|(name, g)| (name.clone(), g.maybe.len() as i64)).collect();
                        let cls = format!("groups[{}]", want.len());
                        Exp::Pred(cls, Box::new(move |a| {
                            let v: Vec<R> = match a {
                                R::Arr(v) => v.clone(),
                                R::NilArr => vec![],
                                _ => return false,
                            };
                            if v.len() != want.len() {
                                return false;
                            }
                            let mut got: Vec<(String, i64, i64, String)> = Vec::new();
                            for item in v.iter() {
                                let name = field(item, "name").and_then(|r| r.as_bytes()).map(|b| String::from_utf8_lossy(b).to_string());
                                let cons = field(item, "consumers").and_then(|r| if let R::Int(i) = r { Some(*i) } else { None });
                                let pend = field(item, "pending").and_then(|r| if let R::Int(i) = r { Some(*i) } else { None });
                                let last = field(item, "last-delivered-id").and_then(|r| r.as_bytes()).map(|b| String::from_utf8_lossy(b).to_string());
                                match (name, cons, pend, last) {
                                    (Some(a), Some(b), Some(c), Some(d)) => got.push((a, b, c, d)),
                                    _ => return false,
                                }
                            }
                            got.sort();
                            let mut w = want.clone();
                            w.sort();
                            got.len() == w.len() && got.iter().zip(w.iter()).all(|(g, x)| {
                                let extra = slack.get(&x.0).cloned().unwrap_or(0);
                                g.0 == x.0 && g.1 >= x.1 && g.1 <= x.1 + extra && g.2 == x.2 && (g.3 == x.3 || alts.get(&x.0) == Some(&g.3))
                            })
                        }))
                    }
                    "CONSUMERS" => {
                        if n != 4 {
                            return Exp::Err;
                        }
                        let g = match sm.groups.get(&s(&args[3])) {
                            Some(g) => g.clone(),
                            None => return Exp::Err,
                        };
                        let want: Vec<(String, i64)> = g.consumers.iter().map(|c| (c.clone(), g.pel.values().filter(|v| v.0 == *c).count() as i64)).collect();
                        let maybe = g.maybe.clone();
                        let cls = format!("consumers[{}]", want.len());
                        Exp::Pred(cls, Box::new(move |a| {
                            let v: Vec<R> = match a {
                                R::Arr(v) => v.clone(),
                                R::NilArr => vec![],
                                _ => return false,
                            };
                            let mut got: Vec<(String, i64)> = Vec::new();
                            for item in v.iter() {
                                let name = field(item, "name").and_then(|r| r.as_bytes()).map(|b| String::from_utf8_lossy(b).to_string());
                                let pend = field(item, "pending").and_then(|r| if let R::Int(i) = r { Some(*i) } else { None });
                                match (name, pend) {
                                    (Some(a), Some(b)) => {
                                        if maybe.contains(&a) && b == 0 {
                                            continue; // implicitly created consumer: existence is don't-care
                                        }
                                        got.push((a, b))
                                    }
                                    _ => return false,
                                }
                            }
                            got.sort();
                            let mut w = want.clone();
                            w.sort();
                            got == w
                        }))
                    }
                    _ => Exp::Any,
                }
            }
            _ => Exp::Err,
        }
    }
}

/// class of a stream id argument relative to the stream's present entries (for signatures)
pub fn bound_class(arg: &[u8], ids: &[Id], last: Id) -> String {
    if arg == b"-" || arg == b"+" || arg == b"$" || arg == b">" {
        return String::from_utf8_lossy(arg).to_string();
    }
    let id = match parse_id(arg) {
        Some(i) => i,
        None => return format!("nonid:{}", crate::resp::show_bytes(arg)),
    };
    if id == (0, 0) {
        return "0-0".into();
    }
    if id == (u64::MAX, u64::MAX) {
        return "max-id".into();
    }
    if ids.is_empty() {
        return if id == last { "=last_id(no entries)".into() } else if id < last { "<last_id(no entries)".into() } else { ">last_id(no entries)".into() };
    }
    if ids.contains(&id) {
        return if id == ids[0] { "=first".into() } else if id == ids[ids.len() - 1] { "=top".into() } else { "=present".into() };
    }
    if id < ids[0] {
        "<first".into()
    } else if id > ids[ids.len() - 1] {
        if id == last { "=last_id(deleted top)".into() } else if id < last { ">top,<last_id".into() } else { ">top".into() }
    } else {
        "gap".into()
    }
}
