//! Stream and consumer-group part of the reference model: an ordered map + last_id + groups.

use super::Bytes;
use std::collections::{BTreeMap, BTreeSet};

pub type Id = (u64, u64);

#[derive(Clone, Debug, PartialEq, Default)]
pub struct GroupM {
    pub cursor: Id,
    /// id -> (consumer, delivery wall ms, delivery count)
    pub pel: BTreeMap<Id, (String, u64, u64)>,
    pub consumers: BTreeSet<String>,
}

#[derive(Clone, Debug, PartialEq, Default)]
pub struct StreamM {
    pub entries: BTreeMap<Id, Vec<(Bytes, Bytes)>>,
    pub last_id: Id,
    pub groups: BTreeMap<String, GroupM>,
}

pub fn parse_id(b: &[u8]) -> Option<Id> {
    let s = std::str::from_utf8(b).ok()?;
    let (a, c) = s.split_once('-')?;
    if a.is_empty() || c.is_empty() || !a.bytes().all(|x| x.is_ascii_digit()) || !c.bytes().all(|x| x.is_ascii_digit()) {
        return None;
    }
    Some((a.parse::<u64>().ok()?, c.parse::<u64>().ok()?))
}

pub fn fmt_id(id: Id) -> String {
    format!("{}-{}", id.0, id.1)
}

pub fn rel_id(id: Id, ms_base: u64) -> String {
    if ms_base > 0 && id.0 >= ms_base {
        format!("T+{}-{}", id.0 - ms_base, id.1)
    } else {
        fmt_id(id)
    }
}

impl StreamM {
    pub fn canon(&self, ms_base: u64) -> String {
        let mut out = String::from("stream[");
        for (id, f) in self.entries.iter() {
            let mut f2 = f.clone();
            f2.sort();
            out.push_str(&format!("({} {:?})", rel_id(*id, ms_base), f2));
        }
        out.push_str(&format!("] last={}", rel_id(self.last_id, ms_base)));
        for (name, g) in self.groups.iter() {
            out.push_str(&format!(" group {:?} cursor={} pel=[", name, rel_id(g.cursor, ms_base)));
            for (id, (c, _t, _n)) in g.pel.iter() {
                out.push_str(&format!("({} {:?})", rel_id(*id, ms_base), c));
            }
            out.push_str(&format!("] consumers={:?}", g.consumers));
        }
        out
    }
}

impl super::Model {
    /// stream / consumer-group commands; None = not a stream command
    pub fn exec_stream(&mut self, _db: usize, _name: &str, _args: &[Bytes], _actual: &crate::resp::R) -> Option<super::Exp> {
        None
    }
}
