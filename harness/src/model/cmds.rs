//! Command semantics of the reference model (key space, strings, lists, sets, hashes, sorted sets).
//! `Model::apply` judges the implementation's reply against the expectation computed from the state
//! before the command and then updates the state as the specification says.

use super::glob::{glob_is_dc, glob_match};
use super::*;
use crate::resp::R;
use std::collections::{BTreeMap, BTreeSet, VecDeque};

const MAX_STR: usize = 512 * 1024 * 1024;

fn wt() -> Exp {
    Exp::Err
}

/// LRANGE-style window: returns (start, stop) inclusive indexes or None when empty
pub fn norm_range(len: usize, a: i64, b: i64) -> Option<(usize, usize)> {
    let len = len as i128;
    let mut a = a as i128;
    let mut b = b as i128;
    if a < 0 {
        a += len;
    }
    if b < 0 {
        b += len;
    }
    if a < 0 {
        a = 0;
    }
    if a > b || a >= len {
        return None;
    }
    if b >= len {
        b = len - 1;
    }
    if b < 0 {
        return None;
    }
    Some((a as usize, b as usize))
}

pub fn zsorted(z: &BTreeMap<Bytes, f64>) -> Vec<(Bytes, f64)> {
    let mut v: Vec<(Bytes, f64)> = z.iter().map(|(m, s)| (m.clone(), *s)).collect();
    v.sort_by(|a, b| a.1.partial_cmp(&b.1).unwrap_or(std::cmp::Ordering::Equal).then_with(|| a.0.cmp(&b.0)));
    v
}

enum Bound {
    Val(f64),
    Invalid,
    DontCare,
}

fn score_bound(b: &[u8]) -> Bound {
    if b.first() == Some(&b'(') {
        return Bound::DontCare; // exclusive bounds are not in any alphabet
    }
    match float_arg(b) {
        FloatArg::Val(v) => Bound::Val(v),
        FloatArg::Invalid => Bound::Invalid,
        FloatArg::DontCare => Bound::DontCare,
    }
}

impl Model {
    pub fn apply(&mut self, db: usize, args: &[Bytes], actual: &R) -> Judged {
        let exp = self.exec(db, args, actual);
        Judged { ok: exp.matches(actual), exp_class: exp.class(), exp_desc: exp.describe() }
    }

    fn live_keys(&mut self, db: usize) -> Vec<Bytes> {
        let now = self.now;
        self.dbs[db].keys.iter().filter(|(_, e)| e.deadline.map(|d| now <= d).unwrap_or(true)).map(|(k, _)| k.clone()).collect()
    }

    fn stale_count(&self, db: usize) -> usize {
        let now = self.now;
        self.dbs[db].keys.values().filter(|e| e.deadline.map(|d| now > d).unwrap_or(false)).count()
    }

    /// type of a live key
    fn type_of(&mut self, db: usize, key: &[u8]) -> Option<&'static str> {
        self.get(db, key).map(|e| e.val.type_name())
    }

    pub fn exec(&mut self, db: usize, args: &[Bytes], actual: &R) -> Exp {
        if args.is_empty() {
            return Exp::Err;
        }
        let name = upper(&args[0]);
        let n = args.len();
        match name.as_str() {
            "PING" => match n {
                1 => Exp::Is(R::Simple(b"PONG".to_vec())),
                2 => Exp::Is(bulk(&args[1])),
                _ => Exp::Err,
            },
            "ECHO" => {
                if n == 2 {
                    Exp::Is(bulk(&args[1]))
                } else {
                    Exp::Err
                }
            }
            // ------------------------------------------------------------ key space
            "DEL" => {
                if n < 2 {
                    return Exp::Err;
                }
                let mut c = 0;
                for k in &args[1..] {
                    if self.del(db, k) {
                        c += 1;
                    }
                }
                Exp::Is(int(c))
            }
            "EXISTS" => {
                if n < 2 {
                    return Exp::Err;
                }
                let mut c = 0;
                for k in &args[1..] {
                    if self.get(db, k).is_some() {
                        c += 1;
                    }
                }
                Exp::Is(int(c))
            }
            "TYPE" => {
                if n != 2 {
                    return Exp::Err;
                }
                let t = self.type_of(db, &args[1]).unwrap_or("none");
                Exp::Is(R::Simple(t.as_bytes().to_vec()))
            }
            "RENAME" | "RENAMENX" => {
                if n != 3 {
                    return Exp::Err;
                }
                let nx = name == "RENAMENX";
                let (s, d) = (args[1].clone(), args[2].clone());
                if self.get(db, &s).is_none() {
                    return Exp::Err;
                }
                if nx {
                    if self.get(db, &d).is_some() {
                        return Exp::Is(int(0));
                    }
                } else if s == d {
                    return Exp::Is(R::ok());
                }
                let e = self.dbs[db].keys.remove(&s).unwrap();
                self.dbs[db].keys.insert(d, e);
                if nx {
                    Exp::Is(int(1))
                } else {
                    Exp::Is(R::ok())
                }
            }
            "KEYS" => {
                if n != 2 {
                    return Exp::Err;
                }
                let keys = self.live_keys(db);
                if glob_is_dc(&args[1]) {
                    let all: BTreeSet<Bytes> = keys.into_iter().collect();
                    return Exp::Pred("any array of present keys".into(), Box::new(move |a| match a {
                        R::Arr(v) => v.iter().all(|x| matches!(x, R::Bulk(b) if all.contains(b))),
                        R::NilArr => true,
                        _ => false,
                    }));
                }
                let m: Vec<R> = keys.iter().filter(|k| glob_match(&args[1], k)).map(|k| bulk(k)).collect();
                Exp::AnyOrder(m)
            }
            "DBSIZE" => {
                if n != 1 {
                    return Exp::Err;
                }
                let live = self.live_keys(db).len() as i64;
                let stale = self.stale_count(db) as i64;
                Exp::IntIn(live, live + stale)
            }
            "RANDOMKEY" => {
                if n != 1 {
                    return Exp::Err;
                }
                let keys = self.live_keys(db);
                if keys.is_empty() {
                    Exp::Is(R::Nil)
                } else {
                    let set: BTreeSet<Bytes> = keys.into_iter().collect();
                    Exp::Pred("one present key".into(), Box::new(move |a| matches!(a, R::Bulk(b) if set.contains(b))))
                }
            }
            "SCAN" => {
                // only the form used as an absence probe is modelled: SCAN 0 COUNT <large>
                if n == 4 && args[1] == b"0" && upper(&args[2]) == "COUNT" {
                    let keys = self.live_keys(db);
                    if let Some(c) = strict_i64(&args[3]) {
                        if c as usize > keys.len() + self.stale_count(db) {
                            let want: Vec<R> = keys.iter().map(|k| bulk(k)).collect();
                            return Exp::Pred(format!("scan[{}]", want.len()), Box::new(move |a| match a {
                                R::Arr(v) if v.len() == 2 => {
                                    matches!(&v[0], R::Bulk(c) if c == b"0") && Exp::AnyOrder(want.clone()).matches(&v[1])
                                }
                                _ => false,
                            }));
                        }
                    }
                }
                Exp::Any
            }
            "FLUSHDB" => {
                if n != 1 {
                    return Exp::Err;
                }
                self.dbs[db].keys.clear();
                Exp::Is(R::ok())
            }
            "FLUSHALL" => {
                if n != 1 {
                    return Exp::Err;
                }
                for d in self.dbs.iter_mut() {
                    d.keys.clear();
                }
                Exp::Is(R::ok())
            }
            "EXPIRE" | "PEXPIRE" => {
                if n != 3 {
                    return Exp::Err;
                }
                let v = match strict_i64(&args[2]) {
                    Some(v) => v,
                    None => return Exp::Err,
                };
                let unit: i128 = if name == "EXPIRE" { 1_000_000_000 } else { 1_000_000 };
                if self.get(db, &args[1]).is_none() {
                    return Exp::Is(int(0));
                }
                if v <= 0 {
                    self.dbs[db].keys.remove(&args[1]);
                    return Exp::Is(int(1));
                }
                let dl = self.now as i128 + v as i128 * unit;
                if dl > (u64::MAX / 4) as i128 {
                    // deadline overflow: error or accepted (don't care), never a crash
                    if matches!(actual, R::Int(1)) {
                        self.dbs[db].keys.get_mut(&args[1]).unwrap().deadline = Some(u64::MAX / 4);
                    }
                    return Exp::OneOf(vec![Exp::Err, Exp::Is(int(1))]);
                }
                self.dbs[db].keys.get_mut(&args[1]).unwrap().deadline = Some(dl as u64);
                Exp::Is(int(1))
            }
            "PERSIST" => {
                if n != 2 {
                    return Exp::Err;
                }
                match self.get_mut(db, &args[1]) {
                    Some(e) => {
                        if e.deadline.is_some() {
                            e.deadline = None;
                            Exp::Is(int(1))
                        } else {
                            Exp::Is(int(0))
                        }
                    }
                    None => Exp::Is(int(0)),
                }
            }
            "TTL" | "PTTL" => {
                if n != 2 {
                    return Exp::Err;
                }
                let now = self.now;
                match self.get(db, &args[1]) {
                    None => Exp::Is(int(-2)),
                    Some(e) => match e.deadline {
                        None => Exp::Is(int(-1)),
                        Some(dl) => {
                            let rem_ns = dl - now;
                            if rem_ns == 0 {
                                // the exact deadline instant is a don't-care: the key is still visible, a TTL of 0 or -2 is accepted
                                return Exp::OneOf(vec![Exp::Is(int(0)), Exp::Is(int(-2))]);
                            }
                            if name == "PTTL" {
                                let ms = (rem_ns / 1_000_000) as i64;
                                Exp::IntIn(ms - 1, ms + 1)
                            } else {
                                let lo = (rem_ns / 1_000_000_000) as i64;
                                let hi = ((rem_ns + 999_999_999) / 1_000_000_000) as i64;
                                Exp::IntIn(lo, hi)
                            }
                        }
                    },
                }
            }
            // ------------------------------------------------------------ strings
            "SET" => {
                if n < 3 {
                    return Exp::Err;
                }
                let mut nx = false;
                let mut xx = false;
                let mut ttl_ns: Option<i128> = None;
                let mut i = 3;
                while i < n {
                    let o = upper(&args[i]);
                    match o.as_str() {
                        "NX" => nx = true,
                        "XX" => xx = true,
                        "EX" | "PX" => {
                            if ttl_ns.is_some() || i + 1 >= n {
                                return Exp::Err;
                            }
                            let v = match strict_i64(&args[i + 1]) {
                                Some(v) => v,
                                None => return Exp::Err,
                            };
                            if v <= 0 {
                                return Exp::Err;
                            }
                            ttl_ns = Some(v as i128 * if o == "EX" { 1_000_000_000 } else { 1_000_000 });
                            i += 1;
                        }
                        _ => return Exp::Err,
                    }
                    i += 1;
                }
                if nx && xx {
                    return Exp::Err;
                }
                let present = self.get(db, &args[1]).is_some();
                if (nx && present) || (xx && !present) {
                    return Exp::Is(R::Nil);
                }
                let mut dc = false;
                let deadline = match ttl_ns {
                    Some(t) => {
                        let dl = self.now as i128 + t;
                        if dl > (u64::MAX / 4) as i128 {
                            dc = true;
                            Some(u64::MAX / 4)
                        } else {
                            Some(dl as u64)
                        }
                    }
                    None => None,
                };
                if dc {
                    if matches!(actual, R::Simple(_)) {
                        self.set(db, &args[1], Val::Str(args[2].clone()), deadline);
                    }
                    return Exp::OneOf(vec![Exp::Err, Exp::Is(R::ok())]);
                }
                self.set(db, &args[1], Val::Str(args[2].clone()), deadline);
                Exp::Is(R::ok())
            }
            "SETNX" => {
                if n != 3 {
                    return Exp::Err;
                }
                if self.get(db, &args[1]).is_some() {
                    Exp::Is(int(0))
                } else {
                    self.set(db, &args[1], Val::Str(args[2].clone()), None);
                    Exp::Is(int(1))
                }
            }
            "SETEX" | "PSETEX" => {
                if n != 4 {
                    return Exp::Err;
                }
                let v = match strict_i64(&args[2]) {
                    Some(v) if v > 0 => v,
                    _ => return Exp::Err,
                };
                let t = v as i128 * if name == "SETEX" { 1_000_000_000 } else { 1_000_000 };
                let dl = self.now as i128 + t;
                if dl > (u64::MAX / 4) as i128 {
                    if matches!(actual, R::Simple(_)) {
                        self.set(db, &args[1], Val::Str(args[3].clone()), Some(u64::MAX / 4));
                    }
                    return Exp::OneOf(vec![Exp::Err, Exp::Is(R::ok())]);
                }
                self.set(db, &args[1], Val::Str(args[3].clone()), Some(dl as u64));
                Exp::Is(R::ok())
            }
            "GET" => {
                if n != 2 {
                    return Exp::Err;
                }
                match self.get(db, &args[1]) {
                    None => Exp::Is(R::Nil),
                    Some(e) => match &e.val {
                        Val::Str(b) => Exp::Is(bulk(b)),
                        _ => wt(),
                    },
                }
            }
            "MGET" => {
                if n < 2 {
                    return Exp::Err;
                }
                let mut out = Vec::new();
                for k in &args[1..] {
                    out.push(match self.get(db, k) {
                        Some(Entry { val: Val::Str(b), .. }) => bulk(b),
                        _ => R::Nil,
                    });
                }
                Exp::Is(R::Arr(out))
            }
            "MSET" => {
                if n < 3 || n % 2 == 0 {
                    return Exp::Err;
                }
                for p in args[1..].chunks(2) {
                    self.set(db, &p[0], Val::Str(p[1].clone()), None);
                }
                Exp::Is(R::ok())
            }
            "GETSET" => {
                if n != 3 {
                    return Exp::Err;
                }
                let old = match self.get(db, &args[1]) {
                    None => R::Nil,
                    Some(e) => match &e.val {
                        Val::Str(b) => bulk(b),
                        _ => return wt(),
                    },
                };
                self.set(db, &args[1], Val::Str(args[2].clone()), None);
                Exp::Is(old)
            }
            "APPEND" => {
                if n != 3 {
                    return Exp::Err;
                }
                match self.get_mut(db, &args[1]) {
                    None => {
                        self.set(db, &args[1], Val::Str(args[2].clone()), None);
                        Exp::Is(int(args[2].len() as i64))
                    }
                    Some(e) => match &mut e.val {
                        Val::Str(b) => {
                            b.extend_from_slice(&args[2]);
                            Exp::Is(int(b.len() as i64))
                        }
                        _ => wt(),
                    },
                }
            }
            "STRLEN" => {
                if n != 2 {
                    return Exp::Err;
                }
                match self.get(db, &args[1]) {
                    None => Exp::Is(int(0)),
                    Some(e) => match &e.val {
                        Val::Str(b) => Exp::Is(int(b.len() as i64)),
                        _ => wt(),
                    },
                }
            }
            "GETRANGE" => {
                if n != 4 {
                    return Exp::Err;
                }
                let (a, b) = match (strict_i64(&args[2]), strict_i64(&args[3])) {
                    (Some(a), Some(b)) => (a, b),
                    _ => return Exp::Err,
                };
                let s = match self.get(db, &args[1]) {
                    None => Vec::new(),
                    Some(e) => match &e.val {
                        Val::Str(s) => s.clone(),
                        _ => return wt(),
                    },
                };
                let len = s.len() as i128;
                let (mut a, mut b) = (a as i128, b as i128);
                if a < 0 && b < 0 && a > b {
                    return Exp::Is(bulk(b""));
                }
                if b < -len && len > 0 {
                    // Redis 7.0 clamps an end before the first byte to 0 (and so may return the first byte);
                    // later versions differ: either that result or the empty string is accepted (don't care)
                    let mut a2 = a;
                    if a2 < 0 {
                        a2 += len;
                    }
                    if a2 < 0 {
                        a2 = 0;
                    }
                    let first = if a2 == 0 { bulk(&s[0..1]) } else { bulk(b"") };
                    return Exp::OneOf(vec![Exp::Is(first), Exp::Is(bulk(b""))]);
                }
                if a < 0 {
                    a += len;
                }
                if b < 0 {
                    b += len;
                }
                if a < 0 {
                    a = 0;
                }
                if b < 0 {
                    b = 0;
                }
                if b >= len {
                    b = len - 1;
                }
                if len == 0 || a > b {
                    return Exp::Is(bulk(b""));
                }
                Exp::Is(bulk(&s[a as usize..=b as usize]))
            }
            "SETRANGE" => {
                if n != 4 {
                    return Exp::Err;
                }
                let off = match strict_i64(&args[2]) {
                    Some(o) if o >= 0 => o as usize,
                    _ => return Exp::Err,
                };
                let v = args[3].clone();
                match self.get_mut(db, &args[1]) {
                    None => {
                        if v.is_empty() {
                            return Exp::Is(int(0));
                        }
                        if off.saturating_add(v.len()) > MAX_STR {
                            return Exp::Err;
                        }
                        let mut s = vec![0u8; off];
                        s.extend_from_slice(&v);
                        let l = s.len();
                        self.set(db, &args[1], Val::Str(s), None);
                        Exp::Is(int(l as i64))
                    }
                    Some(e) => match &mut e.val {
                        Val::Str(s) => {
                            if v.is_empty() {
                                return Exp::Is(int(s.len() as i64));
                            }
                            if off.saturating_add(v.len()) > MAX_STR {
                                return Exp::Err;
                            }
                            if s.len() < off + v.len() {
                                s.resize(off + v.len(), 0);
                            }
                            s[off..off + v.len()].copy_from_slice(&v);
                            Exp::Is(int(s.len() as i64))
                        }
                        _ => wt(),
                    },
                }
            }
            "INCR" | "DECR" | "INCRBY" | "DECRBY" => {
                let by = match name.as_str() {
                    "INCR" | "DECR" => {
                        if n != 2 {
                            return Exp::Err;
                        }
                        if name == "INCR" {
                            1i64
                        } else {
                            -1i64
                        }
                    }
                    _ => {
                        if n != 3 {
                            return Exp::Err;
                        }
                        match strict_i64(&args[2]) {
                            Some(v) => {
                                if name == "DECRBY" {
                                    if v == i64::MIN {
                                        // Redis refuses; but a wrong-type / non-integer key is also an error
                                        return Exp::Err;
                                    }
                                    -v
                                } else {
                                    v
                                }
                            }
                            None => return Exp::Err,
                        }
                    }
                };
                let cur = match self.get(db, &args[1]) {
                    None => 0i64,
                    Some(e) => match &e.val {
                        Val::Str(b) => match strict_i64(b) {
                            Some(v) => v,
                            None => return Exp::Err,
                        },
                        _ => return wt(),
                    },
                };
                let nv = match cur.checked_add(by) {
                    Some(v) => v,
                    None => return Exp::Err,
                };
                let s = nv.to_string().into_bytes();
                match self.get_mut(db, &args[1]) {
                    Some(e) => e.val = Val::Str(s),
                    None => self.set(db, &args[1], Val::Str(s), None),
                }
                Exp::Is(int(nv))
            }
            // ------------------------------------------------------------ lists
            "LPUSH" | "RPUSH" => {
                if n < 3 {
                    return Exp::Err;
                }
                let left = name == "LPUSH";
                if let Some(e) = self.get(db, &args[1]) {
                    if !matches!(e.val, Val::List(_)) {
                        return wt();
                    }
                } else {
                    self.set(db, &args[1], Val::List(VecDeque::new()), None);
                }
                if let Some(Entry { val: Val::List(l), .. }) = self.dbs[db].keys.get_mut(&args[1]) {
                    for v in &args[2..] {
                        if left {
                            l.push_front(v.clone());
                        } else {
                            l.push_back(v.clone());
                        }
                    }
                    return Exp::Is(int(l.len() as i64));
                }
                unreachable!()
            }
            "LPOP" | "RPOP" => {
                if n != 2 {
                    return Exp::Err; // count form is not in any alphabet
                }
                let left = name == "LPOP";
                let r = match self.get_mut(db, &args[1]) {
                    None => return Exp::Is(R::Nil),
                    Some(e) => match &mut e.val {
                        Val::List(l) => {
                            let v = if left { l.pop_front() } else { l.pop_back() };
                            match v {
                                Some(v) => bulk(&v),
                                None => R::Nil,
                            }
                        }
                        _ => return wt(),
                    },
                };
                self.drop_if_empty(db, &args[1]);
                Exp::Is(r)
            }
            "BLPOP" | "BRPOP" => {
                // only the non-blocking outcome is modelled: the first listed key holding a list with elements is popped
                if n < 3 {
                    return Exp::Err;
                }
                match float_arg(&args[n - 1]) {
                    FloatArg::Val(t) if t >= 0.0 => {}
                    FloatArg::DontCare => return Exp::Any,
                    _ => return Exp::Err,
                }
                let left = name == "BLPOP";
                for k in &args[1..n - 1] {
                    match self.get_mut(db, k) {
                        None => continue,
                        Some(e) => match &mut e.val {
                            Val::List(l) => {
                                let v = if left { l.pop_front() } else { l.pop_back() };
                                if let Some(v) = v {
                                    let key = k.clone();
                                    self.drop_if_empty(db, &key);
                                    return Exp::Is(R::Arr(vec![bulk(&key), bulk(&v)]));
                                }
                            }
                            _ => return wt(),
                        },
                    }
                }
                Exp::Any // would block: outside this model (C13 has its own)
            }
            "LLEN" => {
                if n != 2 {
                    return Exp::Err;
                }
                match self.get(db, &args[1]) {
                    None => Exp::Is(int(0)),
                    Some(e) => match &e.val {
                        Val::List(l) => Exp::Is(int(l.len() as i64)),
                        _ => wt(),
                    },
                }
            }
            "LRANGE" => {
                if n != 4 {
                    return Exp::Err;
                }
                let (a, b) = match (strict_i64(&args[2]), strict_i64(&args[3])) {
                    (Some(a), Some(b)) => (a, b),
                    _ => return Exp::Err,
                };
                match self.get(db, &args[1]) {
                    None => Exp::Is(R::Arr(vec![])),
                    Some(e) => match &e.val {
                        Val::List(l) => match norm_range(l.len(), a, b) {
                            None => Exp::Is(R::Arr(vec![])),
                            Some((s, t)) => Exp::Is(R::Arr(l.iter().skip(s).take(t - s + 1).map(|x| bulk(x)).collect())),
                        },
                        _ => wt(),
                    },
                }
            }
            "LINDEX" => {
                if n != 3 {
                    return Exp::Err;
                }
                let i = match strict_i64(&args[2]) {
                    Some(i) => i,
                    None => return Exp::Err,
                };
                match self.get(db, &args[1]) {
                    None => Exp::Is(R::Nil),
                    Some(e) => match &e.val {
                        Val::List(l) => {
                            let len = l.len() as i128;
                            let idx = if i < 0 { i as i128 + len } else { i as i128 };
                            if idx < 0 || idx >= len {
                                Exp::Is(R::Nil)
                            } else {
                                Exp::Is(bulk(&l[idx as usize]))
                            }
                        }
                        _ => wt(),
                    },
                }
            }
            "LSET" => {
                if n != 4 {
                    return Exp::Err;
                }
                let i = strict_i64(&args[2]);
                match self.get_mut(db, &args[1]) {
                    None => Exp::Err,
                    Some(e) => match &mut e.val {
                        Val::List(l) => {
                            let i = match i {
                                Some(i) => i,
                                None => return Exp::Err,
                            };
                            let len = l.len() as i128;
                            let idx = if i < 0 { i as i128 + len } else { i as i128 };
                            if idx < 0 || idx >= len {
                                Exp::Err
                            } else {
                                l[idx as usize] = args[3].clone();
                                Exp::Is(R::ok())
                            }
                        }
                        _ => wt(),
                    },
                }
            }
            "LTRIM" => {
                if n != 4 {
                    return Exp::Err;
                }
                let (a, b) = match (strict_i64(&args[2]), strict_i64(&args[3])) {
                    (Some(a), Some(b)) => (a, b),
                    _ => return Exp::Err,
                };
                match self.get_mut(db, &args[1]) {
                    None => Exp::Is(R::ok()),
                    Some(e) => match &mut e.val {
                        Val::List(l) => {
                            match norm_range(l.len(), a, b) {
                                None => l.clear(),
                                Some((s, t)) => {
                                    let kept: VecDeque<Bytes> = l.iter().skip(s).take(t - s + 1).cloned().collect();
                                    *l = kept;
                                }
                            }
                            self.drop_if_empty(db, &args[1]);
                            Exp::Is(R::ok())
                        }
                        _ => wt(),
                    },
                }
            }
            "LREM" => {
                if n != 4 {
                    return Exp::Err;
                }
                let c = match strict_i64(&args[2]) {
                    Some(c) => c,
                    None => return Exp::Err,
                };
                match self.get_mut(db, &args[1]) {
                    None => Exp::Is(int(0)),
                    Some(e) => match &mut e.val {
                        Val::List(l) => {
                            let mut removed = 0i64;
                            let limit = if c == 0 { i64::MAX } else { c.checked_abs().unwrap_or(i64::MAX) };
                            if c >= 0 {
                                let mut out = VecDeque::new();
                                for x in l.iter() {
                                    if *x == args[3] && removed < limit {
                                        removed += 1;
                                    } else {
                                        out.push_back(x.clone());
                                    }
                                }
                                *l = out;
                            } else {
                                let mut out = VecDeque::new();
                                for x in l.iter().rev() {
                                    if *x == args[3] && removed < limit {
                                        removed += 1;
                                    } else {
                                        out.push_front(x.clone());
                                    }
                                }
                                *l = out;
                            }
                            self.drop_if_empty(db, &args[1]);
                            Exp::Is(int(removed))
                        }
                        _ => wt(),
                    },
                }
            }
            // ------------------------------------------------------------ sets
            "SADD" => {
                if n < 3 {
                    return Exp::Err;
                }
                if let Some(e) = self.get(db, &args[1]) {
                    if !matches!(e.val, Val::Set(_)) {
                        return wt();
                    }
                } else {
                    self.set(db, &args[1], Val::Set(BTreeSet::new()), None);
                }
                if let Some(Entry { val: Val::Set(s), .. }) = self.dbs[db].keys.get_mut(&args[1]) {
                    let mut added = 0;
                    for m in &args[2..] {
                        if s.insert(m.clone()) {
                            added += 1;
                        }
                    }
                    return Exp::Is(int(added));
                }
                unreachable!()
            }
            "SREM" => {
                if n < 3 {
                    return Exp::Err;
                }
                match self.get_mut(db, &args[1]) {
                    None => Exp::Is(int(0)),
                    Some(e) => match &mut e.val {
                        Val::Set(s) => {
                            let mut c = 0;
                            for m in &args[2..] {
                                if s.remove(m) {
                                    c += 1;
                                }
                            }
                            self.drop_if_empty(db, &args[1]);
                            Exp::Is(int(c))
                        }
                        _ => wt(),
                    },
                }
            }
            "SMEMBERS" => {
                if n != 2 {
                    return Exp::Err;
                }
                match self.get(db, &args[1]) {
                    None => Exp::AnyOrder(vec![]),
                    Some(e) => match &e.val {
                        Val::Set(s) => Exp::AnyOrder(s.iter().map(|m| bulk(m)).collect()),
                        _ => wt(),
                    },
                }
            }
            "SISMEMBER" => {
                if n != 3 {
                    return Exp::Err;
                }
                match self.get(db, &args[1]) {
                    None => Exp::Is(int(0)),
                    Some(e) => match &e.val {
                        Val::Set(s) => Exp::Is(int(s.contains(&args[2]) as i64)),
                        _ => wt(),
                    },
                }
            }
            "SCARD" => {
                if n != 2 {
                    return Exp::Err;
                }
                match self.get(db, &args[1]) {
                    None => Exp::Is(int(0)),
                    Some(e) => match &e.val {
                        Val::Set(s) => Exp::Is(int(s.len() as i64)),
                        _ => wt(),
                    },
                }
            }
            "SUNION" | "SINTER" | "SDIFF" => {
                if n < 2 {
                    return Exp::Err;
                }
                let mut sets: Vec<Option<BTreeSet<Bytes>>> = Vec::new();
                let mut any_wt = false;
                let mut any_absent = false;
                for k in &args[1..] {
                    match self.get(db, k) {
                        None => {
                            any_absent = true;
                            sets.push(None)
                        }
                        Some(e) => match &e.val {
                            Val::Set(s) => sets.push(Some(s.clone())),
                            _ => {
                                any_wt = true;
                                sets.push(None)
                            }
                        },
                    }
                }
                if any_wt {
                    if name == "SINTER" && any_absent {
                        return Exp::OneOf(vec![Exp::Err, Exp::AnyOrder(vec![])]);
                    }
                    return wt();
                }
                let empty = BTreeSet::new();
                let res: BTreeSet<Bytes> = match name.as_str() {
                    "SUNION" => sets.iter().flat_map(|s| s.as_ref().unwrap_or(&empty).iter().cloned()).collect(),
                    "SINTER" => {
                        let mut it = sets.iter();
                        let mut acc = it.next().unwrap().clone().unwrap_or_default();
                        for s in it {
                            let s = s.as_ref().unwrap_or(&empty);
                            acc = acc.intersection(s).cloned().collect();
                        }
                        acc
                    }
                    _ => {
                        let mut it = sets.iter();
                        let mut acc = it.next().unwrap().clone().unwrap_or_default();
                        for s in it {
                            let s = s.as_ref().unwrap_or(&empty);
                            acc = acc.difference(s).cloned().collect();
                        }
                        acc
                    }
                };
                Exp::AnyOrder(res.iter().map(|m| bulk(m)).collect())
            }
            "SPOP" => {
                if n != 2 && n != 3 {
                    return Exp::Err;
                }
                let count = if n == 3 {
                    match strict_i64(&args[2]) {
                        Some(c) if c >= 0 => Some(c as usize),
                        _ => return Exp::Err,
                    }
                } else {
                    None
                };
                let set = match self.get(db, &args[1]) {
                    None => BTreeSet::new(),
                    Some(e) => match &e.val {
                        Val::Set(s) => s.clone(),
                        _ => return wt(),
                    },
                };
                match count {
                    None => {
                        if set.is_empty() {
                            return Exp::Is(R::Nil);
                        }
                        // adopt
                        if let R::Bulk(b) = actual {
                            if set.contains(b) {
                                if let Some(Entry { val: Val::Set(s), .. }) = self.dbs[db].keys.get_mut(&args[1]) {
                                    s.remove(b);
                                }
                                self.drop_if_empty(db, &args[1]);
                            }
                        }
                        Exp::Pred("one current member".into(), Box::new(move |a| matches!(a, R::Bulk(b) if set.contains(b))))
                    }
                    Some(c) => {
                        let want = c.min(set.len());
                        let items: Vec<Bytes> = match actual {
                            R::Arr(v) => v.iter().filter_map(|x| if let R::Bulk(b) = x { Some(b.clone()) } else { None }).collect(),
                            _ => Vec::new(),
                        };
                        let distinct: BTreeSet<Bytes> = items.iter().cloned().collect();
                        let valid = distinct.len() == items.len() && items.len() == want && distinct.iter().all(|m| set.contains(m));
                        if valid {
                            if let Some(Entry { val: Val::Set(s), .. }) = self.dbs[db].keys.get_mut(&args[1]) {
                                for m in &distinct {
                                    s.remove(m);
                                }
                            }
                            self.drop_if_empty(db, &args[1]);
                        }
                        Exp::Pred(format!("{} distinct current members", want), Box::new(move |a| {
                            let v = match a {
                                R::Arr(v) => v.clone(),
                                R::NilArr => vec![],
                                _ => return false,
                            };
                            let it: Vec<Bytes> = v.iter().filter_map(|x| if let R::Bulk(b) = x { Some(b.clone()) } else { None }).collect();
                            let d: BTreeSet<Bytes> = it.iter().cloned().collect();
                            it.len() == v.len() && d.len() == it.len() && it.len() == want && d.iter().all(|m| set.contains(m))
                        }))
                    }
                }
            }
            "SRANDMEMBER" => {
                if n != 2 && n != 3 {
                    return Exp::Err;
                }
                let count = if n == 3 {
                    match strict_i64(&args[2]) {
                        Some(c) => Some(c),
                        None => return Exp::Err,
                    }
                } else {
                    None
                };
                let set = match self.get(db, &args[1]) {
                    None => BTreeSet::new(),
                    Some(e) => match &e.val {
                        Val::Set(s) => s.clone(),
                        _ => return wt(),
                    },
                };
                match count {
                    None => {
                        if set.is_empty() {
                            Exp::Is(R::Nil)
                        } else {
                            Exp::Pred("one current member".into(), Box::new(move |a| matches!(a, R::Bulk(b) if set.contains(b))))
                        }
                    }
                    Some(c) => {
                        if set.is_empty() {
                            return Exp::AnyOrder(vec![]);
                        }
                        if c >= 0 {
                            let want = (c as usize).min(set.len());
                            Exp::Pred(format!("{} distinct current members", want), Box::new(move |a| {
                                let v = match a {
                                    R::Arr(v) => v.clone(),
                                    R::NilArr => vec![],
                                    _ => return false,
                                };
                                let it: Vec<Bytes> = v.iter().filter_map(|x| if let R::Bulk(b) = x { Some(b.clone()) } else { None }).collect();
                                let d: BTreeSet<Bytes> = it.iter().cloned().collect();
                                it.len() == v.len() && d.len() == it.len() && it.len() == want && d.iter().all(|m| set.contains(m))
                            }))
                        } else {
                            let want = c.unsigned_abs() as u128;
                            Exp::Pred(format!("{} current members (repeats allowed)", want), Box::new(move |a| {
                                let v = match a {
                                    R::Arr(v) => v.clone(),
                                    _ => return false,
                                };
                                (want > 1_000_000 || v.len() as u128 == want) && v.iter().all(|x| matches!(x, R::Bulk(b) if set.contains(b)))
                            }))
                        }
                    }
                }
            }
            // ------------------------------------------------------------ hashes
            "HSET" | "HMSET" => {
                if n < 4 || n % 2 != 0 {
                    return Exp::Err;
                }
                if let Some(e) = self.get(db, &args[1]) {
                    if !matches!(e.val, Val::Hash(_)) {
                        return wt();
                    }
                } else {
                    self.set(db, &args[1], Val::Hash(BTreeMap::new()), None);
                }
                if let Some(Entry { val: Val::Hash(h), .. }) = self.dbs[db].keys.get_mut(&args[1]) {
                    let mut added = 0;
                    for p in args[2..].chunks(2) {
                        if h.insert(p[0].clone(), p[1].clone()).is_none() {
                            added += 1;
                        }
                    }
                    return if name == "HSET" { Exp::Is(int(added)) } else { Exp::Is(R::ok()) };
                }
                unreachable!()
            }
            "HGET" => {
                if n != 3 {
                    return Exp::Err;
                }
                match self.get(db, &args[1]) {
                    None => Exp::Is(R::Nil),
                    Some(e) => match &e.val {
                        Val::Hash(h) => Exp::Is(h.get(&args[2]).map(|v| bulk(v)).unwrap_or(R::Nil)),
                        _ => wt(),
                    },
                }
            }
            "HMGET" => {
                if n < 3 {
                    return Exp::Err;
                }
                let empty = BTreeMap::new();
                let h = match self.get(db, &args[1]) {
                    None => empty,
                    Some(e) => match &e.val {
                        Val::Hash(h) => h.clone(),
                        _ => return wt(),
                    },
                };
                Exp::Is(R::Arr(args[2..].iter().map(|f| h.get(f).map(|v| bulk(v)).unwrap_or(R::Nil)).collect()))
            }
            "HGETALL" | "HKEYS" | "HVALS" => {
                if n != 2 {
                    return Exp::Err;
                }
                let h = match self.get(db, &args[1]) {
                    None => BTreeMap::new(),
                    Some(e) => match &e.val {
                        Val::Hash(h) => h.clone(),
                        _ => return wt(),
                    },
                };
                match name.as_str() {
                    "HGETALL" => Exp::PairsAnyOrder(h.iter().map(|(k, v)| (bulk(k), bulk(v))).collect()),
                    "HKEYS" => Exp::AnyOrder(h.keys().map(|k| bulk(k)).collect()),
                    _ => Exp::AnyOrder(h.values().map(|k| bulk(k)).collect()),
                }
            }
            "HLEN" => {
                if n != 2 {
                    return Exp::Err;
                }
                match self.get(db, &args[1]) {
                    None => Exp::Is(int(0)),
                    Some(e) => match &e.val {
                        Val::Hash(h) => Exp::Is(int(h.len() as i64)),
                        _ => wt(),
                    },
                }
            }
            "HEXISTS" => {
                if n != 3 {
                    return Exp::Err;
                }
                match self.get(db, &args[1]) {
                    None => Exp::Is(int(0)),
                    Some(e) => match &e.val {
                        Val::Hash(h) => Exp::Is(int(h.contains_key(&args[2]) as i64)),
                        _ => wt(),
                    },
                }
            }
            "HDEL" => {
                if n < 3 {
                    return Exp::Err;
                }
                match self.get_mut(db, &args[1]) {
                    None => Exp::Is(int(0)),
                    Some(e) => match &mut e.val {
                        Val::Hash(h) => {
                            let mut c = 0;
                            for f in &args[2..] {
                                if h.remove(f).is_some() {
                                    c += 1;
                                }
                            }
                            self.drop_if_empty(db, &args[1]);
                            Exp::Is(int(c))
                        }
                        _ => wt(),
                    },
                }
            }
            "HINCRBY" => {
                if n != 4 {
                    return Exp::Err;
                }
                let by = strict_i64(&args[3]);
                let cur = match self.get(db, &args[1]) {
                    None => 0,
                    Some(e) => match &e.val {
                        Val::Hash(h) => match h.get(&args[2]) {
                            None => 0,
                            Some(v) => match strict_i64(v) {
                                Some(v) => v,
                                None => return Exp::Err,
                            },
                        },
                        _ => return wt(),
                    },
                };
                let by = match by {
                    Some(b) => b,
                    None => return Exp::Err,
                };
                let nv = match cur.checked_add(by) {
                    Some(v) => v,
                    None => return Exp::Err,
                };
                if self.get(db, &args[1]).is_none() {
                    self.set(db, &args[1], Val::Hash(BTreeMap::new()), None);
                }
                if let Some(Entry { val: Val::Hash(h), .. }) = self.dbs[db].keys.get_mut(&args[1]) {
                    h.insert(args[2].clone(), nv.to_string().into_bytes());
                }
                Exp::Is(int(nv))
            }
            // ------------------------------------------------------------ sorted sets
            "ZADD" => {
                if n < 4 || n % 2 != 0 {
                    return Exp::Err;
                }
                let mut pairs = Vec::new();
                let mut dc = false;
                for p in args[2..].chunks(2) {
                    match float_arg(&p[0]) {
                        FloatArg::Val(s) => pairs.push((p[1].clone(), s)),
                        FloatArg::Invalid => return Exp::Err,
                        FloatArg::DontCare => dc = true,
                    }
                }
                if let Some(e) = self.get(db, &args[1]) {
                    if !matches!(e.val, Val::ZSet(_)) {
                        return wt();
                    }
                }
                if dc {
                    return Exp::Any; // spelling whose acceptance is don't-care; never in an exploring alphabet
                }
                if self.get(db, &args[1]).is_none() {
                    self.set(db, &args[1], Val::ZSet(BTreeMap::new()), None);
                }
                if let Some(Entry { val: Val::ZSet(z), .. }) = self.dbs[db].keys.get_mut(&args[1]) {
                    let mut added = 0;
                    for (m, s) in pairs {
                        if z.insert(m, s).is_none() {
                            added += 1;
                        }
                    }
                    return Exp::Is(int(added));
                }
                unreachable!()
            }
            "ZINCRBY" => {
                if n != 4 {
                    return Exp::Err;
                }
                let d = match float_arg(&args[2]) {
                    FloatArg::Val(d) => d,
                    FloatArg::Invalid => return Exp::Err,
                    FloatArg::DontCare => return Exp::Any,
                };
                let cur = match self.get(db, &args[1]) {
                    None => 0.0,
                    Some(e) => match &e.val {
                        Val::ZSet(z) => z.get(&args[3]).cloned().unwrap_or(0.0),
                        _ => return wt(),
                    },
                };
                let nv = cur + d;
                if nv.is_nan() {
                    return Exp::Err;
                }
                if self.get(db, &args[1]).is_none() {
                    self.set(db, &args[1], Val::ZSet(BTreeMap::new()), None);
                }
                if let Some(Entry { val: Val::ZSet(z), .. }) = self.dbs[db].keys.get_mut(&args[1]) {
                    z.insert(args[3].clone(), nv);
                }
                Exp::Score(nv)
            }
            "ZREM" => {
                if n < 3 {
                    return Exp::Err;
                }
                match self.get_mut(db, &args[1]) {
                    None => Exp::Is(int(0)),
                    Some(e) => match &mut e.val {
                        Val::ZSet(z) => {
                            let mut c = 0;
                            for m in &args[2..] {
                                if z.remove(m).is_some() {
                                    c += 1;
                                }
                            }
                            self.drop_if_empty(db, &args[1]);
                            Exp::Is(int(c))
                        }
                        _ => wt(),
                    },
                }
            }
            "ZSCORE" => {
                if n != 3 {
                    return Exp::Err;
                }
                match self.get(db, &args[1]) {
                    None => Exp::Is(R::Nil),
                    Some(e) => match &e.val {
                        Val::ZSet(z) => match z.get(&args[2]) {
                            Some(s) => Exp::Score(*s),
                            None => Exp::Is(R::Nil),
                        },
                        _ => wt(),
                    },
                }
            }
            "ZCARD" => {
                if n != 2 {
                    return Exp::Err;
                }
                match self.get(db, &args[1]) {
                    None => Exp::Is(int(0)),
                    Some(e) => match &e.val {
                        Val::ZSet(z) => Exp::Is(int(z.len() as i64)),
                        _ => wt(),
                    },
                }
            }
            "ZRANK" | "ZREVRANK" => {
                if n != 3 {
                    return Exp::Err;
                }
                match self.get(db, &args[1]) {
                    None => Exp::Is(R::Nil),
                    Some(e) => match &e.val {
                        Val::ZSet(z) => {
                            let v = zsorted(z);
                            match v.iter().position(|(m, _)| *m == args[2]) {
                                Some(p) => Exp::Is(int(if name == "ZRANK" { p as i64 } else { (v.len() - 1 - p) as i64 })),
                                None => Exp::Is(R::Nil),
                            }
                        }
                        _ => wt(),
                    },
                }
            }
            "ZRANGE" | "ZREVRANGE" => {
                if n != 4 && n != 5 {
                    return Exp::Err;
                }
                let ws = if n == 5 {
                    if upper(&args[4]) == "WITHSCORES" {
                        true
                    } else {
                        return Exp::Err;
                    }
                } else {
                    false
                };
                let (a, b) = match (strict_i64(&args[2]), strict_i64(&args[3])) {
                    (Some(a), Some(b)) => (a, b),
                    _ => return Exp::Err,
                };
                match self.get(db, &args[1]) {
                    None => Exp::Is(R::Arr(vec![])),
                    Some(e) => match &e.val {
                        Val::ZSet(z) => {
                            let mut v = zsorted(z);
                            if name == "ZREVRANGE" {
                                v.reverse();
                            }
                            let sel: Vec<(Bytes, f64)> = match norm_range(v.len(), a, b) {
                                None => vec![],
                                Some((s, t)) => v[s..=t].to_vec(),
                            };
                            if ws {
                                Exp::ScoredSeq(sel)
                            } else {
                                Exp::Seq(sel.into_iter().map(|x| x.0).collect())
                            }
                        }
                        _ => wt(),
                    },
                }
            }
            "ZRANGEBYSCORE" | "ZREVRANGEBYSCORE" | "ZCOUNT" => {
                let is_count = name == "ZCOUNT";
                if (is_count && n != 4) || (!is_count && n != 4 && n != 5) {
                    return Exp::Err;
                }
                let ws = if n == 5 {
                    if upper(&args[4]) == "WITHSCORES" {
                        true
                    } else {
                        return Exp::Any; // LIMIT etc: not in any alphabet
                    }
                } else {
                    false
                };
                let rev = name == "ZREVRANGEBYSCORE";
                let (b1, b2) = (score_bound(&args[2]), score_bound(&args[3]));
                let (lo, hi) = match (b1, b2) {
                    (Bound::Invalid, _) | (_, Bound::Invalid) => return Exp::Err,
                    (Bound::DontCare, _) | (_, Bound::DontCare) => return Exp::Any,
                    (Bound::Val(x), Bound::Val(y)) => {
                        if rev {
                            (y, x)
                        } else {
                            (x, y)
                        }
                    }
                };
                match self.get(db, &args[1]) {
                    None => {
                        if is_count {
                            Exp::Is(int(0))
                        } else {
                            Exp::Is(R::Arr(vec![]))
                        }
                    }
                    Some(e) => match &e.val {
                        Val::ZSet(z) => {
                            let mut sel: Vec<(Bytes, f64)> = zsorted(z).into_iter().filter(|(_, s)| *s >= lo && *s <= hi).collect();
                            if is_count {
                                return Exp::Is(int(sel.len() as i64));
                            }
                            if rev {
                                sel.reverse();
                            }
                            if ws {
                                Exp::ScoredSeq(sel)
                            } else {
                                Exp::Seq(sel.into_iter().map(|x| x.0).collect())
                            }
                        }
                        _ => wt(),
                    },
                }
            }
            "ZPOPMIN" | "ZPOPMAX" => {
                if n != 2 && n != 3 {
                    return Exp::Err;
                }
                let c = if n == 3 {
                    match strict_i64(&args[2]) {
                        Some(c) if c >= 0 => c as usize,
                        _ => return Exp::Err,
                    }
                } else {
                    1
                };
                match self.get_mut(db, &args[1]) {
                    None => Exp::Is(R::Arr(vec![])),
                    Some(e) => match &mut e.val {
                        Val::ZSet(z) => {
                            let mut v = zsorted(z);
                            if name == "ZPOPMAX" {
                                v.reverse();
                            }
                            let sel: Vec<(Bytes, f64)> = v.into_iter().take(c).collect();
                            for (m, _) in &sel {
                                z.remove(m);
                            }
                            self.drop_if_empty(db, &args[1]);
                            Exp::ScoredSeq(sel)
                        }
                        _ => wt(),
                    },
                }
            }
            _ => {
                if let Some(e) = self.exec_stream(db, &name, args, actual) {
                    return e;
                }
                Exp::Err // unknown command
            }
        }
    }

    /// argument classes for deviation signatures: index-like arguments are expressed relative to the
    /// addressed collection's length so that one defect gives one signature
    pub fn sig_of(&mut self, db: usize, args: &[Bytes]) -> String {
        if args.is_empty() {
            return "(empty)".into();
        }
        let name = upper(&args[0]);
        let mut parts = vec![name.clone()];
        if (name == "XGROUP" || name == "XINFO") && args.len() > 2 {
            // the key is the third word
            let mut p = vec![format!("{} {}", name, upper(&args[1])), format!("{}:{}", crate::resp::show_bytes(&args[2]), self.key_class(db, &args[2]))];
            for a in &args[3..] {
                p.push(crate::resp::show_bytes(a));
            }
            return p.join(" ");
        }
        let keyclass = if args.len() > 1 { self.key_class(db, &args[1]) } else { String::new() };
        let len = if args.len() > 1 { self.dbs[db].keys.get(&args[1]).map(|e| e.val.size()).unwrap_or(0) } else { 0 };
        let idx_positions: &[usize] = match name.as_str() {
            "LRANGE" | "LTRIM" | "GETRANGE" | "ZRANGE" | "ZREVRANGE" => &[2, 3],
            "LINDEX" | "LSET" | "SETRANGE" => &[2],
            _ => &[],
        };
        let stream_info: Option<(Vec<super::streams::Id>, super::streams::Id)> = if args.len() > 1 && matches!(name.as_str(), "XRANGE" | "XREVRANGE" | "XDEL") {
            match self.dbs[db].keys.get(&args[1]) {
                Some(Entry { val: Val::Stream(s), .. }) => Some((s.entries.keys().cloned().collect(), s.last_id)),
                _ => Some((vec![], (0, 0))),
            }
        } else {
            None
        };
        if name == "XREAD" || name == "XREADGROUP" {
            // XREAD [COUNT n] STREAMS k.. id..: classify the ids against their streams
            if let Some(pos) = args.iter().position(|a| upper(a) == "STREAMS") {
                let rest = &args[pos + 1..];
                let k = rest.len() / 2;
                for a in &args[1..=pos] {
                    parts.push(crate::resp::show_bytes(a));
                }
                for j in 0..k {
                    let key = &rest[j];
                    let (ids, last) = match self.dbs[db].keys.get(key) {
                        Some(Entry { val: Val::Stream(s), .. }) => (s.entries.keys().cloned().collect::<Vec<_>>(), s.last_id),
                        _ => (vec![], (0, 0)),
                    };
                    parts.push(format!("{}:{}@{}", crate::resp::show_bytes(key), self.key_class(db, key), super::streams::bound_class(&rest[k + j], &ids, last)));
                }
                if rest.len() % 2 != 0 {
                    parts.push("odd".into());
                }
                return parts.join(" ");
            }
        }
        for (i, a) in args.iter().enumerate().skip(1) {
            if let Some((ids, last)) = &stream_info {
                if i >= 2 && (name == "XDEL" || i <= 3) {
                    parts.push(super::streams::bound_class(a, ids, *last));
                    continue;
                }
            }
            if i == 1 {
                parts.push(format!("{}:{}", crate::resp::show_bytes(a), keyclass));
                continue;
            }
            if idx_positions.contains(&i) {
                parts.push(index_class(a, len));
                continue;
            }
            if self.sig_ms_base > 0 {
                if let Some(id) = super::streams::parse_id(a) {
                    parts.push(super::streams::rel_id(id, self.sig_ms_base));
                    continue;
                }
            }
            if a.len() <= 16 || lenient_i64(a).is_some() {
                parts.push(crate::resp::show_bytes(a));
            } else {
                parts.push(format!("({}B)", a.len()));
            }
        }
        parts.join(" ")
    }
}

pub fn index_class(a: &[u8], len: usize) -> String {
    match strict_i64(a) {
        None => format!("nonint:{}", crate::resp::show_bytes(a)),
        Some(i) => {
            let l = len as i128;
            let i = i as i128;
            if i < -l {
                "<-len".into()
            } else if i == -l && l > 0 {
                "=-len".into()
            } else if i < 0 {
                if i == -1 { "-1".into() } else { "neg-in".into() }
            } else if i == 0 {
                "0".into()
            } else if i < l - 1 {
                "pos-in".into()
            } else if i == l - 1 {
                "=len-1".into()
            } else if i == l {
                "=len".into()
            } else {
                ">len".into()
            }
        }
    }
}
