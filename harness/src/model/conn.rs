//! Connection-level reference model: per-connection database selection, MULTI/EXEC/DISCARD, WATCH with
//! Redis's per-client dirty flag, and pub/sub tables, layered over the data model (SEMANTICS §9, §10).

use super::glob::glob_match;
use super::{upper, Bytes, Entry, Exp, Model};
use crate::resp::R;
use std::collections::BTreeMap;

#[derive(Clone, Debug, Default, PartialEq)]
pub struct ConnState {
    pub db: usize,
    pub in_multi: bool,
    pub queue: Vec<Vec<Bytes>>,
    /// (db, key) -> the key's live entry when it was first watched
    pub watched: BTreeMap<(usize, Bytes), Option<Entry>>,
    /// a watched key changed: EXEC must abort
    pub dirty: bool,
    /// a watched key was addressed by a write that left it identical: EXEC may abort (don't care)
    pub maybe_dirty: bool,
    /// UNWATCH arrived between MULTI and EXEC: Redis queues it (watches stay until EXEC), forgetting them at
    /// once is also accepted - whether a later change aborts is a don't-care
    pub unwatch_in_multi: bool,
    pub chans: Vec<Bytes>,
    pub pats: Vec<Bytes>,
    pub open: bool,
}

#[derive(Clone, Debug, PartialEq)]
pub struct ConnModel {
    pub data: Model,
    pub conns: Vec<ConnState>,
}

/// what one action is expected to produce
pub struct Outcome {
    /// frames expected on the issuing connection, in order
    pub own: Vec<Exp>,
    /// frames expected on other connections (each connection's frames compare as a multiset)
    pub pushes: BTreeMap<usize, Vec<R>>,
}

/// the one script the connection-level model understands: forward ARGV as a command
pub const FORWARD_SCRIPT: &str = "return redis.call(unpack(ARGV))";

fn bulk(b: &[u8]) -> R {
    R::Bulk(b.to_vec())
}

impl ConnModel {
    pub fn new(n: usize) -> ConnModel {
        ConnModel { data: Model::new(), conns: (0..n).map(|_| ConnState { open: true, ..Default::default() }).collect() }
    }

    pub fn canon(&self, ms_base: u64) -> String {
        let mut s = self.data.canon(ms_base);
        for (i, c) in self.conns.iter().enumerate() {
            s.push_str(&format!("\nconn{}: db={} multi={} queue={:?} watched={:?} dirty={} maybe={} chans={:?} pats={:?} open={}", i, c.db, c.in_multi, c.queue,
                c.watched.keys().collect::<Vec<_>>(), c.dirty, c.maybe_dirty, c.chans, c.pats, c.open));
        }
        s
    }

    fn live_entry(&mut self, db: usize, key: &[u8]) -> Option<Entry> {
        self.data.get(db, key).cloned()
    }

    /// run a data command for connection `c`'s database and update every watcher's dirty flags
    fn data_cmd(&mut self, c: usize, args: &[Bytes], actual: &R) -> Exp {
        let db = self.conns[c].db;
        let name = upper(&args[0]);
        // watched keys that this command addresses (over-approximation: any argument equal to the key name)
        let mut addressed: Vec<(usize, Bytes)> = Vec::new();
        for w in self.conns.iter() {
            for (wdb, wk) in w.watched.keys() {
                let hit = match name.as_str() {
                    "FLUSHALL" => true,
                    "FLUSHDB" => *wdb == db,
                    _ => *wdb == db && args.iter().skip(1).any(|a| a == wk),
                };
                if hit && !addressed.contains(&(*wdb, wk.clone())) {
                    addressed.push((*wdb, wk.clone()));
                }
            }
        }
        let before: Vec<Option<Entry>> = addressed.iter().map(|(d, k)| self.live_entry(*d, k)).collect();
        let exp = self.data.exec(db, args, actual);
        for (i, (d, k)) in addressed.iter().enumerate() {
            let after = self.live_entry(*d, k);
            let changed = after != before[i];
            for w in self.conns.iter_mut() {
                if w.watched.contains_key(&(*d, k.clone())) {
                    if changed {
                        w.dirty = true;
                    } else {
                        w.maybe_dirty = true;
                    }
                }
            }
        }
        exp
    }

    fn publish(&mut self, chan: &[u8], msg: &[u8], pushes: &mut BTreeMap<usize, Vec<R>>) -> i64 {
        let mut n = 0;
        for (i, w) in self.conns.iter().enumerate() {
            if !w.open {
                continue;
            }
            if w.chans.iter().any(|x| x == chan) {
                pushes.entry(i).or_default().push(R::Arr(vec![bulk(b"message"), bulk(chan), bulk(msg)]));
                n += 1;
            }
            for p in w.pats.iter() {
                if glob_match(p, chan) {
                    pushes.entry(i).or_default().push(R::Arr(vec![bulk(b"pmessage"), bulk(p), bulk(chan), bulk(msg)]));
                    n += 1;
                }
            }
        }
        n
    }

    /// one command executed now (directly, or as a slot of EXEC)
    fn exec_now(&mut self, c: usize, args: &[Bytes], actual: &R, pushes: &mut BTreeMap<usize, Vec<R>>) -> Exp {
        let name = upper(&args[0]);
        match name.as_str() {
            "SELECT" => {
                if args.len() != 2 {
                    return Exp::Err;
                }
                match super::strict_i64(&args[1]) {
                    Some(n) if (0..16).contains(&n) => {
                        self.conns[c].db = n as usize;
                        Exp::Is(R::ok())
                    }
                    _ => Exp::Err,
                }
            }
            "PUBLISH" => {
                if args.len() != 3 {
                    return Exp::Err;
                }
                let n = self.publish(&args[1], &args[2], pushes);
                Exp::Is(R::Int(n))
            }
            "EVAL" | "EVALSHA" => {
                // only the generic forwarding script is modelled: the script runs ARGV as one command on the
                // connection's database; its reply goes through the Lua conversion, which is C12's subject,
                // so here only "error or not" and the effect are judged
                let is_forward = args.len() >= 3 && (args[1] == FORWARD_SCRIPT.as_bytes() || args[1] == b"@SHA".to_vec()) && args[2] == b"0".to_vec();
                if !is_forward || args.len() < 4 {
                    return Exp::Any;
                }
                let inner: Vec<Bytes> = args[3..].to_vec();
                let inner_name = upper(&inner[0]);
                if matches!(inner_name.as_str(), "SELECT" | "MULTI" | "EXEC" | "WATCH" | "SUBSCRIBE" | "BLPOP" | "BRPOP" | "EVAL" | "EVALSHA") {
                    return Exp::Err;
                }
                let e = self.data_cmd(c, &inner, &R::Null);
                match e {
                    Exp::Err => Exp::Err,
                    _ => Exp::Pred("any non-error reply (conversion judged by C12)".into(), Box::new(|a| !a.is_err())),
                }
            }
            _ => self.data_cmd(c, args, actual),
        }
    }

    pub fn close(&mut self, c: usize) {
        let st = &mut self.conns[c];
        st.open = false;
        st.in_multi = false;
        st.queue.clear();
        st.watched.clear();
        st.dirty = false;
        st.maybe_dirty = false;
        st.chans.clear();
        st.pats.clear();
    }

    /// Apply one command sent by connection `c`; `own_actual` = the frames the connection received.
    pub fn apply(&mut self, c: usize, args: &[Bytes], own_actual: &[R]) -> Outcome {
        let mut pushes: BTreeMap<usize, Vec<R>> = BTreeMap::new();
        let name = upper(&args[0]);
        let first = own_actual.first().cloned().unwrap_or(R::Null);
        let own: Vec<Exp> = match name.as_str() {
            "MULTI" => {
                if args.len() != 1 {
                    vec![Exp::Err]
                } else if self.conns[c].in_multi {
                    vec![Exp::Err]
                } else {
                    self.conns[c].in_multi = true;
                    self.conns[c].queue.clear();
                    vec![Exp::Is(R::ok())]
                }
            }
            "DISCARD" => {
                if !self.conns[c].in_multi {
                    vec![Exp::Err]
                } else {
                    let st = &mut self.conns[c];
                    st.in_multi = false;
                    st.queue.clear();
                    st.watched.clear();
                    st.dirty = false;
                    st.maybe_dirty = false;
                    st.unwatch_in_multi = false;
                    vec![Exp::Is(R::ok())]
                }
            }
            "WATCH" => {
                if args.len() < 2 {
                    vec![Exp::Err]
                } else if self.conns[c].in_multi {
                    vec![Exp::Err]
                } else {
                    let db = self.conns[c].db;
                    for k in &args[1..] {
                        if !self.conns[c].watched.contains_key(&(db, k.clone())) {
                            let e = self.live_entry(db, k);
                            self.conns[c].watched.insert((db, k.clone()), e);
                        }
                    }
                    vec![Exp::Is(R::ok())]
                }
            }
            "UNWATCH" => {
                let st = &mut self.conns[c];
                if !st.in_multi {
                    st.watched.clear();
                    st.dirty = false;
                    st.maybe_dirty = false;
                    vec![Exp::Is(R::ok())]
                } else {
                    st.unwatch_in_multi = true;
                    vec![Exp::OneOf(vec![Exp::Is(R::ok()), Exp::Is(R::Simple(b"QUEUED".to_vec()))])]
                }
            }
            "EXEC" => {
                if !self.conns[c].in_multi {
                    vec![Exp::Err]
                } else {
                    // a watched key that had a TTL and reached its deadline counts as changed
                    let now = self.data.now;
                    let mut dirty = self.conns[c].dirty;
                    for ((_d, _k), snap) in self.conns[c].watched.iter() {
                        if let Some(e) = snap {
                            if let Some(dl) = e.deadline {
                                if now > dl {
                                    dirty = true;
                                }
                            }
                        }
                    }
                    let maybe = self.conns[c].maybe_dirty || (self.conns[c].unwatch_in_multi && dirty);
                    if self.conns[c].unwatch_in_multi {
                        dirty = false;
                    }
                    let queue = std::mem::take(&mut self.conns[c].queue);
                    {
                        let st = &mut self.conns[c];
                        st.in_multi = false;
                        st.watched.clear();
                        st.dirty = false;
                        st.maybe_dirty = false;
                        st.unwatch_in_multi = false;
                    }
                    let aborted_actual = matches!(first, R::NilArr | R::Nil);
                    if dirty {
                        vec![Exp::Pred("nil (watched key changed)".into(), Box::new(|a| matches!(a, R::NilArr | R::Nil)))]
                    } else if maybe && aborted_actual {
                        // don't care: addressed but identical
                        vec![Exp::Any]
                    } else {
                        // executes: judge each slot against the actual slot
                        let items: Vec<R> = match &first {
                            R::Arr(v) => v.clone(),
                            _ => Vec::new(),
                        };
                        let n = queue.len();
                        let mut all_ok = matches!(first, R::Arr(_)) && items.len() == n;
                        let mut descs = Vec::new();
                        for (i, q) in queue.iter().enumerate() {
                            let slot = items.get(i).cloned().unwrap_or(R::Null);
                            let e = self.exec_now(c, q, &slot, &mut pushes);
                            if !e.matches(&slot) {
                                all_ok = false;
                            }
                            descs.push(e.describe());
                        }
                        let desc = format!("exec[{}]: [{}]", n, descs.join(", "));
                        vec![Exp::Pred(format!("exec[{}]", n), Box::new(move |_| all_ok)), ].into_iter().map(|e| if let Exp::Pred(c2, f) = e { Exp::Pred(format!("{} {}", c2, if desc.len() < 300 { desc.clone() } else { String::new() }).trim().to_string(), f) } else { e }).collect()
                    }
                }
            }
            "SUBSCRIBE" | "PSUBSCRIBE" => {
                if args.len() < 2 {
                    vec![Exp::Err]
                } else {
                    let is_p = name == "PSUBSCRIBE";
                    let mut v = Vec::new();
                    for a in &args[1..] {
                        let st = &mut self.conns[c];
                        let list = if is_p { &mut st.pats } else { &mut st.chans };
                        if !list.contains(a) {
                            list.push(a.clone());
                        }
                        let count = (st.chans.len() + st.pats.len()) as i64;
                        v.push(Exp::Is(R::Arr(vec![bulk(if is_p { b"psubscribe" } else { b"subscribe" }), bulk(a), R::Int(count)])));
                    }
                    v
                }
            }
            "UNSUBSCRIBE" | "PUNSUBSCRIBE" => {
                let is_p = name == "PUNSUBSCRIBE";
                let word: &[u8] = if is_p { b"punsubscribe" } else { b"unsubscribe" };
                if args.len() > 1 {
                    let mut v = Vec::new();
                    for a in &args[1..] {
                        let st = &mut self.conns[c];
                        let list = if is_p { &mut st.pats } else { &mut st.chans };
                        list.retain(|x| x != a);
                        let count = (st.chans.len() + st.pats.len()) as i64;
                        v.push(Exp::Is(R::Arr(vec![bulk(word), bulk(a), R::Int(count)])));
                    }
                    v
                } else {
                    let st = &mut self.conns[c];
                    let names: Vec<Bytes> = if is_p { st.pats.clone() } else { st.chans.clone() };
                    if names.is_empty() {
                        let count = (st.chans.len() + st.pats.len()) as i64;
                        vec![Exp::Is(R::Arr(vec![bulk(word), R::Nil, R::Int(count)]))]
                    } else {
                        // one acknowledgement per subscription, in any order, with counts decreasing to the remainder
                        let other = if is_p { st.chans.len() } else { st.pats.len() } as i64;
                        if is_p {
                            st.pats.clear();
                        } else {
                            st.chans.clear();
                        }
                        let n = names.len();
                        let w = word.to_vec();
                        let mut v: Vec<Exp> = Vec::new();
                        for i in 0..n {
                            let names = names.clone();
                            let w = w.clone();
                            let want_count = other + (n - 1 - i) as i64;
                            v.push(Exp::Pred(format!("{} ack #{}", String::from_utf8_lossy(&w), i + 1), Box::new(move |a| match a {
                                R::Arr(x) if x.len() == 3 => x[0] == R::Bulk(w.clone()) && matches!(&x[1], R::Bulk(nm) if names.contains(nm)) && x[2] == R::Int(want_count),
                                _ => false,
                            })));
                        }
                        v
                    }
                }
            }
            _ => {
                if self.conns[c].in_multi {
                    self.conns[c].queue.push(args.to_vec());
                    vec![Exp::Is(R::Simple(b"QUEUED".to_vec()))]
                } else {
                    vec![self.exec_now(c, args, &first, &mut pushes)]
                }
            }
        };
        Outcome { own, pushes }
    }
}
