//! Port of Redis's `stringmatchlen` (bytewise, case-sensitive) — the reference for KEYS / SCAN MATCH /
//! PSUBSCRIBE patterns.

pub fn glob_match(pattern: &[u8], string: &[u8]) -> bool {
    let mut p = 0usize;
    let mut s = 0usize;
    let pl = pattern.len();
    let sl = string.len();
    while p < pl && s < sl {
        match pattern[p] {
            b'*' => {
                while p + 1 < pl && pattern[p + 1] == b'*' {
                    p += 1;
                }
                if pl - p == 1 {
                    return true;
                }
                let mut ss = s;
                while ss < sl {
                    if glob_match(&pattern[p + 1..], &string[ss..]) {
                        return true;
                    }
                    ss += 1;
                }
                return false;
            }
            b'?' => {
                s += 1;
            }
            b'[' => {
                p += 1;
                let not = p < pl && pattern[p] == b'^';
                if not {
                    p += 1;
                }
                let mut matched = false;
                loop {
                    let rem = pl - p.min(pl);
                    if rem >= 2 && pattern[p] == b'\\' {
                        p += 1;
                        if pattern[p] == string[s] {
                            matched = true;
                        }
                    } else if rem == 0 {
                        p -= 1;
                        break;
                    } else if pattern[p] == b']' {
                        break;
                    } else if rem >= 3 && pattern[p + 1] == b'-' {
                        let mut start = pattern[p];
                        let mut end = pattern[p + 2];
                        let c = string[s];
                        if start > end {
                            std::mem::swap(&mut start, &mut end);
                        }
                        p += 2;
                        if c >= start && c <= end {
                            matched = true;
                        }
                    } else if pattern[p] == string[s] {
                        matched = true;
                    }
                    p += 1;
                }
                if not {
                    matched = !matched;
                }
                if !matched {
                    return false;
                }
                s += 1;
            }
            b'\\' => {
                if pl - p >= 2 {
                    p += 1;
                }
                if pattern[p] != string[s] {
                    return false;
                }
                s += 1;
            }
            c => {
                if c != string[s] {
                    return false;
                }
                s += 1;
            }
        }
        p += 1;
        if s >= sl {
            while p < pl && pattern[p] == b'*' {
                p += 1;
            }
            break;
        }
    }
    p >= pl && s >= sl
}

/// Patterns whose meaning is don't-care: unterminated class, trailing backslash, a range ending in ']',
/// bytes >= 0x80 inside a class (C `char` signedness), empty class.
pub fn glob_is_dc(pattern: &[u8]) -> bool {
    let mut i = 0;
    let n = pattern.len();
    while i < n {
        match pattern[i] {
            b'\\' => {
                if i + 1 >= n {
                    return true;
                }
                i += 2;
            }
            b'[' => {
                i += 1;
                if i < n && pattern[i] == b'^' {
                    i += 1;
                }
                let start = i;
                let mut closed = false;
                while i < n {
                    if pattern[i] == b'\\' {
                        if i + 1 >= n {
                            return true;
                        }
                        i += 2;
                        continue;
                    }
                    if pattern[i] == b']' {
                        closed = true;
                        break;
                    }
                    if pattern[i] >= 0x80 {
                        return true;
                    }
                    if i + 2 < n && pattern[i + 1] == b'-' {
                        if pattern[i + 2] == b']' || pattern[i + 2] == b'\\' || pattern[i + 2] >= 0x80 {
                            return true;
                        }
                        i += 3;
                        continue;
                    }
                    if pattern[i] == b'-' {
                        // a '-' in first/last position: literal in Redis, but keep it out
                        return true;
                    }
                    i += 1;
                }
                if !closed || i == start {
                    return true;
                }
                i += 1;
            }
            _ => i += 1,
        }
    }
    false
}

#[cfg(test)]
mod tests {
    use super::*;
    #[test]
    fn basics() {
        assert!(glob_match(b"a*", b"abc"));
        assert!(glob_match(b"[a-c]", b"b"));
        assert!(!glob_match(b"[^a-c]", b"b"));
        assert!(glob_match(b"h?llo", b"hello"));
        assert!(glob_match(b"\\*", b"*"));
        assert!(!glob_match(b"a", b""));
        assert!(glob_match(b"a**", b"a"));
    }
}

/// Patterns built from whole glob tokens (a character-by-character enumeration needs five symbols for the smallest
/// range class, beyond the quick bound: a seeded half-open range `[a-c)` went unnoticed): every sequence of 1..=max
/// tokens; the texts are all strings of length 1..=3 over {a, b, c, -, ]} (the empty text is left out: the reference
/// implementation's loop does not run for it and answers `false` even for `*`, a quirk the property does not ask for).
pub fn token_patterns(max_tokens: usize) -> Vec<Vec<u8>> {
    let tokens: [&[u8]; 20] = [b"a", b"b", b"c", b"*", b"?", b"[ab]", b"[a-c]", b"[^a-c]", b"[a-a]", b"[c-a]", b"[b-c]", b"[^b]", b"\\a", b"\\*", b"[a-]", b"[-c]", b"[]a]", b"-", b"]", b"[a-bc]"];
    let mut out: Vec<Vec<u8>> = Vec::new();
    let mut level: Vec<Vec<u8>> = vec![vec![]];
    for _ in 0..max_tokens {
        let mut next = Vec::new();
        for p in level.iter() {
            for t in tokens.iter() {
                let mut q = p.clone();
                q.extend_from_slice(t);
                next.push(q);
            }
        }
        out.extend(next.iter().cloned());
        level = next;
    }
    out
}

pub fn token_texts() -> Vec<Vec<u8>> {
    let alpha: &[u8] = b"abc-]";
    let mut out: Vec<Vec<u8>> = Vec::new();
    let mut level: Vec<Vec<u8>> = vec![vec![]];
    for _ in 0..3 {
        let mut next = Vec::new();
        for p in level.iter() {
            for c in alpha.iter() {
                let mut q = p.clone();
                q.push(*c);
                next.push(q);
            }
        }
        out.extend(next.iter().cloned());
        level = next;
    }
    out
}
