//! vcheck-bin: model-checking harness for iGentAI/ferrous. See /verif/DESIGN.md.
//!
//! The libc symbol overrides below MUST live in the binary crate: a definition in the executable wins
//! over libc's at link time, so Rust std's Instant/SystemTime/thread::sleep inside ferrous use them.

#![allow(clippy::all)]
#![allow(dead_code)]

mod gate;
mod model;
mod pool;
mod props;
mod report;
mod resp;
mod srv;
mod vtime;
mod explore;

use std::alloc::{GlobalAlloc, Layout, System};
use std::sync::atomic::{AtomicUsize, Ordering};

// ------------------------------------------------------------------ libc overrides (virtual time)

#[no_mangle]
pub unsafe extern "C" fn clock_gettime(clk: libc::clockid_t, ts: *mut libc::timespec) -> libc::c_int {
    vtime::virt_clock_gettime(clk, ts)
}

#[no_mangle]
pub unsafe extern "C" fn clock_nanosleep(clk: libc::clockid_t, flags: libc::c_int, req: *const libc::timespec, rem: *mut libc::timespec) -> libc::c_int {
    if !vtime::VIRTUAL.load(Ordering::Relaxed) {
        return libc::syscall(libc::SYS_clock_nanosleep, clk as libc::c_long, flags as libc::c_long, req, rem) as libc::c_int;
    }
    let ns = ((*req).tv_sec as u64).saturating_mul(1_000_000_000).saturating_add((*req).tv_nsec as u64);
    if flags & libc::TIMER_ABSTIME != 0 {
        vtime::virt_nanosleep_abs(clk, ns);
    } else {
        vtime::virt_nanosleep_rel(ns);
    }
    0
}

#[no_mangle]
pub unsafe extern "C" fn nanosleep(req: *const libc::timespec, rem: *mut libc::timespec) -> libc::c_int {
    if !vtime::VIRTUAL.load(Ordering::Relaxed) {
        return libc::syscall(libc::SYS_nanosleep, req, rem) as libc::c_int;
    }
    let ns = ((*req).tv_sec as u64).saturating_mul(1_000_000_000).saturating_add((*req).tv_nsec as u64);
    vtime::virt_nanosleep_rel(ns);
    0
}

// ------------------------------------------------------------------ counting allocator

/// the tier of this process (parent and workers alike), for code that has no tier parameter
pub static THOROUGH: std::sync::atomic::AtomicBool = std::sync::atomic::AtomicBool::new(false);
pub static MAX_REQ: AtomicUsize = AtomicUsize::new(0);
pub static LIVE: AtomicUsize = AtomicUsize::new(0);
pub static PEAK: AtomicUsize = AtomicUsize::new(0);

struct Counting;

unsafe impl GlobalAlloc for Counting {
    unsafe fn alloc(&self, l: Layout) -> *mut u8 {
        MAX_REQ.fetch_max(l.size(), Ordering::Relaxed);
        let p = System.alloc(l);
        if !p.is_null() {
            let live = LIVE.fetch_add(l.size(), Ordering::Relaxed) + l.size();
            PEAK.fetch_max(live, Ordering::Relaxed);
        }
        p
    }
    unsafe fn dealloc(&self, p: *mut u8, l: Layout) {
        LIVE.fetch_sub(l.size(), Ordering::Relaxed);
        System.dealloc(p, l)
    }
    unsafe fn alloc_zeroed(&self, l: Layout) -> *mut u8 {
        MAX_REQ.fetch_max(l.size(), Ordering::Relaxed);
        let p = System.alloc_zeroed(l);
        if !p.is_null() {
            let live = LIVE.fetch_add(l.size(), Ordering::Relaxed) + l.size();
            PEAK.fetch_max(live, Ordering::Relaxed);
        }
        p
    }
    unsafe fn realloc(&self, p: *mut u8, l: Layout, new: usize) -> *mut u8 {
        MAX_REQ.fetch_max(new, Ordering::Relaxed);
        let q = System.realloc(p, l, new);
        if !q.is_null() {
            if new >= l.size() {
                let live = LIVE.fetch_add(new - l.size(), Ordering::Relaxed) + (new - l.size());
                PEAK.fetch_max(live, Ordering::Relaxed);
            } else {
                LIVE.fetch_sub(l.size() - new, Ordering::Relaxed);
            }
        }
        q
    }
}

#[global_allocator]
static ALLOC: Counting = Counting;

// ------------------------------------------------------------------ watchdog

pub static WATCHDOG_LIMIT_MS: AtomicUsize = AtomicUsize::new(60_000);

fn start_watchdog() {
    std::thread::Builder::new()
        .name("watchdog".into())
        .spawn(|| {
            vtime::mark_free_running();
            loop {
                vtime::real_sleep_us(50_000);
                let ws = gate::WAIT_START.load(Ordering::SeqCst);
                if ws != 0 {
                    let waited_ms = (vtime::real_now_ns().saturating_sub(ws)) / 1_000_000;
                    if waited_ms as usize > WATCHDOG_LIMIT_MS.load(Ordering::SeqCst) {
                        // the event loop did not come back: a hang. The parent attributes it to the announced case.
                        unsafe { libc::_exit(86) };
                    }
                }
            }
        })
        .expect("watchdog");
}

// ------------------------------------------------------------------ CLI

fn usage() -> ! {
    eprintln!("usage: vcheck-bin <C01..C20|all> [--tier quick|thorough] | replay <path> | --worker <prop> --tier <t> --slot <n>");
    std::process::exit(2);
}

fn main() {
    let args: Vec<String> = std::env::args().skip(1).collect();
    if args.is_empty() {
        usage();
    }
    let mut tier = std::env::var("VERIF_TIER").unwrap_or_else(|_| "quick".to_string());
    let mut i = 0;
    let mut positional: Vec<String> = Vec::new();
    let mut worker: Option<String> = None;
    let mut slot = 0usize;
    while i < args.len() {
        match args[i].as_str() {
            "--tier" => {
                i += 1;
                tier = args.get(i).cloned().unwrap_or_else(|| usage());
            }
            "--worker" => {
                i += 1;
                worker = Some(args.get(i).cloned().unwrap_or_else(|| usage()));
            }
            "--slot" => {
                i += 1;
                slot = args.get(i).and_then(|s| s.parse().ok()).unwrap_or(0);
            }
            other => positional.push(other.to_string()),
        }
        i += 1;
    }
    THOROUGH.store(tier == "thorough", Ordering::SeqCst);
    if tier != "quick" && tier != "thorough" {
        usage();
    }
    if let Some(prop) = worker {
        // ---- worker mode
        if let Ok(v) = std::env::var("VERIF_RLIMIT_AS") {
            if let Ok(n) = v.parse::<u64>() {
                if n > 0 {
                    let lim = libc::rlimit { rlim_cur: n, rlim_max: n };
                    unsafe { libc::setrlimit(libc::RLIMIT_AS, &lim) };
                }
            }
        }
        // no core dumps
        let lim = libc::rlimit { rlim_cur: 0, rlim_max: 0 };
        unsafe { libc::setrlimit(libc::RLIMIT_CORE, &lim) };
        vtime::mark_free_running();
        gate::install();
        start_watchdog();
        props::worker_main(&prop, &tier, slot);
        srv::cleanup_run_root();
        return;
    }
    if positional.is_empty() {
        usage();
    }
    if positional[0] == "replay" {
        let path = positional.get(1).cloned().unwrap_or_else(|| usage());
        std::process::exit(props::replay_main(&path));
    }
    let code = props::parent_main(&positional[0], &tier);
    std::process::exit(code);
}
