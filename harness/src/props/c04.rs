//! C04 — sorted sets stay totally ordered and consistent under every update.
//! (a) explicit-state search to closure over the reachable states of the real SkipList with forced tower
//! heights; (b) E1 over the sorted-set commands with model, cross-checks and the structural invariant hook.

use super::e1common::{self, DataProp, SpecRun};
use crate::explore::dataworld::{b, cmd, Act, DataSpec, DataWorld};
use crate::explore::e1::World;
use crate::gate;
use crate::model::{Bytes, Model, Val};
use crate::pool::{Outcome, Pool, WorkerIo};
use crate::report::{Deviation, RunReport};
use crate::resp::R;
use crate::srv::Srv;
use ferrous::storage::skiplist::SkipList;
use serde_json::{json, Value};
use std::collections::{BTreeMap, HashMap, VecDeque};

fn sv(v: &[&str]) -> Vec<Bytes> {
    v.iter().map(|x| b(x)).collect()
}

// ------------------------------------------------------------------ (a) structure search

#[derive(Clone, Copy, Debug)]
enum Op {
    Insert(usize, usize, u64), // member idx, score idx, forced level
    Remove(usize),
}

const SCORES: [f64; 7] = [f64::NEG_INFINITY, -1.0, -0.0, 0.0, 1.0, 1.0000000000000002, f64::INFINITY];

fn build(members: &[&[u8]], hist: &[Op]) -> SkipList<Vec<u8>, f64> {
    let sl: SkipList<Vec<u8>, f64> = SkipList::new();
    for op in hist {
        match op {
            Op::Insert(m, s, l) => {
                gate::set_forced_levels(vec![*l], Some(0));
                sl.insert(members[*m].to_vec(), SCORES[*s]);
            }
            Op::Remove(m) => {
                sl.remove(&members[*m].to_vec());
            }
        }
    }
    sl
}

fn describe_op(members: &[&[u8]], op: &Op) -> String {
    match op {
        Op::Insert(m, s, l) => format!("insert({}, {:?}) height {}", String::from_utf8_lossy(members[*m]), SCORES[*s], l),
        Op::Remove(m) => format!("remove({})", String::from_utf8_lossy(members[*m])),
    }
}

/// compare every query of the structure with a map+sort model; returns violations (class, detail)
fn check_state(sl: &SkipList<Vec<u8>, f64>, model: &BTreeMap<Vec<u8>, f64>, members: &[&[u8]]) -> (Vec<(String, String)>, u64) {
    let mut v = Vec::new();
    let mut evals = 0u64;
    if let Err(e) = sl.verif_check_invariants() {
        let class: String = e.split(|c: char| c.is_ascii_digit() || c == '[').next().unwrap_or("").trim().to_string();
        v.push((format!("invariant: {}", class), e));
    }
    let mut sorted: Vec<(Vec<u8>, f64)> = model.iter().map(|(m, s)| (m.clone(), *s)).collect();
    sorted.sort_by(|a, b| a.1.partial_cmp(&b.1).unwrap().then_with(|| a.0.cmp(&b.0)));
    let n = sorted.len();
    let same = |a: &[(Vec<u8>, f64)], b: &[(Vec<u8>, f64)]| a.len() == b.len() && a.iter().zip(b.iter()).all(|(x, y)| x.0 == y.0 && x.1 == y.1);
    evals += 1;
    if sl.len() != n {
        v.push(("len".into(), format!("len() = {} but {} members", sl.len(), n)));
    }
    evals += 1;
    if !same(&sl.get_all_items(), &sorted) {
        v.push(("get_all_items".into(), format!("get_all_items = {:?}, expected {:?}", sl.get_all_items(), sorted)));
    }
    for m in members.iter().chain([b"nope".as_slice()].iter()) {
        evals += 2;
        let want = model.get(*m).cloned();
        let got = sl.get_score(&m.to_vec());
        if got != want && !(got.is_some() && want.is_some() && got.unwrap() == want.unwrap()) {
            v.push(("get_score".into(), format!("get_score({:?}) = {:?}, expected {:?}", m, got, want)));
        }
        let wr = sorted.iter().position(|x| x.0 == **m);
        let gr = sl.get_rank(&m.to_vec());
        if gr != wr {
            v.push(("get_rank".into(), format!("get_rank({:?}) = {:?}, expected {:?}", m, gr, wr)));
        }
    }
    for r in 0..=n + 1 {
        evals += 1;
        let want = sorted.get(r).cloned();
        let got = sl.get_by_rank(r);
        let ok = match (&got, &want) {
            (None, None) => true,
            (Some(a), Some(b)) => a.0 == b.0 && a.1 == b.1,
            _ => false,
        };
        if !ok {
            v.push(("get_by_rank".into(), format!("get_by_rank({}) = {:?}, expected {:?}", r, got, want)));
        }
        for e in 0..=n + 1 {
            evals += 1;
            let want: Vec<(Vec<u8>, f64)> = if r < n && r <= e { sorted[r..=e.min(n - 1)].to_vec() } else { vec![] };
            let got = sl.range_by_rank(r, e).items;
            if !same(&got, &want) {
                v.push(("range_by_rank".into(), format!("range_by_rank({}, {}) = {:?}, expected {:?}", r, e, got, want)));
            }
        }
    }
    for lo in SCORES.iter() {
        for hi in SCORES.iter() {
            evals += 1;
            let want: Vec<(Vec<u8>, f64)> = sorted.iter().filter(|x| x.1 >= *lo && x.1 <= *hi).cloned().collect();
            let got = sl.range_by_score(*lo, *hi).items;
            if !same(&got, &want) {
                v.push(("range_by_score".into(), format!("range_by_score({:?}, {:?}) = {:?}, expected {:?}", lo, hi, got, want)));
            }
        }
    }
    (v, evals)
}

fn structure_search(nmembers: usize, nlevels: u64, max_states: usize) -> Value {
    let all: [&[u8]; 4] = [b"a", b"b", b"c", b"d"];
    let members: Vec<&[u8]> = all[..nmembers].to_vec();
    let mut ops: Vec<Op> = Vec::new();
    for m in 0..nmembers {
        for s in 0..SCORES.len() {
            for l in 0..nlevels {
                ops.push(Op::Insert(m, s, l));
            }
        }
        ops.push(Op::Remove(m));
    }
    let mut seen: HashMap<String, ()> = HashMap::new();
    let mut queue: VecDeque<Vec<Op>> = VecDeque::new();
    let mut devs: Vec<Value> = Vec::new();
    let mut transitions = 0u64;
    let mut evals = 0u64;
    let mut max_depth = 0usize;
    let mut capped = false;
    let mut samples: Vec<Value> = Vec::new();
    let empty: SkipList<Vec<u8>, f64> = SkipList::new();
    seen.insert(empty.verif_shape(), ());
    queue.push_back(vec![]);
    let model_of = |h: &[Op]| -> BTreeMap<Vec<u8>, f64> {
        let mut m = BTreeMap::new();
        for op in h {
            match op {
                Op::Insert(i, s, _) => {
                    m.insert(members[*i].to_vec(), SCORES[*s]);
                }
                Op::Remove(i) => {
                    m.remove(&members[*i].to_vec());
                }
            }
        }
        m
    };
    while let Some(h) = queue.pop_front() {
        max_depth = max_depth.max(h.len());
        for op in ops.iter() {
            let mut h2 = h.clone();
            h2.push(*op);
            let sl = build(&members, &h2);
            transitions += 1;
            let shape = sl.verif_shape();
            if seen.contains_key(&shape) {
                continue;
            }
            seen.insert(shape.clone(), ());
            let model = model_of(&h2);
            let (viol, e) = check_state(&sl, &model, &members);
            evals += e;
            if samples.len() < 4 && h2.len() >= 3 {
                samples.push(json!({"history": h2.iter().map(|o| describe_op(&members, o)).collect::<Vec<_>>(), "shape": shape}));
            }
            if !viol.is_empty() {
                for (class, detail) in viol {
                    if devs.len() < 500 {
                        devs.push(json!({"class": class, "detail": detail, "history": h2.iter().map(|o| describe_op(&members, o)).collect::<Vec<_>>(), "shape": shape}));
                    }
                }
                continue; // do not expand a broken structure
            }
            if seen.len() >= max_states {
                capped = true;
                continue;
            }
            queue.push_back(h2);
        }
    }
    gate::set_forced_levels(vec![], None);
    json!({"states": seen.len(), "transitions": transitions, "query_evaluations": evals, "max_depth": max_depth, "capped": capped, "closure_reached": !capped,
           "members": nmembers, "scores": SCORES.len(), "forced_heights": nlevels, "devs": devs, "samples": samples})
}

// ------------------------------------------------------------------ (b) commands

fn acts() -> Vec<Act> {
    let mut a = Vec::new();
    for c in [
        vec!["ZADD", "z", "1", "a"], vec!["ZADD", "z", "2", "b"], vec!["ZADD", "z", "1", "b"], vec!["ZADD", "z", "3", "a"], vec!["ZADD", "z", "2", "a"],
        vec!["ZADD", "z", "1", "a", "2", "b", "3", "c"], vec!["ZADD", "z", "-inf", "a"], vec!["ZADD", "z", "inf", "c"], vec!["ZADD", "z", "-0", "b"], vec!["ZADD", "z", "0", "c"],
        vec!["ZADD", "z", "nan", "a"], vec!["ZADD", "z", "NaN", "c"], vec!["ZADD", "z", "abc", "a"], vec!["ZADD", "z", "1", "a", "nan", "b"], vec!["ZADD", "z", "5", "c", "x", "b"],
        vec!["ZADD", "z", "1", "a", "x"], vec!["ZADD", "z", "1.5", "c"], vec!["ZADD", "z", "1", "c", "2", "c"], vec!["ZADD", "z"],
        vec!["ZINCRBY", "z", "1", "a"], vec!["ZINCRBY", "z", "-2.5", "b"], vec!["ZINCRBY", "z", "inf", "a"], vec!["ZINCRBY", "z", "-inf", "a"], vec!["ZINCRBY", "z", "nan", "a"],
        vec!["ZINCRBY", "z", "x", "a"], vec!["ZINCRBY", "z", "1", "new"], vec!["ZINCRBY", "z", "0", "zero"], vec!["ZINCRBY", "z", "1"],
        vec!["ZREM", "z", "a"], vec!["ZREM", "z", "a", "b"], vec!["ZREM", "z", "a", "b", "c", "new"], vec!["ZREM", "z", "nope"], vec!["ZREM", "z", "nope", "a", "b"], vec!["ZREM", "z"],
        vec!["ZPOPMIN", "z"], vec!["ZPOPMAX", "z"], vec!["ZPOPMIN", "z", "0"], vec!["ZPOPMIN", "z", "2"], vec!["ZPOPMAX", "z", "9"], vec!["ZPOPMIN", "z", "-1"], vec!["ZPOPMAX", "z", "x"],
        vec!["SET", "z", "str"], vec!["DEL", "z"], vec!["LPUSH", "w", "a"],
        // re-scoring one member between 0 and -0, and scores closer together than f64::EPSILON
        // (a seeded "score unchanged" shortcut with an absolute tolerance went unnoticed without these)
        vec!["ZADD", "z", "0", "b"], vec!["ZADD", "z", "-0", "c"], vec!["ZADD", "z", "0.5", "a"], vec!["ZADD", "z", "0.49999999999999994", "b"], vec!["ZADD", "z", "0.4999999999999999", "a"],
        vec!["ZADD", "z", "5e-324", "c"],
    ] {
        a.push(cmd(&c));
    }
    a
}

fn probes(m: &Model) -> Vec<Vec<Bytes>> {
    let mut p = Vec::new();
    let len = match m.dbs[0].keys.get(b"z".as_slice()) {
        Some(e) => match &e.val {
            Val::ZSet(z) => z.len() as i64,
            _ => 0,
        },
        None => 0,
    };
    let mut idx: Vec<i64> = vec![0, 1, -1, -2, len - 1, len, -len, -len - 1, 100, -100];
    idx.sort();
    idx.dedup();
    for x in idx.iter() {
        for y in idx.iter() {
            p.push(vec![b("ZRANGE"), b("z"), x.to_string().into_bytes(), y.to_string().into_bytes()]);
            p.push(vec![b("ZREVRANGE"), b("z"), x.to_string().into_bytes(), y.to_string().into_bytes()]);
        }
    }
    p.push(sv(&["ZRANGE", "z", "0", "-1", "WITHSCORES"]));
    p.push(sv(&["ZREVRANGE", "z", "0", "-1", "withscores"]));
    p.push(sv(&["ZRANGE", "z", "1", "-2", "WITHSCORES"]));
    p.push(sv(&["ZRANGE", "z", "0", "-1", "JUNK"]));
    p.push(sv(&["ZRANGE", "z", "x", "1"]));
    let bounds = ["-inf", "-1", "0", "1", "2", "+inf", "1.5"];
    for lo in bounds.iter() {
        for hi in bounds.iter() {
            p.push(sv(&["ZRANGEBYSCORE", "z", lo, hi]));
            p.push(sv(&["ZREVRANGEBYSCORE", "z", hi, lo]));
            p.push(sv(&["ZCOUNT", "z", lo, hi]));
        }
    }
    p.push(sv(&["ZRANGEBYSCORE", "z", "-inf", "+inf", "WITHSCORES"]));
    p.push(sv(&["ZREVRANGEBYSCORE", "z", "+inf", "-inf", "WITHSCORES"]));
    p.push(sv(&["ZRANGEBYSCORE", "z", "abc", "1"]));
    p.push(sv(&["ZCOUNT", "z", "1", "nan"]));
    for mem in ["a", "b", "c", "new", "nope"] {
        p.push(sv(&["ZRANK", "z", mem]));
        p.push(sv(&["ZREVRANK", "z", mem]));
        p.push(sv(&["ZSCORE", "z", mem]));
    }
    for k in ["z", "w", "nokey"] {
        p.push(sv(&["ZCARD", k]));
        p.push(sv(&["TYPE", k]));
        p.push(sv(&["EXISTS", k]));
    }
    for k in ["w", "nokey"] {
        p.push(sv(&["ZRANGE", k, "0", "-1"]));
        p.push(sv(&["ZRANGEBYSCORE", k, "-inf", "+inf"]));
        p.push(sv(&["ZSCORE", k, "a"]));
        p.push(sv(&["ZRANK", k, "a"]));
        p.push(sv(&["ZCOUNT", k, "0", "1"]));
    }
    p
}

fn arr_of(r: &R) -> Option<Vec<Bytes>> {
    match r {
        R::Arr(v) => Some(v.iter().filter_map(|x| if let R::Bulk(b) = x { Some(b.clone()) } else { None }).collect()),
        R::NilArr => Some(vec![]),
        _ => None,
    }
}

/// model-free cross-checks between replies at one state
fn cross(rs: &[(Vec<Bytes>, R)]) -> Vec<String> {
    let mut v = Vec::new();
    let find = |args: &[&str]| -> Option<&R> {
        let want = sv(args);
        rs.iter().find(|(a, _)| *a == want).map(|(_, r)| r)
    };
    let full = find(&["ZRANGE", "z", "0", "100"]).and_then(arr_of);
    let full = match full {
        Some(f) => f,
        None => return v,
    };
    if let Some(rev) = find(&["ZREVRANGE", "z", "0", "100"]).and_then(arr_of) {
        let mut r2 = rev.clone();
        r2.reverse();
        if r2 != full {
            v.push("ZREVRANGE is not the reverse of ZRANGE".into());
        }
    }
    if let Some(R::Int(c)) = find(&["ZCARD", "z"]) {
        if *c as usize != full.len() {
            v.push("ZCARD differs from the length of ZRANGE 0 100".into());
        }
    }
    if let Some(R::Int(c)) = find(&["ZCOUNT", "z", "-inf", "+inf"]) {
        if *c as usize != full.len() {
            v.push("ZCOUNT -inf +inf differs from the length of ZRANGE".into());
        }
    }
    if let Some(bs) = find(&["ZRANGEBYSCORE", "z", "-inf", "+inf"]).and_then(arr_of) {
        if bs != full {
            v.push("ZRANGEBYSCORE -inf +inf differs from ZRANGE".into());
        }
    }
    for mem in ["a", "b", "c", "new", "nope"] {
        let pos = full.iter().position(|x| x.as_slice() == mem.as_bytes());
        match find(&["ZRANK", "z", mem]) {
            Some(R::Int(i)) => {
                if pos != Some(*i as usize) {
                    v.push("ZRANK disagrees with the member's position in ZRANGE".into());
                }
            }
            Some(R::Nil) => {
                if pos.is_some() {
                    v.push("ZRANK nil for a member listed by ZRANGE".into());
                }
            }
            _ => {}
        }
        match find(&["ZREVRANK", "z", mem]) {
            Some(R::Int(i)) => {
                if pos.map(|p| full.len() - 1 - p) != Some(*i as usize) {
                    v.push("ZREVRANK disagrees with the member's position in ZRANGE".into());
                }
            }
            _ => {}
        }
    }
    v.sort();
    v.dedup();
    v
}

fn invariants(srv: &Srv, _m: &Model) -> Vec<String> {
    let mut v = Vec::new();
    if let Ok(ferrous::storage::engine::GetResult::Found(ferrous::storage::value::Value::SortedSet(z))) = srv.h.storage.get(0, b"z") {
        if let Err(e) = z.verif_check_invariants() {
            let class: String = e.split(|c: char| c.is_ascii_digit() || c == '[').next().unwrap_or("").trim().to_string();
            v.push(format!("skiplist {}", class));
        }
    }
    v
}

fn rearm_levels() {
    // deterministic, varied tower heights for the command-level search (the shapes themselves are
    // enumerated by the structure search)
    gate::set_forced_levels(vec![0, 1, 0, 2, 1, 0, 3, 0, 1, 2, 0, 0, 1, 4, 0, 2], Some(0));
}

pub fn make_world(spec: &str) -> Option<Box<dyn World>> {
    if spec != "c04-cmds" {
        return None;
    }
    Some(Box::new(DataWorld::new(DataSpec {
        prop: "C04".into(), acts: acts(), probes: Box::new(probes), uses_time: false, isolated_probes: false,
        invariants: Some(Box::new(invariants)), cross: Some(Box::new(cross)), db: 0, destructive_probes: None, on_reset: Some(rearm_levels),
    })))
}

fn extra_worker(_tier: &str, task: &Value, _io: &mut WorkerIo) -> Option<Value> {
    if let Some(v) = super::bytesfam::worker(task, _io) {
        return Some(v);
    }
    if let Some(s) = task.get("structure") {
        return Some(structure_search(s["members"].as_u64().unwrap_or(3) as usize, s["levels"].as_u64().unwrap_or(3), s["max_states"].as_u64().unwrap_or(200_000) as usize));
    }
    if let Some(r) = task.get("replay") {
        if r["kind"].as_str() == Some("skiplist") {
            return Some(json!({"note": "structure violations are replayed by re-running the deterministic structure search", "case": r["case"]}));
        }
    }
    None
}

fn extra_parent(pool: &Pool, tier: &str, report: &mut RunReport) -> Value {
    let task = if tier == "thorough" { json!({"structure": {"members": 4, "levels": 3, "max_states": 600000}}) } else { json!({"structure": {"members": 3, "levels": 3, "max_states": 200000}}) };
    let out = pool.map(vec![task], 0);
    match &out[0] {
        Outcome::Done(v) => {
            for d in v["devs"].as_array().cloned().unwrap_or_default() {
                report.deviations.push(Deviation { property: "C04".into(), sig: format!("C04|SKIPLIST|{}", d["class"].as_str().unwrap_or("")), replay: json!({"kind": "skiplist", "case": d}) });
            }
            println!("  c04-structure: states={} transitions={} query_evaluations={} closure={} depth={}", v["states"], v["transitions"], v["query_evaluations"], v["closure_reached"], v["max_depth"]);
            if v["closure_reached"].as_bool() != Some(true) {
                if let Some(o) = report.coverage.as_object_mut() {
                    o.insert("structure_cap".into(), json!("state cap reached before closure"));
                }
            }
            let mut v2 = v.clone();
            if let Some(o) = v2.as_object_mut() {
                o.remove("devs");
            }
            let bytes_cov = super::bytesfam::parent(pool, report, "C04", &["zset"]);
            json!({"skiplist_structure_search": v2, "byte_transparency": bytes_cov["byte_transparency"]})
        }
        Outcome::Died { status, case } => {
            report.machinery_errors.push(format!("structure search worker died: {} {:?}", status, case));
            json!({})
        }
    }
}

fn prop() -> DataProp {
    DataProp {
        id: "C04",
        specs: vec![SpecRun { spec: "c04-cmds", depth_quick: 3, depth_thorough: 4, budget_quick_s: 25.0, budget_thorough_s: 900.0 }],
        make_world,
        assumptions: e1common::std_assumptions(),
    }
}

pub fn parent(tier: &str) -> i32 {
    e1common::data_parent(&prop(), tier, Some(&extra_parent))
}

pub fn handle_factory() -> impl FnMut(&str, &Value, &mut WorkerIo) -> (Value, bool) {
    e1common::data_handle_factory(make_world, Some(extra_worker))
}
