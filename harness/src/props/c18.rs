//! C18 — numbered databases are fully isolated from one another (E1 over a 16-way model, every
//! execution path: direct, MULTI/EXEC incl. a queued SELECT, EVAL, EVALSHA; plus a blocking-pop scenario).

use super::c05::Harness;
use super::e1common::{self, DataProp, SpecRun};
use crate::explore::e1::World;
use crate::explore::multiworld::{mcmd, mpipe, MAct, MultiSpec, MultiWorld};
use crate::model::conn::FORWARD_SCRIPT;
use crate::pool::{Outcome, Pool, WorkerIo};
use crate::report::{Deviation, RunReport};
use crate::resp::{self, R};
use crate::srv::SrvOpts;
use serde_json::{json, Value};

fn acts() -> Vec<MAct> {
    let mut a = Vec::new();
    for s in ["0", "1", "15", "16", "-1", "x", "99999999999999999999"] {
        a.push(mcmd(0, &["SELECT", s]));
    }
    // command names are case-insensitive on every path (a seeded change that recognised a queued SELECT only in
    // upper case went unnoticed while the alphabet spelled it one way)
    a.push(mcmd(0, &["select", "1"]));
    a.push(mcmd(0, &["Select", "15"]));
    a.push(mcmd(0, &["set", "k", "lower"]));
    for c in [
        vec!["SET", "k", "v"], vec!["LPUSH", "k", "a"], vec!["SADD", "k", "m"], vec!["HSET", "k", "f", "v"], vec!["ZADD", "k", "1", "m"], vec!["XADD", "k", "1-1", "f", "v"],
        vec!["DEL", "k"], vec!["RENAME", "k", "j"], vec!["EXPIRE", "k", "100"], vec!["INCR", "n"], vec!["FLUSHDB"], vec!["FLUSHALL"], vec!["MULTI"], vec!["EXEC"],
        vec!["EVAL", FORWARD_SCRIPT, "0", "SET", "k", "ev"], vec!["EVALSHA", "@SHA", "0", "SET", "k", "sha"], vec!["EVAL", FORWARD_SCRIPT, "0", "FLUSHDB"], vec!["EVALSHA", "@SHA", "0", "DEL", "k"],
        vec!["EVAL", FORWARD_SCRIPT, "0", "RENAME", "k", "j"], vec!["EVAL", FORWARD_SCRIPT, "0", "LPUSH", "k", "e"],
        // FLUSHALL has its own implementation on the script path (a seeded change left database 15 out of it there)
        vec!["EVAL", FORWARD_SCRIPT, "0", "FLUSHALL"], vec!["EVALSHA", "@SHA", "0", "FLUSHALL"], vec!["EVALSHA", "@SHA", "0", "FLUSHDB"],
    ] {
        a.push(mcmd(0, &c));
    }
    for c in [vec!["SELECT", "1"], vec!["SET", "k", "w"], vec!["DEL", "k"], vec!["FLUSHDB"], vec!["RPUSH", "k", "z"]] {
        a.push(mcmd(1, &c));
    }
    // the selection changes in the middle of one write: what follows a SELECT in the same read runs in the new database
    // (a seeded change read the selected database once per read instead of once per command)
    a.push(mpipe(0, &[&["SELECT", "1"], &["SET", "k", "p1"]]));
    a.push(mpipe(0, &[&["SELECT", "15"], &["LPUSH", "k", "p15"], &["SELECT", "0"], &["INCR", "n"]]));
    a.push(mpipe(0, &[&["MULTI"], &["SELECT", "1"], &["DEL", "k"], &["EXEC"], &["SET", "k", "after-exec"]]));
    a.push(mpipe(0, &[&["SELECT", "1"], &["EVAL", FORWARD_SCRIPT, "0", "SET", "k", "pe"], &["FLUSHDB"]]));
    a.push(mpipe(0, &[&["SELECT", "16"], &["SET", "k", "refused-select"]]));
    a
}

fn make_world(spec: &str) -> Option<Box<dyn World>> {
    if spec != "c18-db" {
        return None;
    }
    Some(Box::new(MultiWorld::new(MultiSpec { prop: "C18".into(), nconns: 2, acts: acts(), probes: vec![], uses_time: false, dump: true, srv_opts: SrvOpts::default() })))
}

/// read paths: the same key name in three databases, read through every path on a connection that selected one of them
fn read_paths(h: &mut Harness) -> Result<Vec<(String, Value)>, String> {
    let mut devs = Vec::new();
    h.ensure()?;
    h.aux_call(&["FLUSHALL"])?;
    for (db, val) in [("0", "zero"), ("1", "one"), ("15", "fifteen")] {
        h.aux_call(&["SELECT", db])?;
        h.aux_call(&["SET", "k", val])?;
        h.aux_call(&["RPUSH", "l", val])?;
    }
    h.aux_call(&["SELECT", "0"])?;
    let sha = match h.aux_call(&["SCRIPT", "LOAD", FORWARD_SCRIPT])? {
        R::Bulk(b) => b,
        other => return Err(format!("SCRIPT LOAD -> {}", resp::show(&other))),
    };
    let sha_s = String::from_utf8_lossy(&sha).to_string();
    for (db, val, nkeys) in [("0", "zero", 2i64), ("1", "one", 2), ("15", "fifteen", 2), ("3", "", 0)] {
        let srv = h.srv.as_ref().unwrap();
        let mut c = srv.connect().map_err(|e| format!("{:?}", e))?;
        let r = srv.call(&mut c, &["SELECT", db]).map_err(|e| format!("{:?}", e))?;
        if r != R::ok() {
            return Err(format!("SELECT {} -> {}", db, resp::show(&r)));
        }
        let want_get = if val.is_empty() { R::Nil } else { R::Bulk(val.as_bytes().to_vec()) };
        let mut check = |name: &str, got: R, want: &R| {
            // an empty Lua table converted to nil instead of an empty array is C12's subject, not isolation
            let empty_as_nil = matches!(want, R::Arr(v) if v.is_empty()) && got == R::Nil && name.starts_with("EVAL");
            if !crate::model::same(want, &got) && !empty_as_nil {
                devs.push((format!("C18|READ-PATH|{}|db{}", name, if db == "0" { "0" } else { "other" }), json!({"path": name, "db": db, "expected": resp::show(want), "actual": resp::show(&got)})));
            }
        };
        check("direct GET", srv.call(&mut c, &["GET", "k"]).map_err(|e| format!("{:?}", e))?, &want_get);
        check("EVAL GET", srv.call(&mut c, &["EVAL", FORWARD_SCRIPT, "0", "GET", "k"]).map_err(|e| format!("{:?}", e))?, &want_get);
        check("EVALSHA GET", srv.call(&mut c, &["EVALSHA", &sha_s, "0", "GET", "k"]).map_err(|e| format!("{:?}", e))?, &want_get);
        check("EVAL DBSIZE", srv.call(&mut c, &["EVAL", FORWARD_SCRIPT, "0", "DBSIZE"]).map_err(|e| format!("{:?}", e))?, &R::Int(nkeys));
        check("EVALSHA DBSIZE", srv.call(&mut c, &["EVALSHA", &sha_s, "0", "DBSIZE"]).map_err(|e| format!("{:?}", e))?, &R::Int(nkeys));
        check("direct DBSIZE", srv.call(&mut c, &["DBSIZE"]).map_err(|e| format!("{:?}", e))?, &R::Int(nkeys));
        let keys_want = if nkeys == 0 { R::Arr(vec![]) } else { R::Arr(vec![R::Bulk(b"k".to_vec())]) };
        check("EVAL KEYS k*", srv.call(&mut c, &["EVAL", FORWARD_SCRIPT, "0", "KEYS", "k*"]).map_err(|e| format!("{:?}", e))?, &keys_want);
        check("direct KEYS k*", srv.call(&mut c, &["KEYS", "k*"]).map_err(|e| format!("{:?}", e))?, &keys_want);
        check("EVAL EXISTS", srv.call(&mut c, &["EVAL", FORWARD_SCRIPT, "0", "EXISTS", "k"]).map_err(|e| format!("{:?}", e))?, &R::Int(if nkeys > 0 { 1 } else { 0 }));
        check("EVAL LLEN", srv.call(&mut c, &["EVAL", FORWARD_SCRIPT, "0", "LLEN", "l"]).map_err(|e| format!("{:?}", e))?, &R::Int(if nkeys > 0 { 1 } else { 0 }));
        // MULTI path
        let _ = srv.call(&mut c, &["MULTI"]);
        let _ = srv.call(&mut c, &["GET", "k"]);
        let _ = srv.call(&mut c, &["DBSIZE"]);
        check("EXEC [GET, DBSIZE]", srv.call(&mut c, &["EXEC"]).map_err(|e| format!("{:?}", e))?, &R::Arr(vec![want_get.clone(), R::Int(nkeys)]));
        c.discard();
        let _ = srv.steps(2);
    }
    Ok(devs)
}


/// write paths: every one of the 16 databases holds the same key names; one write command is executed through one
/// path on a connection that selected database d; afterwards every database is read back. All databases other than
/// d must be exactly as seeded (FLUSHALL: all 16 empty), d itself must have changed (FLUSH*: be empty).
const WRITE_CMDS: [&[&str]; 9] = [&["SET", "k", "new"], &["DEL", "k"], &["LPUSH", "l", "x"], &["INCR", "n"], &["RENAME", "k", "j"], &["EXPIRE", "k", "100"], &["APPEND", "k", "x"], &["FLUSHDB"], &["FLUSHALL"]];
const WRITE_PATHS: [&str; 6] = ["direct", "MULTI/EXEC", "queued SELECT", "EVAL", "EVALSHA", "EVAL pcall"];
const PCALL_SCRIPT: &str = "return redis.pcall(unpack(ARGV))";

fn db_snapshot(h: &mut Harness, db: usize) -> Result<String, String> {
    h.aux_call(&["SELECT", &db.to_string()])?;
    let mut out = String::new();
    for c in [vec!["DBSIZE"], vec!["GET", "k"], vec!["LRANGE", "l", "0", "-1"], vec!["GET", "n"], vec!["EXISTS", "j"], vec!["TTL", "k"]] {
        out.push_str(&resp::show(&h.aux_call(&c)?));
        out.push('|');
    }
    Ok(out)
}

fn write_paths(h: &mut Harness, part: usize, parts: usize) -> Result<(Vec<(String, Value)>, u64), String> {
    let mut devs = Vec::new();
    let mut cases = 0u64;
    h.ensure()?;
    let sha = match h.aux_call(&["SCRIPT", "LOAD", FORWARD_SCRIPT])? {
        R::Bulk(b) => String::from_utf8_lossy(&b).to_string(),
        other => return Err(format!("SCRIPT LOAD -> {}", resp::show(&other))),
    };
    let mut idx = 0usize;
    for d in 0..16usize {
        for (ci, cmd) in WRITE_CMDS.iter().enumerate() {
            for (pi, path) in WRITE_PATHS.iter().enumerate() {
                idx += 1;
                if idx % parts != part {
                    continue;
                }
                cases += 1;
                h.aux_call(&["FLUSHALL"])?;
                for i in 0..16usize {
                    h.aux_call(&["SELECT", &i.to_string()])?;
                    h.aux_call(&["SET", "k", &format!("v{}", i)])?;
                    h.aux_call(&["RPUSH", "l", &format!("e{}", i)])?;
                    h.aux_call(&["SET", "n", &format!("{}", 100 + i)])?;
                }
                let mut before = Vec::new();
                for i in 0..16usize {
                    before.push(db_snapshot(h, i)?);
                }
                h.aux_call(&["SELECT", "0"])?;
                let srv = h.srv.as_ref().unwrap();
                let mut c = srv.connect().map_err(|e| format!("{:?}", e))?;
                let ds = d.to_string();
                let call = |c: &mut crate::srv::Client, a: &[&str]| srv.call(c, a).map_err(|e| format!("{:?}", e));
                let reply = match pi {
                    0 => {
                        call(&mut c, &["SELECT", &ds])?;
                        call(&mut c, cmd)?
                    }
                    1 => {
                        call(&mut c, &["SELECT", &ds])?;
                        call(&mut c, &["MULTI"])?;
                        call(&mut c, cmd)?;
                        call(&mut c, &["EXEC"])?
                    }
                    2 => {
                        // the connection sits in another database; the SELECT is part of the transaction
                        call(&mut c, &["SELECT", &((d + 7) % 16).to_string()])?;
                        call(&mut c, &["MULTI"])?;
                        call(&mut c, &["SELECT", &ds])?;
                        call(&mut c, cmd)?;
                        call(&mut c, &["EXEC"])?
                    }
                    3 | 5 => {
                        call(&mut c, &["SELECT", &ds])?;
                        let mut a: Vec<&str> = vec!["EVAL", if pi == 3 { FORWARD_SCRIPT } else { PCALL_SCRIPT }, "0"];
                        a.extend_from_slice(cmd);
                        call(&mut c, &a)?
                    }
                    _ => {
                        call(&mut c, &["SELECT", &ds])?;
                        let mut a: Vec<&str> = vec!["EVALSHA", &sha, "0"];
                        a.extend_from_slice(cmd);
                        call(&mut c, &a)?
                    }
                };
                c.discard();
                let _ = h.srv.as_ref().unwrap().steps(2);
                let mut after = Vec::new();
                for i in 0..16usize {
                    after.push(db_snapshot(h, i)?);
                }
                let flushall = cmd[0] == "FLUSHALL";
                let empty = ":0|nil|[]|nil|:0|:-2|";
                let mut problems: Vec<String> = Vec::new();
                for i in 0..16usize {
                    if flushall {
                        if after[i] != empty {
                            problems.push(format!("database {} not emptied by FLUSHALL", if i == d { "selected".to_string() } else if i == 15 { "15".to_string() } else if i == 0 { "0".to_string() } else { "other".to_string() }));
                        }
                    } else if i != d {
                        if after[i] != before[i] {
                            problems.push("another database changed".to_string());
                        }
                    } else if cmd[0] == "FLUSHDB" {
                        if after[i] != empty {
                            problems.push("selected database not emptied by FLUSHDB".to_string());
                        }
                    } else if after[i] == before[i] {
                        problems.push("no effect in the selected database".to_string());
                    }
                }
                problems.sort();
                problems.dedup();
                for pr in problems {
                    devs.push((format!("C18|WRITE-PATH|{}|{}|{}|db={}", path, cmd.join(" "), pr, if d == 0 { "0" } else if d == 15 { "15" } else { "other" }),
                        json!({"path": path, "command": cmd, "selected_db": d, "reply": resp::show(&reply), "before": before, "after": after, "case": [d, ci, pi]})));
                }
            }
        }
    }
    Ok((devs, cases))
}

/// a BLPOP registered in db 1 must be served by a push in db 1 and not by a push to the same key in db 0
fn blocking_scenario(h: &mut Harness) -> Result<Vec<(String, Value)>, String> {
    let mut devs = Vec::new();
    // `lost_race`: before anything else a push and a pop of the key arrive in one write in the client's own database, so
    // its wake-up finds nothing and it goes back into the queue (a seeded requeue put a client without a deadline
    // into database 0's registry)
    for (lost_race, timeout) in [(false, "0"), (true, "0"), (true, "5")] {
    let tag = if lost_race { format!(" (after a lost wake-up race, timeout {})", timeout) } else { String::new() };
    h.ensure()?;
    h.aux_call(&["FLUSHALL"])?;
    h.aux_call(&["SELECT", "0"])?;
    let srv = h.srv.as_ref().unwrap();
    let mut a = srv.connect().map_err(|e| format!("{:?}", e))?;
    let r = srv.call(&mut a, &["SELECT", "1"]).map_err(|e| format!("{:?}", e))?;
    if r != R::ok() {
        return Err("SELECT 1 failed".into());
    }
    a.send(&resp::cmd(&["BLPOP", "k", timeout]));
    let _ = srv.steps(3);
    a.poll();
    if a.take_frame().ok().flatten().is_some() {
        devs.push((format!("C18|BLOCKING|BLPOP on an empty list answered at once{}", tag), json!({})));
    }
    if lost_race {
        h.aux_call(&["SELECT", "1"])?;
        let mut bytes = resp::cmd(&["LPUSH", "k", "gone"]);
        bytes.extend(resp::cmd(&["LPOP", "k"]));
        {
            let srv = h.srv.as_ref().unwrap();
            let aux = h.aux.as_mut().unwrap();
            srv.pipeline(aux, &bytes, 2).map_err(|(_, e)| format!("push+pop in one write: {:?}", e))?;
            let _ = srv.steps(4);
        }
        h.aux_call(&["SELECT", "0"])?;
        a.poll();
        if let Ok(Some(f)) = a.take_frame() {
            devs.push((format!("C18|BLOCKING|answered although the element was popped before its wake-up{}", tag), json!({"received": resp::show(&f)})));
        }
    }
    // push in db 0 through the control connection
    let r = h.aux_call(&["RPUSH", "k", "zero"])?;
    let srv = h.srv.as_ref().unwrap();
    let _ = srv.steps(4);
    a.poll();
    if let Ok(Some(f)) = a.take_frame() {
        devs.push((format!("C18|BLOCKING|served-by-a-push-in-another-database{}", tag), json!({"push": "RPUSH k zero in db 0", "blocked": "BLPOP k 0 in db 1", "received": resp::show(&f), "push_reply": resp::show(&r)})));
    }
    h.aux_call(&["SELECT", "1"])?;
    h.aux_call(&["RPUSH", "k", "one"])?;
    let srv = h.srv.as_ref().unwrap();
    let _ = srv.steps(4);
    a.poll();
    match a.take_frame() {
        Ok(Some(f)) => {
            if f != R::Arr(vec![R::Bulk(b"k".to_vec()), R::Bulk(b"one".to_vec())]) {
                devs.push((format!("C18|BLOCKING|served-with-the-wrong-element{}", tag), json!({"received": resp::show(&f)})));
            }
        }
        _ => devs.push((format!("C18|BLOCKING|not-served-by-a-push-in-its-own-database{}", tag), json!({}))),
    }
    h.aux_call(&["SELECT", "0"])?;
    let l0 = h.aux_call(&["LRANGE", "k", "0", "-1"])?;
    if l0 != R::Arr(vec![R::Bulk(b"zero".to_vec())]) {
        devs.push((format!("C18|BLOCKING|database-0-list-changed{}", tag), json!({"lrange_db0": resp::show(&l0)})));
    }
    a.discard();
    let _ = h.srv.as_ref().unwrap().steps(2);
    }
    // second scenario: a call on two keys in db 1 is served through one of them; the client moves to db 2 and blocks on
    // the other key's name there; a push to that name in db 1 is not for it (a seeded lazy clean-up of the leftover
    // registration looked only at the database of the new call)
    for first_timeout in ["0", "5"] {
        h.aux_call(&["FLUSHALL"])?;
        h.aux_call(&["SELECT", "0"])?;
        let srv = h.srv.as_ref().unwrap();
        let mut a = srv.connect().map_err(|e| format!("{:?}", e))?;
        srv.call(&mut a, &["SELECT", "1"]).map_err(|e| format!("{:?}", e))?;
        a.send(&resp::cmd(&["BLPOP", "qa", "qb", first_timeout]));
        let _ = srv.steps(3);
        h.aux_call(&["SELECT", "1"])?;
        h.aux_call(&["RPUSH", "qa", "first"])?;
        let srv = h.srv.as_ref().unwrap();
        let _ = srv.steps(4);
        a.poll();
        match a.take_frame() {
            Ok(Some(f)) if f == R::Arr(vec![R::Bulk(b"qa".to_vec()), R::Bulk(b"first".to_vec())]) => {}
            other => devs.push(("C18|BLOCKING|two-key call not served through its first key".into(), json!({"received": format!("{:?}", other.map(|o| o.map(|f| resp::show(&f))))}))),
        }
        srv.call(&mut a, &["SELECT", "2"]).map_err(|e| format!("{:?}", e))?;
        a.send(&resp::cmd(&["BLPOP", "qb", "0"]));
        let _ = srv.steps(3);
        // db 1 gets an element under the old name
        h.aux_call(&["RPUSH", "qb", "db1-only"])?;
        let srv = h.srv.as_ref().unwrap();
        let _ = srv.steps(4);
        a.poll();
        if let Ok(Some(f)) = a.take_frame() {
            devs.push(("C18|BLOCKING|client blocked in db 2 served by a push in db 1 through a leftover registration".into(), json!({"first_call_timeout": first_timeout, "received": resp::show(&f)})));
        }
        let l1 = h.aux_call(&["LRANGE", "qb", "0", "-1"])?;
        if l1 != R::Arr(vec![R::Bulk(b"db1-only".to_vec())]) {
            devs.push(("C18|BLOCKING|database-1-list-lost-its-element".into(), json!({"first_call_timeout": first_timeout, "lrange_db1": resp::show(&l1)})));
        }
        // the old call's deadline must not end the new call
        vtime_tick(6_000_000_000)?;
        let srv = h.srv.as_ref().unwrap();
        let _ = srv.steps(3);
        a.poll();
        if let Ok(Some(f)) = a.take_frame() {
            devs.push(("C18|BLOCKING|call in db 2 ended by the deadline of the earlier call in db 1".into(), json!({"first_call_timeout": first_timeout, "received": resp::show(&f)})));
        }
        h.aux_call(&["SELECT", "2"])?;
        h.aux_call(&["RPUSH", "qb", "db2"])?;
        let srv = h.srv.as_ref().unwrap();
        let _ = srv.steps(4);
        a.poll();
        match a.take_frame() {
            Ok(Some(f)) if f == R::Arr(vec![R::Bulk(b"qb".to_vec()), R::Bulk(b"db2".to_vec())]) => {}
            other => devs.push(("C18|BLOCKING|client blocked in db 2 not served by the push in db 2".into(), json!({"first_call_timeout": first_timeout, "received": format!("{:?}", other.map(|o| o.map(|f| resp::show(&f))))}))),
        }
        h.aux_call(&["SELECT", "0"])?;
        a.discard();
        let _ = h.srv.as_ref().unwrap().steps(2);
    }
    Ok(devs)
}

/// The whole dispatch table, one command at a time, on a connection that selected database d while every other database
/// holds something else under the same names. Run A: d is the target. Run B: the mirror image with database 0 as the
/// target. Required: the reply of A equals that of B; in A no database other than d differs from before the command
/// (complete raw dump of each of the 16 databases); and d afterwards looks exactly as 0 does in B. A command that reads
/// or writes a fixed database instead of the selected one deviates in one of the three (a seeded XGROUP CREATE ...
/// MKSTREAM stored the new stream in database 0).
fn table_skip(name: &str) -> bool {
    matches!(name, "SHUTDOWN" | "QUIT" | "SYNC" | "PSYNC" | "MONITOR" | "SUBSCRIBE" | "UNSUBSCRIBE" | "PSUBSCRIBE" | "PUNSUBSCRIBE" | "RANDOMKEY" | "SRANDMEMBER" | "SPOP"
        | "INFO" | "CLIENT" | "SLOWLOG" | "LASTSAVE" | "MEMORY" | "TIME" | "COMMAND" | "DEBUG" | "SAVE" | "BGSAVE" | "BGREWRITEAOF" | "SLEEP" | "BLPOP" | "BRPOP"
        | "AUTH" | "REPLICAOF" | "SLAVEOF" | "REPLCONF" | "FLUSHALL" | "SELECT" | "CONFIG")
}

fn table_cases(thorough: bool) -> Vec<(usize, usize, bool, usize, Vec<String>)> {
    // (target db, key state, elsewhere holds a string under the names, path, command)
    let mut out = Vec::new();
    let states = super::cmdtable::key_states().len();
    for (name, args) in super::cmdtable::all_commands() {
        if table_skip(&name) || super::cmdtable::excluded(&name).is_some() {
            continue;
        }
        let mut c = vec![name.clone()];
        c.extend(args.iter().cloned());
        for d in if thorough { vec![1usize, 15] } else { vec![1usize] } {
            for st in 0..states {
                for elsewhere in [false, true] {
                    for path in 0..2usize {
                        if path == 1 && matches!(name.as_str(), "MULTI" | "EXEC" | "DISCARD" | "WATCH" | "UNWATCH" | "EVAL" | "EVALSHA" | "SCRIPT" | "PUBLISH") {
                            continue;
                        }
                        out.push((d, st, elsewhere, path, c.clone()));
                    }
                }
            }
        }
    }
    out
}

fn table_run(h: &mut Harness, target: usize, st: usize, elsewhere: bool, path: usize, cmdv: &[String]) -> Result<(String, Vec<String>, Vec<String>), String> {
    h.ensure()?;
    h.aux_call(&["FLUSHALL"])?;
    let states = super::cmdtable::key_states();
    // the other databases that hold something: the two ends, the neighbours of the target, and 0
    let mut others: Vec<usize> = vec![0, 1, 2, 14, 15, (target + 1) % 16];
    others.sort();
    others.dedup();
    for o in others {
        if o == target || !elsewhere {
            continue;
        }
        h.aux_call(&["SELECT", &o.to_string()])?;
        h.aux_call(&["SET", "k", &format!("elsewhere{}", if o > target { o - target } else { 16 + o - target })])?;
        h.aux_call(&["SET", "k2", "elsewhere2"])?;
    }
    h.aux_call(&["SELECT", &target.to_string()])?;
    for c in states[st].1.iter() {
        h.aux_call(c)?;
    }
    h.aux_call(&["SELECT", "0"])?;
    let storage = h.srv.as_ref().unwrap().h.storage.clone();
    let before: Vec<String> = (0..16).map(|i| storage.verif_raw_dump(i, 0)).collect();
    let reply = {
        let srv = h.srv.as_ref().unwrap();
        let mut c = srv.connect().map_err(|e| format!("connect: {:?}", e))?;
        let sel = srv.call(&mut c, &["SELECT", &target.to_string()]).map_err(|e| format!("SELECT: {:?}", e))?;
        if sel != R::ok() {
            return Err(format!("SELECT {} -> {}", target, resp::show(&sel)));
        }
        let r = if path == 0 {
            srv.call(&mut c, cmdv)
        } else {
            let mut a: Vec<String> = vec!["EVAL".into(), FORWARD_SCRIPT.into(), "0".into()];
            a.extend(cmdv.iter().cloned());
            srv.call(&mut c, &a)
        };
        let shown = match r {
            Ok(r) => super::c02::shown_reply(&cmdv[0], &r),
            Err(e) => format!("<{:?}>", e),
        };
        c.discard();
        let _ = srv.steps(2);
        shown
    };
    let after: Vec<String> = (0..16).map(|i| storage.verif_raw_dump(i, 0)).collect();
    Ok((reply, before, after))
}

fn table_family(h: &mut Harness, a: usize, b: usize, thorough: bool, io: &mut WorkerIo) -> Value {
    let cases = table_cases(thorough);
    let states = super::cmdtable::key_states();
    let mut devs: Vec<Value> = Vec::new();
    let mut errors: Vec<String> = Vec::new();
    let mut n = 0u64;
    for i in a..b.min(cases.len()) {
        let (d, st, elsewhere, path, cmdv) = &cases[i];
        if i % 32 == 0 {
            io.announce_case(json!({"table": i}));
        }
        let ra = table_run(h, *d, *st, *elsewhere, *path, cmdv);
        let rb = table_run(h, 0, *st, *elsewhere, *path, cmdv);
        match (ra, rb) {
            (Ok((reply_a, before_a, after_a)), Ok((reply_b, _before_b, after_b))) => {
                n += 1;
                let mut problems: Vec<String> = Vec::new();
                let touched: Vec<usize> = (0..16).filter(|j| *j != *d && before_a[*j] != after_a[*j]).collect();
                if !touched.is_empty() {
                    problems.push(format!("changed-database-{}-from-a-connection-in-{}", touched[0], d));
                }
                if reply_a != reply_b {
                    problems.push("reply-differs-from-the-same-command-in-database-0".into());
                }
                if after_a[*d] != after_b[0] {
                    problems.push("selected-database-differs-from-what-database-0-looks-like-after-the-same-command".into());
                }
                for p in problems {
                    devs.push(json!({"sig": format!("C18|TABLE|{}|{}|{}|{}", cmdv[0], ["direct", "EVAL"][*path], states[*st].0, p.split("-from-a").next().unwrap_or(&p)),
                        "detail": {"i": i, "command": cmdv.join(" "), "selected": d, "key_state": states[*st].0, "other_databases_hold_strings_under_the_names": elsewhere, "path": if *path == 0 { "direct" } else { "EVAL forwarding script" },
                            "problem": p, "reply": reply_a, "reply_in_database_0": reply_b, "selected_database_after": after_a[*d], "database_0_after_the_same_command": after_b[0]}}));
                }
            }
            (Err(e), _) | (_, Err(e)) => {
                errors.push(format!("table case {} ({}): {}", i, cmdv.join(" "), e));
                h.srv = None;
                h.aux = None;
            }
        }
    }
    json!({"devs": devs, "errors": errors, "cases": n})
}

fn vtime_tick(ns: u64) -> Result<(), String> {
    crate::vtime::tick(ns).map_err(|_| "settle timeout during tick".to_string())
}

fn extra_worker(tier: &str, task: &Value, io: &mut WorkerIo) -> Option<Value> {
    if task.get("table").is_some() || task.get("replay").map(|r| r["kind"].as_str() == Some("table")).unwrap_or(false) {
        thread_local! { static HT: std::cell::RefCell<Option<Harness>> = const { std::cell::RefCell::new(None) }; }
        return HT.with(|cell| {
            let mut slot = cell.borrow_mut();
            if slot.is_none() {
                *slot = Some(Harness::new(SrvOpts::default()));
            }
            let h = slot.as_mut().unwrap();
            if let Some(r) = task.get("replay") {
                let i = r["detail"]["i"].as_u64().unwrap_or(0) as usize;
                return Some(table_family(h, i, i + 1, r["thorough"].as_bool().unwrap_or(false), io));
            }
            let t = &task["table"];
            Some(table_family(h, t[0].as_u64().unwrap_or(0) as usize, t[1].as_u64().unwrap_or(0) as usize, tier == "thorough", io))
        });
    }
    if let Some(w) = task.get("write_paths") {
        let mut h = Harness::new(SrvOpts::default());
        let (part, parts) = (w["part"].as_u64().unwrap_or(0) as usize, w["parts"].as_u64().unwrap_or(1) as usize);
        return Some(match write_paths(&mut h, part, parts) {
            Ok((devs, cases)) => json!({"devs": devs.iter().map(|(s, d)| json!({"sig": s, "detail": d})).collect::<Vec<_>>(), "errors": [], "cases": cases}),
            Err(e) => json!({"devs": [], "errors": [e], "cases": 0}),
        });
    }
    if task.get("scenarios").is_some() || task.get("replay").map(|r| r["kind"].as_str() == Some("scenario")).unwrap_or(false) {
        let mut h = Harness::new(SrvOpts::default());
        let mut devs = Vec::new();
        let mut errors = Vec::new();
        match read_paths(&mut h) {
            Ok(d) => devs.extend(d),
            Err(e) => errors.push(e),
        }
        match blocking_scenario(&mut h) {
            Ok(d) => devs.extend(d),
            Err(e) => errors.push(e),
        }
        return Some(json!({"devs": devs.iter().map(|(s, d)| json!({"sig": s, "detail": d})).collect::<Vec<_>>(), "errors": errors}));
    }
    None
}

fn extra_parent(pool: &Pool, tier: &str, report: &mut RunReport) -> Value {
    let parts = 16usize;
    let mut tasks = vec![json!({"scenarios": true})];
    for p in 0..parts {
        tasks.push(json!({"write_paths": {"part": p, "parts": parts}}));
    }
    let thorough = tier == "thorough";
    let ntable = table_cases(thorough).len();
    let mut ttasks = Vec::new();
    let chunk = (ntable / 48).max(16);
    let mut a = 0;
    while a < ntable {
        ttasks.push(json!({"table": [a, (a + chunk).min(ntable)]}));
        a += chunk;
    }
    let mut table_n = 0u64;
    for o in pool.map(ttasks, 0) {
        match o {
            Outcome::Done(v) => {
                table_n += v["cases"].as_u64().unwrap_or(0);
                for e in v["errors"].as_array().cloned().unwrap_or_default() {
                    report.machinery_errors.push(format!("{}", e));
                }
                for d in v["devs"].as_array().cloned().unwrap_or_default() {
                    report.deviations.push(Deviation { property: "C18".into(), sig: d["sig"].as_str().unwrap_or("").to_string(), replay: json!({"kind": "table", "thorough": thorough, "detail": d["detail"]}) });
                }
            }
            Outcome::Died { status, case } => report.machinery_errors.push(format!("table worker died: {} {:?}", status, case)),
        }
    }
    println!("  c18-table: pairs of runs={}", table_n);
    let out = pool.map(tasks, 0);
    let mut write_cases = 0u64;
    for o in out.iter().skip(1) {
        match o {
            Outcome::Done(v) => {
                write_cases += v["cases"].as_u64().unwrap_or(0);
                for e in v["errors"].as_array().cloned().unwrap_or_default() {
                    report.machinery_errors.push(format!("{}", e));
                }
                for d in v["devs"].as_array().cloned().unwrap_or_default() {
                    report.deviations.push(Deviation { property: "C18".into(), sig: d["sig"].as_str().unwrap_or("").to_string(), replay: json!({"kind": "scenario", "detail": d["detail"]}) });
                }
            }
            Outcome::Died { status, .. } => report.machinery_errors.push(format!("write-path worker died: {}", status)),
        }
    }
    match &out[0] {
        Outcome::Done(v) => {
            for e in v["errors"].as_array().cloned().unwrap_or_default() {
                report.machinery_errors.push(format!("{}", e));
            }
            for d in v["devs"].as_array().cloned().unwrap_or_default() {
                report.deviations.push(Deviation { property: "C18".into(), sig: d["sig"].as_str().unwrap_or("").to_string(), replay: json!({"kind": "scenario", "detail": d["detail"]}) });
            }
            json!({"read_paths_and_blocking_scenario": {"read_path_probes": 4 * 11, "blocking_scenario_steps": 6 + 2 * 9},
                "whole_table": {"pairs_of_runs": table_n, "what": "every command of the dispatch table (plausible arguments on k / k2; those with random, time- or connection-dependent replies, the blocking pops, FLUSHALL and SELECT left out) x 7 states of the key in the selected database x {the other databases empty, databases 0/1/2/14/15 and the next one hold strings under the same names} x {direct, through the forwarding script} on a connection in database 1 (thorough: 1 and 15), mirrored by the same run with database 0 as the target: equal replies, no other database's raw dump changed, and the selected database afterwards equal to database 0 of the mirror run"},
                "write_paths": {"cases": write_cases, "product": "16 selected databases x 9 write commands x 6 paths (direct, MULTI/EXEC, queued SELECT, EVAL, EVALSHA, EVAL with pcall); all 16 databases seeded and read back"}})
        }
        Outcome::Died { status, .. } => {
            report.machinery_errors.push(format!("scenario worker died: {}", status));
            json!({})
        }
    }
}

fn prop() -> DataProp {
    DataProp {
        id: "C18",
        specs: vec![SpecRun { spec: "c18-db", depth_quick: 3, depth_thorough: 4, budget_quick_s: 30.0, budget_thorough_s: 1500.0 }],
        make_world,
        assumptions: {
            let mut a = e1common::std_assumptions();
            a.push("script paths use one forwarding script (return redis.call(unpack(ARGV))): only its effect and error/non-error are judged here, the reply conversion is C12's subject".into());
            a
        },
    }
}

pub fn parent(tier: &str) -> i32 {
    e1common::data_parent(&prop(), tier, Some(&extra_parent))
}

pub fn handle_factory() -> impl FnMut(&str, &Value, &mut WorkerIo) -> (Value, bool) {
    e1common::data_handle_factory(make_world, Some(extra_worker))
}
