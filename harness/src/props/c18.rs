//! C18 — numbered databases are fully isolated from one another (E1 over a 16-way model, every
//! execution path: direct, MULTI/EXEC incl. a queued SELECT, EVAL, EVALSHA; plus a blocking-pop scenario).

use super::c05::Harness;
use super::e1common::{self, DataProp, SpecRun};
use crate::explore::e1::World;
use crate::explore::multiworld::{mcmd, MAct, MultiSpec, MultiWorld};
use crate::model::conn::FORWARD_SCRIPT;
use crate::pool::{Outcome, Pool, WorkerIo};
use crate::report::{Deviation, RunReport};
use crate::resp::{self, R};
use crate::srv::SrvOpts;
use serde_json::{json, Value};

fn acts() -> Vec<MAct> {
    let mut a = Vec::new();
    for s in ["0", "1", "15", "16", "-1", "x", "99999999999999999999"] {
        a.push(mcmd(0, &["SELECT", s]));
    }
    // command names are case-insensitive on every path (a seeded change that recognised a queued SELECT only in
    // upper case went unnoticed while the alphabet spelled it one way)
    a.push(mcmd(0, &["select", "1"]));
    a.push(mcmd(0, &["Select", "15"]));
    a.push(mcmd(0, &["set", "k", "lower"]));
    for c in [
        vec!["SET", "k", "v"], vec!["LPUSH", "k", "a"], vec!["SADD", "k", "m"], vec!["HSET", "k", "f", "v"], vec!["ZADD", "k", "1", "m"], vec!["XADD", "k", "1-1", "f", "v"],
        vec!["DEL", "k"], vec!["RENAME", "k", "j"], vec!["EXPIRE", "k", "100"], vec!["INCR", "n"], vec!["FLUSHDB"], vec!["FLUSHALL"], vec!["MULTI"], vec!["EXEC"],
        vec!["EVAL", FORWARD_SCRIPT, "0", "SET", "k", "ev"], vec!["EVALSHA", "@SHA", "0", "SET", "k", "sha"], vec!["EVAL", FORWARD_SCRIPT, "0", "FLUSHDB"], vec!["EVALSHA", "@SHA", "0", "DEL", "k"],
        vec!["EVAL", FORWARD_SCRIPT, "0", "RENAME", "k", "j"], vec!["EVAL", FORWARD_SCRIPT, "0", "LPUSH", "k", "e"],
    ] {
        a.push(mcmd(0, &c));
    }
    for c in [vec!["SELECT", "1"], vec!["SET", "k", "w"], vec!["DEL", "k"], vec!["FLUSHDB"], vec!["RPUSH", "k", "z"]] {
        a.push(mcmd(1, &c));
    }
    a
}

fn make_world(spec: &str) -> Option<Box<dyn World>> {
    if spec != "c18-db" {
        return None;
    }
    Some(Box::new(MultiWorld::new(MultiSpec { prop: "C18".into(), nconns: 2, acts: acts(), probes: vec![], uses_time: false, dump: true, srv_opts: SrvOpts::default() })))
}

/// read paths: the same key name in three databases, read through every path on a connection that selected one of them
fn read_paths(h: &mut Harness) -> Result<Vec<(String, Value)>, String> {
    let mut devs = Vec::new();
    h.ensure()?;
    h.aux_call(&["FLUSHALL"])?;
    for (db, val) in [("0", "zero"), ("1", "one"), ("15", "fifteen")] {
        h.aux_call(&["SELECT", db])?;
        h.aux_call(&["SET", "k", val])?;
        h.aux_call(&["RPUSH", "l", val])?;
    }
    h.aux_call(&["SELECT", "0"])?;
    let sha = match h.aux_call(&["SCRIPT", "LOAD", FORWARD_SCRIPT])? {
        R::Bulk(b) => b,
        other => return Err(format!("SCRIPT LOAD -> {}", resp::show(&other))),
    };
    let sha_s = String::from_utf8_lossy(&sha).to_string();
    for (db, val, nkeys) in [("0", "zero", 2i64), ("1", "one", 2), ("15", "fifteen", 2), ("3", "", 0)] {
        let srv = h.srv.as_ref().unwrap();
        let mut c = srv.connect().map_err(|e| format!("{:?}", e))?;
        let r = srv.call(&mut c, &["SELECT", db]).map_err(|e| format!("{:?}", e))?;
        if r != R::ok() {
            return Err(format!("SELECT {} -> {}", db, resp::show(&r)));
        }
        let want_get = if val.is_empty() { R::Nil } else { R::Bulk(val.as_bytes().to_vec()) };
        let mut check = |name: &str, got: R, want: &R| {
            // an empty Lua table converted to nil instead of an empty array is C12's subject, not isolation
            let empty_as_nil = matches!(want, R::Arr(v) if v.is_empty()) && got == R::Nil && name.starts_with("EVAL");
            if !crate::model::same(want, &got) && !empty_as_nil {
                devs.push((format!("C18|READ-PATH|{}|db{}", name, if db == "0" { "0" } else { "other" }), json!({"path": name, "db": db, "expected": resp::show(want), "actual": resp::show(&got)})));
            }
        };
        check("direct GET", srv.call(&mut c, &["GET", "k"]).map_err(|e| format!("{:?}", e))?, &want_get);
        check("EVAL GET", srv.call(&mut c, &["EVAL", FORWARD_SCRIPT, "0", "GET", "k"]).map_err(|e| format!("{:?}", e))?, &want_get);
        check("EVALSHA GET", srv.call(&mut c, &["EVALSHA", &sha_s, "0", "GET", "k"]).map_err(|e| format!("{:?}", e))?, &want_get);
        check("EVAL DBSIZE", srv.call(&mut c, &["EVAL", FORWARD_SCRIPT, "0", "DBSIZE"]).map_err(|e| format!("{:?}", e))?, &R::Int(nkeys));
        check("EVALSHA DBSIZE", srv.call(&mut c, &["EVALSHA", &sha_s, "0", "DBSIZE"]).map_err(|e| format!("{:?}", e))?, &R::Int(nkeys));
        check("direct DBSIZE", srv.call(&mut c, &["DBSIZE"]).map_err(|e| format!("{:?}", e))?, &R::Int(nkeys));
        let keys_want = if nkeys == 0 { R::Arr(vec![]) } else { R::Arr(vec![R::Bulk(b"k".to_vec())]) };
        check("EVAL KEYS k*", srv.call(&mut c, &["EVAL", FORWARD_SCRIPT, "0", "KEYS", "k*"]).map_err(|e| format!("{:?}", e))?, &keys_want);
        check("direct KEYS k*", srv.call(&mut c, &["KEYS", "k*"]).map_err(|e| format!("{:?}", e))?, &keys_want);
        check("EVAL EXISTS", srv.call(&mut c, &["EVAL", FORWARD_SCRIPT, "0", "EXISTS", "k"]).map_err(|e| format!("{:?}", e))?, &R::Int(if nkeys > 0 { 1 } else { 0 }));
        check("EVAL LLEN", srv.call(&mut c, &["EVAL", FORWARD_SCRIPT, "0", "LLEN", "l"]).map_err(|e| format!("{:?}", e))?, &R::Int(if nkeys > 0 { 1 } else { 0 }));
        // MULTI path
        let _ = srv.call(&mut c, &["MULTI"]);
        let _ = srv.call(&mut c, &["GET", "k"]);
        let _ = srv.call(&mut c, &["DBSIZE"]);
        check("EXEC [GET, DBSIZE]", srv.call(&mut c, &["EXEC"]).map_err(|e| format!("{:?}", e))?, &R::Arr(vec![want_get.clone(), R::Int(nkeys)]));
        c.discard();
        let _ = srv.steps(2);
    }
    Ok(devs)
}

/// a BLPOP registered in db 1 must be served by a push in db 1 and not by a push to the same key in db 0
fn blocking_scenario(h: &mut Harness) -> Result<Vec<(String, Value)>, String> {
    let mut devs = Vec::new();
    h.ensure()?;
    h.aux_call(&["FLUSHALL"])?;
    h.aux_call(&["SELECT", "0"])?;
    let srv = h.srv.as_ref().unwrap();
    let mut a = srv.connect().map_err(|e| format!("{:?}", e))?;
    let r = srv.call(&mut a, &["SELECT", "1"]).map_err(|e| format!("{:?}", e))?;
    if r != R::ok() {
        return Err("SELECT 1 failed".into());
    }
    a.send(&resp::cmd(&["BLPOP", "k", "0"]));
    let _ = srv.steps(3);
    a.poll();
    if a.take_frame().ok().flatten().is_some() {
        devs.push(("C18|BLOCKING|BLPOP on an empty list answered at once".into(), json!({})));
    }
    // push in db 0 through the control connection
    let r = h.aux_call(&["RPUSH", "k", "zero"])?;
    let srv = h.srv.as_ref().unwrap();
    let _ = srv.steps(4);
    a.poll();
    if let Ok(Some(f)) = a.take_frame() {
        devs.push(("C18|BLOCKING|served-by-a-push-in-another-database".into(), json!({"push": "RPUSH k zero in db 0", "blocked": "BLPOP k 0 in db 1", "received": resp::show(&f), "push_reply": resp::show(&r)})));
    }
    h.aux_call(&["SELECT", "1"])?;
    h.aux_call(&["RPUSH", "k", "one"])?;
    let srv = h.srv.as_ref().unwrap();
    let _ = srv.steps(4);
    a.poll();
    match a.take_frame() {
        Ok(Some(f)) => {
            if f != R::Arr(vec![R::Bulk(b"k".to_vec()), R::Bulk(b"one".to_vec())]) {
                devs.push(("C18|BLOCKING|served-with-the-wrong-element".into(), json!({"received": resp::show(&f)})));
            }
        }
        _ => devs.push(("C18|BLOCKING|not-served-by-a-push-in-its-own-database".into(), json!({}))),
    }
    h.aux_call(&["SELECT", "0"])?;
    let l0 = h.aux_call(&["LRANGE", "k", "0", "-1"])?;
    if l0 != R::Arr(vec![R::Bulk(b"zero".to_vec())]) {
        devs.push(("C18|BLOCKING|database-0-list-changed".into(), json!({"lrange_db0": resp::show(&l0)})));
    }
    a.discard();
    let _ = h.srv.as_ref().unwrap().steps(2);
    Ok(devs)
}

fn extra_worker(_tier: &str, task: &Value, _io: &mut WorkerIo) -> Option<Value> {
    if task.get("scenarios").is_some() || task.get("replay").map(|r| r["kind"].as_str() == Some("scenario")).unwrap_or(false) {
        let mut h = Harness::new(SrvOpts::default());
        let mut devs = Vec::new();
        let mut errors = Vec::new();
        match read_paths(&mut h) {
            Ok(d) => devs.extend(d),
            Err(e) => errors.push(e),
        }
        match blocking_scenario(&mut h) {
            Ok(d) => devs.extend(d),
            Err(e) => errors.push(e),
        }
        return Some(json!({"devs": devs.iter().map(|(s, d)| json!({"sig": s, "detail": d})).collect::<Vec<_>>(), "errors": errors}));
    }
    None
}

fn extra_parent(pool: &Pool, _tier: &str, report: &mut RunReport) -> Value {
    let out = pool.map(vec![json!({"scenarios": true})], 0);
    match &out[0] {
        Outcome::Done(v) => {
            for e in v["errors"].as_array().cloned().unwrap_or_default() {
                report.machinery_errors.push(format!("{}", e));
            }
            for d in v["devs"].as_array().cloned().unwrap_or_default() {
                report.deviations.push(Deviation { property: "C18".into(), sig: d["sig"].as_str().unwrap_or("").to_string(), replay: json!({"kind": "scenario", "detail": d["detail"]}) });
            }
            json!({"read_paths_and_blocking_scenario": {"read_path_probes": 4 * 11, "blocking_scenario_steps": 6}})
        }
        Outcome::Died { status, .. } => {
            report.machinery_errors.push(format!("scenario worker died: {}", status));
            json!({})
        }
    }
}

fn prop() -> DataProp {
    DataProp {
        id: "C18",
        specs: vec![SpecRun { spec: "c18-db", depth_quick: 3, depth_thorough: 4, budget_quick_s: 30.0, budget_thorough_s: 1500.0 }],
        make_world,
        assumptions: {
            let mut a = e1common::std_assumptions();
            a.push("script paths use one forwarding script (return redis.call(unpack(ARGV))): only its effect and error/non-error are judged here, the reply conversion is C12's subject".into());
            a
        },
    }
}

pub fn parent(tier: &str) -> i32 {
    e1common::data_parent(&prop(), tier, Some(&extra_parent))
}

pub fn handle_factory() -> impl FnMut(&str, &Value, &mut WorkerIo) -> (Value, bool) {
    e1common::data_handle_factory(make_world, Some(extra_worker))
}
