//! C16 — consumer groups deliver each entry once and account pending entries exactly (E1 under virtual time).

use super::e1common::{self, DataProp, SpecRun};
use crate::explore::dataworld::{b, cmd, Act, DataSpec, DataWorld};
use crate::explore::e1::World;
use crate::model::{Bytes, Model};
use crate::srv::Srv;

fn sv(v: &[&str]) -> Vec<Bytes> {
    v.iter().map(|x| b(x)).collect()
}

fn acts(full: bool) -> Vec<Act> {
    let mut a = vec![Act::Tick(1_500_000_000)];
    let mut list: Vec<Vec<&str>> = vec![
        vec!["XGROUP", "CREATE", "s", "g", "0-0"], vec!["XGROUP", "CREATE", "s", "g", "$"], vec!["XGROUP", "CREATE", "s", "g", "1-1"],
        vec!["XGROUP", "CREATE", "s", "g", "$", "MKSTREAM"], vec!["XGROUP", "CREATE", "s", "g2", "0-0", "MKSTREAM"],
        vec!["XGROUP", "DESTROY", "s", "g"], vec!["XGROUP", "SETID", "s", "g", "0-0"], vec!["XGROUP", "SETID", "s", "g", "$"],
        vec!["XGROUP", "CREATECONSUMER", "s", "g", "c1"], vec!["XGROUP", "DELCONSUMER", "s", "g", "c1"],
        vec!["XADD", "s", "1-1", "f", "v"], vec!["XADD", "s", "2-1", "f", "v"], vec!["XADD", "s", "3-1", "f", "v"], vec!["XDEL", "s", "2-1"],
        vec!["XREADGROUP", "GROUP", "g", "c1", "STREAMS", "s", ">"], vec!["XREADGROUP", "GROUP", "g", "c2", "STREAMS", "s", ">"],
        vec!["XREADGROUP", "GROUP", "g", "c1", "COUNT", "1", "STREAMS", "s", ">"], vec!["XREADGROUP", "GROUP", "g", "c2", "COUNT", "1", "STREAMS", "s", ">"],
        vec!["XREADGROUP", "GROUP", "g", "c1", "NOACK", "STREAMS", "s", ">"],
        // NOACK together with a COUNT below the backlog (a seeded change advanced the group to the end of the stream
        // instead of to the last entry handed out: equal unless COUNT cuts the delivery short), and COUNT 0
        vec!["XREADGROUP", "GROUP", "g", "c2", "COUNT", "1", "NOACK", "STREAMS", "s", ">"], vec!["XREADGROUP", "GROUP", "g", "c1", "COUNT", "0", "STREAMS", "s", ">"],
        vec!["XREADGROUP", "GROUP", "g", "c1", "STREAMS", "s", "0-0"], vec!["XREADGROUP", "GROUP", "g2", "c1", "STREAMS", "s", ">"],
        // a call over several streams with a malformed id behind a good one: refused as a whole, nothing delivered, nothing pending
        vec!["XREADGROUP", "GROUP", "g", "c1", "STREAMS", "s", "s", ">", "abc"],
        vec!["XACK", "s", "g", "1-1"], vec!["XACK", "s", "g", "1-1", "1-1"], vec!["XACK", "s", "g", "9-9"], vec!["XACK", "s", "g", "1-1", "2-1"],
        // ids in any order, one that is not pending (above every pending id, or below) listed first: every id is looked at
        vec!["XACK", "s", "g", "9-9", "1-1"], vec!["XACK", "s", "g", "3-1", "0-1", "1-1"], vec!["XCLAIM", "s", "g", "c2", "0", "9-9", "1-1"],
        vec!["XCLAIM", "s", "g", "c2", "0", "1-1"], vec!["XCLAIM", "s", "g", "c2", "1000", "1-1"], vec!["XCLAIM", "s", "g", "c2", "0", "3-1", "FORCE"], vec!["XCLAIM", "s", "g", "c2", "0", "1-1", "JUSTID"],
        vec!["XCLAIM", "s", "g", "c1", "0", "1-1", "3-1"],
    ];
    if full {
        list.extend(vec![
            vec!["XGROUP", "CREATE", "nokey", "g", "0-0"], vec!["XREADGROUP", "GROUP", "nogroup", "c1", "STREAMS", "s", ">"], vec!["XACK", "s", "nogroup", "1-1"],
            vec!["XGROUP", "SETID", "s", "g", "2-1"], vec!["XGROUP", "DELCONSUMER", "s", "g", "c2"], vec!["XTRIM", "s", "MAXLEN", "1"], vec!["DEL", "s"],
            vec!["XREADGROUP", "GROUP", "g", "c2", "STREAMS", "s", "0-0"], vec!["XCLAIM", "s", "g", "c1", "0", "9-9", "FORCE"],
        ]);
    }
    for c in list {
        a.push(cmd(&c));
    }
    a
}

fn probes(_m: &Model) -> Vec<Vec<Bytes>> {
    let mut p = Vec::new();
    for g in ["g", "g2"] {
        p.push(sv(&["XPENDING", "s", g]));
        p.push(sv(&["XPENDING", "s", g, "-", "+", "10"]));
        p.push(sv(&["XPENDING", "s", g, "-", "+", "1"]));
        p.push(sv(&["XPENDING", "s", g, "2-1", "+", "10"]));
        p.push(sv(&["XPENDING", "s", g, "-", "+", "10", "c1"]));
        p.push(sv(&["XPENDING", "s", g, "-", "+", "10", "c2"]));
        // windows that end before they start or lie between / outside the pending ids, count 0
        p.push(sv(&["XPENDING", "s", g, "+", "-", "10"]));
        p.push(sv(&["XPENDING", "s", g, "3-1", "1-1", "10", "c1"]));
        p.push(sv(&["XPENDING", "s", g, "1-1", "2-1", "10"]));
        p.push(sv(&["XPENDING", "s", g, "-", "+", "0"]));
        p.push(sv(&["XINFO", "CONSUMERS", "s", g]));
    }
    p.push(sv(&["XINFO", "GROUPS", "s"]));
    p.push(sv(&["XLEN", "s"]));
    p.push(sv(&["XRANGE", "s", "-", "+"]));
    p.push(sv(&["TYPE", "s"]));
    p.push(sv(&["XPENDING", "s", "nogroup"]));
    p.push(sv(&["XPENDING", "nokey", "g"]));
    p
}

/// A consumer reading its own pending entries again (explicit id), with COUNT and from ids in the middle: evaluated on
/// throw-away replays (they bump delivery counts) at every state where two consumers of g hold pending entries - COUNT
/// has to cut the consumer's own list, not the group's (a seeded change applied it before the filter by owner).
fn reread_probes(m: &Model) -> Vec<Vec<Bytes>> {
    let owners: std::collections::BTreeSet<String> = match m.dbs[0].keys.get(&b("s")) {
        Some(e) => match &e.val {
            crate::model::Val::Stream(st) => st.groups.get("g").map(|g| g.pel.values().map(|v| v.0.clone()).collect()).unwrap_or_default(),
            _ => Default::default(),
        },
        None => Default::default(),
    };
    if owners.len() < 2 {
        return vec![];
    }
    let mut p = Vec::new();
    for c in ["c1", "c2"] {
        p.push(sv(&["XREADGROUP", "GROUP", "g", c, "COUNT", "1", "STREAMS", "s", "0-0"]));
        p.push(sv(&["XREADGROUP", "GROUP", "g", c, "COUNT", "2", "STREAMS", "s", "0"]));
        p.push(sv(&["XREADGROUP", "GROUP", "g", c, "COUNT", "1", "STREAMS", "s", "1-1"]));
        p.push(sv(&["XREADGROUP", "GROUP", "g", c, "STREAMS", "s", "2-1"]));
    }
    p
}

fn invariants(srv: &Srv, _m: &Model) -> Vec<String> {
    let mut v = Vec::new();
    if let Ok(ferrous::storage::engine::GetResult::Found(ferrous::storage::value::Value::Stream(st))) = srv.h.storage.get(0, b"s") {
        for g in st.list_consumer_groups() {
            if let Err(e) = g.verif_check_consistency() {
                // class: strip names and numbers
                let class: String = e.split(':').nth(1).unwrap_or(&e).chars().filter(|c| !c.is_ascii_digit()).collect();
                let class = class.replace("c1", "C").replace("c2", "C").replace("  ", " ");
                v.push(format!("group bookkeeping:{}", class.trim()));
            }
        }
    }
    v
}

pub fn make_world(spec: &str) -> Option<Box<dyn World>> {
    let full = match spec {
        "c16-core" => false,
        "c16-full" => true,
        _ => return None,
    };
    Some(Box::new(DataWorld::new(DataSpec {
        prop: "C16".into(), acts: acts(full), probes: Box::new(probes), uses_time: true, isolated_probes: false,
        invariants: Some(Box::new(invariants)), cross: None, db: 0, destructive_probes: Some(Box::new(reread_probes)), on_reset: None,
    })))
}

fn prop() -> DataProp {
    DataProp {
        id: "C16",
        specs: vec![
            SpecRun { spec: "c16-core", depth_quick: 6, depth_thorough: 8, budget_quick_s: 25.0, budget_thorough_s: 1500.0 },
            SpecRun { spec: "c16-full", depth_quick: 4, depth_thorough: 6, budget_quick_s: 20.0, budget_thorough_s: 1500.0 },
        ],
        make_world,
        assumptions: e1common::std_assumptions(),
    }
}

pub fn parent(tier: &str) -> i32 {
    e1common::data_parent(&prop(), tier, None)
}

pub fn handle_factory() -> impl FnMut(&str, &serde_json::Value, &mut crate::pool::WorkerIo) -> (serde_json::Value, bool) {
    e1common::data_handle_factory(make_world, None)
}
