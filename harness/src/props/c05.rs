//! C05 — every request gets exactly one reply, in order, and errors are replies.
//! Exhaustive finite products against the live server (gated event loop): command x arity x argument
//! class x key state with ECHO markers; pipelines x segmentations; protocol violations; k commands per read.

use super::cmdtable;
use crate::gate::StepResult;
use crate::pool::{Outcome, Pool, WorkerIo};
use crate::report::{Deviation, RunReport};
use crate::resp::{self, R};
use crate::srv::{Client, Srv, SrvOpts};
use crate::vtime;
use serde_json::{json, Value};
use std::collections::BTreeSet;

#[derive(Clone, Debug)]
pub struct MCase {
    pub cmd: Vec<Vec<u8>>,
    pub name: String,
    pub variant: String,
    pub state: usize,
}

/// (the second one is not valid UTF-8: a seeded rewrite of the serializer's CR/LF scrubbing on top of `str` let such text through as it was)
const HOSTILE: &[&[u8]] = &[b"\r\n+OK\r\n", b"\xff\r\n+OK\r\n:42", b"\r\n", b"\r\n$-1\r\n"];

pub fn matrix_cases(thorough: bool) -> Vec<MCase> {
    let mut out = Vec::new();
    let nstates = cmdtable::key_states().len();
    for (name, ex) in cmdtable::all_commands() {
        if cmdtable::excluded(&name).is_some() {
            continue;
        }
        let full: Vec<Vec<u8>> = std::iter::once(name.clone().into_bytes()).chain(ex.iter().map(|s| s.clone().into_bytes())).collect();
        let mut push = |cmd: Vec<Vec<u8>>, variant: String, states: Vec<usize>| {
            for s in states {
                out.push(MCase { cmd: cmd.clone(), name: name.clone(), variant: variant.clone(), state: s });
            }
        };
        let all_states: Vec<usize> = (0..nstates).collect();
        let few_states: Vec<usize> = if thorough { all_states.clone() } else { vec![0, 2] };
        push(full.clone(), "example".into(), all_states.clone());
        // arity
        for n in 0..ex.len() {
            if thorough || n == 0 || n + 1 == ex.len() {
                push(full[..=n].to_vec(), format!("arity-{}", n), few_states.clone());
            }
        }
        let mut plus = full.clone();
        plus.push(b"extra".to_vec());
        push(plus.clone(), "arity+1".into(), few_states.clone());
        plus.push(b"extra2".to_vec());
        push(plus, "arity+2".into(), few_states.clone());
        // non-numeric where a number is expected
        if ex.iter().any(|a| cmdtable::is_numeric(a)) {
            let v: Vec<Vec<u8>> = full.iter().enumerate().map(|(i, a)| if i > 0 && cmdtable::is_numeric(&ex[i - 1]) { b"x".to_vec() } else { a.clone() }).collect();
            push(v, "nonnumeric".into(), all_states.clone());
        }
        // hostile content in every argument position (and in the command name position via an unknown command)
        let kinds = if thorough { HOSTILE.len() } else { 2 };
        for (hk, h) in HOSTILE.iter().take(kinds).enumerate() {
            for pos in 1..full.len() {
                let mut v = full.clone();
                v[pos] = h.to_vec();
                push(v, format!("hostile{}-arg{}", hk, pos), vec![0, 2]);
            }
        }
    }
    for (hk, h) in HOSTILE.iter().enumerate() {
        let mut name = b"NOSUCH".to_vec();
        name.extend_from_slice(h);
        out.push(MCase { cmd: vec![name, b"x".to_vec()], name: "(unknown)".into(), variant: format!("hostile{}-name", hk), state: 0 });
        // scripts that hand request bytes back as the text of a status or error reply
        for (si, script) in ["return {err=ARGV[1]}", "return {ok=ARGV[1]}", "return redis.error_reply(ARGV[1])", "return redis.status_reply(ARGV[1])", "error(ARGV[1])", "return redis.pcall('NOSUCH', ARGV[1])"].iter().enumerate() {
            out.push(MCase { cmd: vec![b"EVAL".to_vec(), script.as_bytes().to_vec(), b"0".to_vec(), h.to_vec()], name: "EVAL".into(), variant: format!("hostile{}-script{}", hk, si), state: 0 });
        }
    }
    // the same commands queued in a transaction: ECHO m1, MULTI, <cmd>, EXEC, ECHO m2 (EXEC runs them on another path;
    // a seeded change let a BLPOP inside EXEC block the client and tear the EXEC reply)
    let wrapped: Vec<MCase> = out.iter().filter(|c| (c.variant == "example" || c.variant == "nonnumeric") && !matches!(c.name.as_str(), "SUBSCRIBE" | "PSUBSCRIBE" | "UNSUBSCRIBE" | "PUNSUBSCRIBE" | "QUIT" | "MONITOR" | "RESET"))
        .map(|c| MCase { cmd: c.cmd.clone(), name: c.name.clone(), variant: format!("in-multi-{}", c.variant), state: c.state }).collect();
    out.extend(wrapped);
    out.push(MCase { cmd: vec![b"NOSUCHCOMMAND".to_vec()], name: "(unknown)".into(), variant: "unknown".into(), state: 0 });
    out.push(MCase { cmd: vec![b"get".to_vec(), b"k".to_vec()], name: "GET".into(), variant: "lowercase".into(), state: 1 });
    out
}

fn expected_replies(c: &MCase) -> usize {
    let n = c.cmd.len() - 1;
    match c.name.as_str() {
        "SUBSCRIBE" | "PSUBSCRIBE" => n.max(1),
        "UNSUBSCRIBE" | "PUNSUBSCRIBE" => n.max(1),
        _ => 1,
    }
}

pub struct Harness {
    pub srv: Option<Srv>,
    pub aux: Option<Client>,
    pub restarts: usize,
    pub opts: SrvOpts,
}

impl Harness {
    pub fn new(opts: SrvOpts) -> Harness {
        vtime::enable();
        Harness { srv: None, aux: None, restarts: 0, opts }
    }
    pub fn ensure(&mut self) -> Result<(), String> {
        if self.srv.as_ref().map(|s| s.is_dead()).unwrap_or(true) {
            self.aux = None;
            self.srv = None;
            self.srv = Some(Srv::start(&self.opts));
            self.restarts += 1;
        }
        if self.aux.as_ref().map(|c| !c.is_open()).unwrap_or(true) {
            let srv = self.srv.as_ref().unwrap();
            let mut c = srv.connect().map_err(|e| format!("aux connect: {:?}", e))?;
            if let Some(pw) = &self.opts.password {
                let r = srv.call(&mut c, &[b"AUTH".to_vec(), pw.clone().into_bytes()]).map_err(|e| format!("aux auth: {:?}", e))?;
                if r != R::ok() {
                    return Err(format!("aux AUTH -> {}", resp::show(&r)));
                }
            }
            self.aux = Some(c);
        }
        Ok(())
    }
    pub fn aux_call<T: AsRef<[u8]>>(&mut self, args: &[T]) -> Result<R, String> {
        self.ensure()?;
        let srv = self.srv.as_ref().unwrap();
        let aux = self.aux.as_mut().unwrap();
        let r = srv.call(aux, args).map_err(|e| format!("aux call {}: {:?}", resp::show_cmd(args), e));
        if r.is_err() {
            // a control connection that lost step with its replies must not be reused (the next reply would be stale)
            self.aux = None;
        }
        r
    }
    pub fn seed_state(&mut self, state: usize) -> Result<(), String> {
        self.aux_call(&["FLUSHALL"])?;
        for c in cmdtable::key_states()[state].1.iter() {
            self.aux_call(c)?;
        }
        Ok(())
    }
    /// step and collect frames until `want` frames arrived or nothing new for `patience` steps
    pub fn collect(&mut self, c: &mut Client, want: usize, patience: usize) -> (Vec<R>, Option<String>) {
        let mut out = Vec::new();
        let mut idle = 0;
        loop {
            let srv = self.srv.as_ref().unwrap();
            match srv.step() {
                StepResult::Arrived => {}
                StepResult::Died => return (out, Some("server-exited".into())),
                StepResult::Parked => return (out, Some("parked".into())),
            }
            c.poll();
            let before = out.len();
            loop {
                match c.take_frame() {
                    Ok(Some(f)) => out.push(f),
                    Ok(None) => break,
                    Err(e) => return (out, Some(format!("garbage-bytes: {}", e))),
                }
            }
            if out.len() >= want {
                // one more step to catch surplus frames
                let srv = self.srv.as_ref().unwrap();
                let _ = srv.step();
                c.poll();
                while let Ok(Some(f)) = c.take_frame() {
                    out.push(f);
                }
                if !c.buf.is_empty() {
                    return (out, Some(format!("trailing partial bytes {:?}", resp::show_bytes(&c.buf))));
                }
                return (out, None);
            }
            if c.closed {
                return (out, Some("connection-closed".into()));
            }
            if out.len() == before {
                idle += 1;
                if idle >= patience {
                    return (out, None);
                }
            } else {
                idle = 0;
            }
        }
    }
}

fn run_matrix_case(h: &mut Harness, idx: usize, c: &MCase) -> Result<(String, Value), String> {
    h.ensure()?;
    h.seed_state(c.state)?;
    let m1 = format!("m1-{}", idx).into_bytes();
    let m2 = format!("m2-{}", idx).into_bytes();
    let in_multi = c.variant.starts_with("in-multi");
    let mut bytes = resp::cmd(&[b"ECHO".to_vec(), m1.clone()]);
    if in_multi {
        bytes.extend(resp::cmd(&["MULTI"]));
    }
    bytes.extend(resp::cmd(&c.cmd));
    if in_multi {
        bytes.extend(resp::cmd(&["EXEC"]));
    }
    bytes.extend(resp::cmd(&[b"ECHO".to_vec(), m2.clone()]));
    let mut cli = h.srv.as_ref().unwrap().connect().map_err(|e| format!("connect: {:?}", e))?;
    cli.send(&bytes);
    let want = if in_multi { 5 } else { expected_replies(c) + 2 };
    let (mut got, mut err) = h.collect(&mut cli, want, 4);
    let blocking = (c.name == "BLPOP" || c.name == "BRPOP") && !in_multi;
    if err.is_none() && got.len() < want && blocking {
        // a blocked client: let its timeout pass
        vtime::tick(2_000_000_000).map_err(|_| "settle timeout".to_string())?;
        let (more, e2) = h.collect(&mut cli, want - got.len(), 4);
        got.extend(more);
        err = e2;
    }
    let shown: Vec<String> = got.iter().map(resp::show).collect();
    let quit = c.name == "QUIT";
    let outcome = if let Some(e) = &err {
        if e == "connection-closed" && quit && got.len() >= 2 {
            "ok".to_string()
        } else {
            e.split(':').next().unwrap_or("error").to_string()
        }
    } else if got.len() < want {
        if quit && got.len() >= 2 {
            "ok".to_string()
        } else if got.is_empty() {
            "silence".to_string()
        } else {
            format!("missing-reply({}<{})", got.len(), want)
        }
    } else if got.len() > want {
        "extra-reply".to_string()
    } else if in_multi && (got[0] != R::Bulk(m1.clone()) || got[1] != R::Simple(b"OK".to_vec()) || got[4] != R::Bulk(m2.clone())) {
        "out-of-order".to_string()
    } else if !in_multi && (got[0] != R::Bulk(m1.clone()) || (got[got.len() - 1] != R::Bulk(m2.clone()) && !(c.name == "MULTI" && got[got.len() - 1] == R::Simple(b"QUEUED".to_vec())))) {
        "out-of-order".to_string()
    } else {
        "ok".to_string()
    };
    let mut follow = "skipped".to_string();
    if outcome == "ok" && !quit && cli.is_open() && !h.srv.as_ref().unwrap().is_dead() {
        cli.send(&resp::cmd(&["PING"]));
        let (f, e) = h.collect(&mut cli, 1, 4);
        follow = if e.is_some() || f.is_empty() { "no-answer-to-PING-afterwards".into() } else { "ok".into() };
    }
    cli.discard();
    if let Some(s) = h.srv.as_ref() {
        if !s.is_dead() {
            let _ = s.steps(2);
        }
    }
    let detail = json!({"request": if in_multi { vec!["ECHO m1".to_string(), "MULTI".to_string(), resp::show_cmd(&c.cmd), "EXEC".to_string(), "ECHO m2".to_string()] } else { vec!["ECHO m1".to_string(), resp::show_cmd(&c.cmd), "ECHO m2".to_string()] }, "key_state": cmdtable::key_states()[c.state].0, "replies": shown, "error": err, "followup_ping": follow});
    let final_outcome = if outcome == "ok" && follow != "ok" && follow != "skipped" { follow } else { outcome };
    Ok((final_outcome, detail))
}

// ------------------------------------------------------------------ pipelines x segmentations

fn mix() -> Vec<Vec<Vec<u8>>> {
    let c = |v: &[&[u8]]| -> Vec<Vec<u8>> { v.iter().map(|x| x.to_vec()).collect() };
    vec![
        c(&[b"PING"]), c(&[b"ECHO", b"a"]), c(&[b"SET", b"k", b"v"]), c(&[b"GET", b"k"]), c(&[b"GET", b"nokey"]), c(&[b"NOSUCHCMD"]), c(&[b"GET"]),
        c(&[b"LPUSH", b"k", b"x"]), c(&[b"INCR", b"k"]), c(&[b"ECHO", b"\r\n$1"]), c(&[b"SET", b"k", b"*1\r\n"]), c(&[b"DEL", b"k"]),
    ]
}

fn pipelines(maxlen: usize) -> Vec<Vec<usize>> {
    let n = mix().len();
    let mut out = Vec::new();
    for a in 0..n {
        out.push(vec![a]);
        if maxlen >= 2 {
            for b in 0..n {
                out.push(vec![a, b]);
                if maxlen >= 3 {
                    for c in 0..n {
                        out.push(vec![a, b, c]);
                    }
                }
            }
        }
    }
    out
}

fn pipeline_bytes(p: &[usize]) -> Vec<u8> {
    let m = mix();
    let mut b = Vec::new();
    for i in p {
        b.extend(resp::cmd(&m[*i]));
    }
    b
}

fn cuts_upto(n: usize, max_cuts: usize) -> Vec<Vec<usize>> {
    let mut res: Vec<Vec<usize>> = Vec::new();
    for a in 1..n {
        res.push(vec![a]);
        if max_cuts >= 2 {
            for b in a + 1..n {
                res.push(vec![a, b]);
            }
        }
    }
    res
}

fn run_segmented(h: &mut Harness, cli: &mut Client, bytes: &[u8], cuts: &[usize], want: usize) -> Result<(Vec<String>, Option<String>), String> {
    h.aux_call(&["FLUSHALL"])?;
    let mut prev = 0;
    let mut got: Vec<R> = Vec::new();
    for c in cuts.iter().chain([bytes.len()].iter()) {
        cli.send(&bytes[prev..*c]);
        prev = *c;
        let srv = h.srv.as_ref().unwrap();
        match srv.step() {
            StepResult::Arrived => {}
            StepResult::Died => return Ok((got.iter().map(resp::show).collect(), Some("server-exited".into()))),
            StepResult::Parked => return Err("parked".into()),
        }
        cli.poll();
        loop {
            match cli.take_frame() {
                Ok(Some(f)) => got.push(f),
                Ok(None) => break,
                Err(e) => return Ok((got.iter().map(resp::show).collect(), Some(format!("garbage-bytes: {}", e)))),
            }
        }
    }
    if got.len() < want {
        let (more, e) = h.collect(cli, want - got.len(), 3);
        got.extend(more);
        if let Some(e) = e {
            return Ok((got.iter().map(resp::show).collect(), Some(e)));
        }
    } else {
        // surplus?
        let (more, _) = h.collect(cli, 1, 1);
        got.extend(more);
    }
    Ok((got.iter().map(resp::show).collect(), None))
}

fn segment_task(h: &mut Harness, task: &Value) -> Result<Value, String> {
    h.ensure()?;
    let plist: Vec<Vec<usize>> = task["pipelines"].as_array().map(|a| a.iter().map(|p| p.as_array().map(|x| x.iter().map(|y| y.as_u64().unwrap_or(0) as usize).collect()).unwrap_or_default()).collect()).unwrap_or_default();
    let max_cuts = task["max_cuts"].as_u64().unwrap_or(1) as usize;
    let all_if_short = task["all_if_len_le"].as_u64().unwrap_or(14) as usize;
    let mut cli = h.srv.as_ref().unwrap().connect().map_err(|e| format!("connect: {:?}", e))?;
    let mut execs = 0u64;
    let mut devs: Vec<Value> = Vec::new();
    let mut outcomes: BTreeSet<u64> = BTreeSet::new();
    for p in plist.iter() {
        let bytes = pipeline_bytes(p);
        let want = p.len();
        if !cli.is_open() || h.srv.as_ref().map(|s| s.is_dead()).unwrap_or(true) {
            h.ensure()?;
            cli = h.srv.as_ref().unwrap().connect().map_err(|e| format!("connect: {:?}", e))?;
        }
        let (whole, werr) = run_segmented(h, &mut cli, &bytes, &[], want)?;
        execs += 1;
        outcomes.insert(crate::report::fnv(whole.join("|").as_bytes()));
        let cmds: Vec<String> = p.iter().map(|i| resp::show_cmd(&mix()[*i])).collect();
        if werr.is_some() || whole.len() != want {
            devs.push(json!({"sig": format!("C05|PIPELINE|whole|{}", werr.clone().unwrap_or_else(|| format!("{} replies for {} commands", whole.len(), want)).split(':').next().unwrap_or("")),
                "pipeline": cmds, "replies": whole, "error": werr}));
            continue;
        }
        let n = bytes.len();
        let mut cutsets: Vec<Vec<usize>> = if n <= all_if_short {
            // every segmentation
            let mut v = Vec::new();
            for mask in 1u32..(1u32 << (n - 1)) {
                v.push((1..n).filter(|i| mask & (1 << (i - 1)) != 0).collect());
            }
            v
        } else {
            cuts_upto(n, max_cuts)
        };
        cutsets.push((1..n).collect()); // one byte at a time
        for cuts in cutsets.iter() {
            if !cli.is_open() || h.srv.as_ref().map(|s| s.is_dead()).unwrap_or(true) {
                h.ensure()?;
                cli = h.srv.as_ref().unwrap().connect().map_err(|e| format!("connect: {:?}", e))?;
            }
            let (got, err) = run_segmented(h, &mut cli, &bytes, cuts, want)?;
            execs += 1;
            if err.is_some() || got != whole {
                let kind = if let Some(e) = &err { e.split(':').next().unwrap_or("").to_string() } else if got.len() != whole.len() { format!("{} replies instead of {}", got.len(), whole.len()) } else { "different replies".to_string() };
                if devs.len() < 100 {
                    devs.push(json!({"sig": format!("C05|SEGMENTATION|{}", kind), "pipeline": cmds, "cuts": if cuts.len() > 6 { json!("single bytes") } else { json!(cuts) }, "whole": whole, "segmented": got, "error": err}));
                }
                // resynchronise with a fresh connection
                cli.discard();
            }
        }
    }
    cli.discard();
    Ok(json!({"executions": execs, "devs": devs, "outcomes": outcomes.len()}))
}

// ------------------------------------------------------------------ protocol violations, many commands per read

pub fn malformed_frames() -> Vec<(&'static str, Vec<u8>)> {
    vec![
        ("bad bulk length", b"$abc\r\n".to_vec()),
        ("negative bulk length in array", b"*1\r\n$-5\r\n".to_vec()),
        ("unknown type byte", b"?\r\n".to_vec()),
        ("non-bulk command word", b"*1\r\n:1\r\n".to_vec()),
        ("negative array length", b"*-5\r\n".to_vec()),
        ("bulk longer than declared", b"*1\r\n$3\r\nabcde\r\n".to_vec()),
        ("binary garbage", vec![0, 1, 2, 3, 255, 254, b'\r', b'\n']),
        ("null element", b"*2\r\n$3\r\nGET\r\n_\r\n".to_vec()),
        ("bad integer", b":12x\r\n".to_vec()),
        ("inline text", b"HELLO WORLD\r\n".to_vec()),
        ("array length overflow", b"*99999999999999999999\r\n".to_vec()),
        ("nesting too deep", {
            let mut b = Vec::new();
            for _ in 0..200 {
                b.extend_from_slice(b"*1\r\n");
            }
            b
        }),
        ("empty array", b"*0\r\n".to_vec()),
        ("null array", b"*-1\r\n".to_vec()),
    ]
}


/// Commands that arrive behind a blocking pop: the client is blocked, so nothing behind the BLPOP may be executed or
/// answered until it is served or timed out; afterwards every reply arrives, in request order.
/// Complete product: 3 blocking forms x 8 tails x {one write, tail in a second write while blocked, one command held back in the
/// first write and the tail in a second write}.
fn blocked_pipeline_cases(h: &mut Harness, res: &mut Vec<Value>) -> Result<(), String> {
    #[derive(Clone)]
    enum Want {
        Is(R),
        Err,
        Nil,
    }
    let ok = || Want::Is(R::Simple(b"OK".to_vec()));
    let blocks: Vec<(&str, Vec<&str>, bool)> = vec![
        ("BLPOP k 0 served by a push", vec!["BLPOP", "k", "0"], true),
        ("BLPOP k 1 timing out", vec!["BLPOP", "k", "1"], false),
        ("BRPOP nokey k 0 served by a push", vec!["BRPOP", "nokey", "k", "0"], true),
        // the same behind another client that blocked on k earlier and waits for ever (a seeded timeout scan stopped at the
        // first waiter of a key that had not timed out: the one behind it never got its nil, nor anything after it)
        ("BLPOP k 1 timing out behind a client that waits for ever", vec!["BLPOP", "k", "1"], false),
        // several keys, and the same key twice, timing out: one nil for the call, not one per registration
        // (a seeded timeout pass answered every report of the scan, and the scan reports a client once per key)
        ("BRPOP nokey k 1 timing out", vec!["BRPOP", "nokey", "k", "1"], false),
        ("BLPOP k k nokey 1 timing out", vec!["BLPOP", "k", "k", "nokey", "1"], false),
    ];
    let tails: Vec<(&str, Vec<u8>, Vec<Want>, bool)> = vec![
        ("ECHO t", resp::cmd(&["ECHO", "t"]), vec![Want::Is(R::Bulk(b"t".to_vec()))], false),
        ("SET s 1", resp::cmd(&["SET", "s", "1"]), vec![ok()], false),
        ("RPUSH k self", resp::cmd(&["RPUSH", "k", "self"]), vec![Want::Is(R::Int(1))], false),
        ("GET without arguments", resp::cmd(&["GET"]), vec![Want::Err], false),
        ("MULTI SET s 1 EXEC", { let mut b = resp::cmd(&["MULTI"]); b.extend(resp::cmd(&["SET", "s", "1"])); b.extend(resp::cmd(&["EXEC"])); b },
            vec![ok(), Want::Is(R::Simple(b"QUEUED".to_vec())), Want::Is(R::Arr(vec![R::Simple(b"OK".to_vec())]))], false),
        ("BLPOP k2 1, ECHO t2", { let mut b = resp::cmd(&["BLPOP", "k2", "1"]); b.extend(resp::cmd(&["ECHO", "t2"])); b }, vec![Want::Nil, Want::Is(R::Bulk(b"t2".to_vec()))], false),
        ("malformed frame, ECHO never", { let mut b = b"*x\r\n".to_vec(); b.extend(resp::cmd(&["ECHO", "never"])); b }, vec![Want::Err], true),
        ("SET s 1, GET s, DEL s", { let mut b = resp::cmd(&["SET", "s", "1"]); b.extend(resp::cmd(&["GET", "s"])); b.extend(resp::cmd(&["DEL", "s"])); b }, vec![ok(), Want::Is(R::Bulk(b"1".to_vec())), Want::Is(R::Int(1))], false),
    ];
    for (bname, bcmd, by_push) in blocks.iter() {
        for (tname, tbytes, twant, closes) in tails.iter() {
            // mode 2: one command is held back behind the blocking pop in the first write AND the tail arrives in a second
            // write while the client is blocked (a seeded change ran what it had just read ahead of what it held back)
            for mode in 0..3 {
                let two_writes = mode >= 1;
                let held = mode == 2;
                let name = format!("blocked pipeline: ECHO m1, {}, {}{}", bname, tname, match mode { 0 => "", 1 => " (tail in a second write)", _ => " (ECHO held in the same write, tail in a second write)" });
                h.ensure()?;
                h.aux_call(&["FLUSHALL"])?;
                let mut shield: Option<crate::srv::Client> = None;
                if bname.contains("behind a client") {
                    let mut sc = h.srv.as_ref().unwrap().connect().map_err(|e| format!("connect: {:?}", e))?;
                    sc.send(&resp::cmd(&["BLPOP", "k", "0"]));
                    let _ = h.srv.as_ref().unwrap().steps(3);
                    shield = Some(sc);
                }
                let mut cli = h.srv.as_ref().unwrap().connect().map_err(|e| format!("connect: {:?}", e))?;
                let mut first = resp::cmd(&["ECHO", "m1"]);
                first.extend(resp::cmd(bcmd));
                if !two_writes {
                    first.extend_from_slice(tbytes);
                }
                if held {
                    first.extend(resp::cmd(&["ECHO", "held"]));
                }
                cli.send(&first);
                let total = 2 + twant.len() + if held { 1 } else { 0 };
                let (mut got, mut err) = h.collect(&mut cli, total, 4);
                if two_writes && err.is_none() {
                    cli.send(tbytes);
                    let (more, e2) = h.collect(&mut cli, total - got.len().min(total), 4);
                    got.extend(more);
                    err = e2;
                }
                let mut problem: Option<String> = None;
                if err.is_some() {
                    problem = Some(format!("error while blocked: {}", err.clone().unwrap()));
                } else if got != vec![R::Bulk(b"m1".to_vec())] {
                    problem = Some("answered-behind-a-blocked-command".into());
                }
                // nothing behind the blocking command may have been executed yet
                if problem.is_none() {
                    let s_now = h.aux_call(&["EXISTS", "s"])?;
                    let k_now = h.aux_call(&["LLEN", "k"])?;
                    if s_now != R::Int(0) || k_now != R::Int(0) {
                        problem = Some("executed-behind-a-blocked-command".into());
                    }
                }
                let first_reply = if *by_push {
                    h.aux_call(&["RPUSH", "k", "v"])?;
                    Want::Is(R::Arr(vec![R::Bulk(b"k".to_vec()), R::Bulk(b"v".to_vec())]))
                } else {
                    vtime::tick(2_000_000_000).map_err(|_| "settle timeout".to_string())?;
                    Want::Nil
                };
                if problem.is_none() {
                    let (more, e2) = h.collect(&mut cli, total - got.len(), 4);
                    got.extend(more);
                    err = e2;
                    if got.len() < total && err.is_none() {
                        // a second blocking command in the tail: let its timeout pass
                        vtime::tick(2_000_000_000).map_err(|_| "settle timeout".to_string())?;
                        let (more, e2) = h.collect(&mut cli, total - got.len(), 4);
                        got.extend(more);
                        err = e2;
                    }
                    let mut want: Vec<Want> = vec![Want::Is(R::Bulk(b"m1".to_vec())), first_reply];
                    if held {
                        want.push(Want::Is(R::Bulk(b"held".to_vec())));
                    }
                    want.extend(twant.iter().cloned());
                    let matches = got.len() == want.len() && got.iter().zip(want.iter()).all(|(g, w)| match w {
                        Want::Is(r) => crate::model::same(r, g),
                        Want::Err => g.is_err(),
                        Want::Nil => matches!(g, R::Nil | R::NilArr),
                    });
                    let err_fine = err.is_none() || (*closes && err.as_deref() == Some("connection-closed"));
                    if !matches {
                        problem = Some(if got.len() < want.len() { "missing-reply".into() } else if got.len() > want.len() { "extra-reply".into() } else { "wrong-or-out-of-order".into() });
                    } else if !err_fine {
                        problem = Some(format!("error: {}", err.clone().unwrap()));
                    }
                }
                if problem.is_none() && !*closes {
                    let usable = cli.is_open() && h.srv.as_ref().unwrap().call(&mut cli, &["PING"]).map(|r| r == R::Simple(b"PONG".to_vec())).unwrap_or(false);
                    if !usable {
                        problem = Some("connection-unusable-afterwards".into());
                    }
                }
                let shown: Vec<String> = got.iter().map(resp::show).collect();
                cli.discard();
                if let Some(mut sc) = shield.take() {
                    sc.discard();
                }
                if let Some(s) = h.srv.as_ref() {
                    if !s.is_dead() {
                        let _ = s.steps(2);
                    }
                }
                res.push(json!({"name": name, "outcome": problem.unwrap_or_else(|| "in-order".into()), "replies": shown, "error": err}));
            }
        }
    }
    Ok(())
}


/// (P)SUBSCRIBE / (P)UNSUBSCRIBE answer one acknowledgement per name given (all of the subscriptions, or one, without
/// names) whatever the connection is subscribed to: 5 subscription states x 4 commands x 7 argument lists over a
/// subscribed and a not subscribed name (incl. both orders and duplicates), each followed by a marker in the same write.
fn pubsub_ack_cases(h: &mut Harness, res: &mut Vec<Value>) -> Result<(), String> {
    let states: Vec<(&str, Vec<Vec<&str>>)> = vec![
        ("no subscription", vec![]),
        ("SUBSCRIBE a", vec![vec!["SUBSCRIBE", "a"]]),
        ("SUBSCRIBE a b", vec![vec!["SUBSCRIBE", "a", "b"]]),
        ("PSUBSCRIBE a*", vec![vec!["PSUBSCRIBE", "a*"]]),
        ("SUBSCRIBE a, PSUBSCRIBE a*", vec![vec!["SUBSCRIBE", "a"], vec!["PSUBSCRIBE", "a*"]]),
    ];
    let lists: Vec<Vec<usize>> = vec![vec![], vec![0], vec![1], vec![0, 1], vec![1, 0], vec![0, 0], vec![1, 1]];
    for (sname, setup) in states.iter() {
        for cmd in ["UNSUBSCRIBE", "PUNSUBSCRIBE", "SUBSCRIBE", "PSUBSCRIBE"] {
            let pattern_cmd = cmd.starts_with('P');
            let names: [&str; 2] = if pattern_cmd { ["a*", "x*"] } else { ["a", "x"] };
            for l in lists.iter() {
                h.ensure()?;
                let mut cli = h.srv.as_ref().unwrap().connect().map_err(|e| format!("connect: {:?}", e))?;
                let mut setup_frames = 0usize;
                let mut chans: Vec<&str> = Vec::new();
                let mut pats: Vec<&str> = Vec::new();
                for c in setup.iter() {
                    cli.send(&resp::cmd(c));
                    setup_frames += c.len() - 1;
                    for n in c.iter().skip(1) {
                        if c[0] == "SUBSCRIBE" { chans.push(n) } else { pats.push(n) }
                    }
                }
                let (got0, err0) = h.collect(&mut cli, setup_frames, 4);
                if err0.is_some() || got0.len() != setup_frames {
                    return Err(format!("pub/sub set-up {}: {} frames, {:?}", sname, got0.len(), err0));
                }
                let args: Vec<&str> = l.iter().map(|i| names[*i]).collect();
                let mut full: Vec<&str> = vec![cmd];
                full.extend(args.iter());
                let mut bytes = resp::cmd(&full);
                bytes.extend(resp::cmd(&["ECHO", "marker"]));
                cli.send(&bytes);
                // expected acknowledgements: (kind, name or None for "any / nil")
                let held = if pattern_cmd { pats.len() } else { chans.len() };
                let kind = cmd.to_lowercase();
                let mut want: Vec<Option<String>> = Vec::new();
                let mut want_error = false;
                if args.is_empty() {
                    if cmd.ends_with("UNSUBSCRIBE") {
                        for _ in 0..held.max(1) {
                            want.push(None);
                        }
                    } else {
                        want_error = true; // SUBSCRIBE without a channel is an arity error: one error reply
                    }
                } else {
                    for a in args.iter() {
                        want.push(Some(a.to_string()));
                    }
                }
                let nwant = if want_error { 1 } else { want.len() };
                let (got, err) = h.collect(&mut cli, nwant + 1, 4);
                let mut problem: Option<String> = None;
                if err.is_some() {
                    problem = Some(format!("error: {}", err.clone().unwrap()));
                } else if got.len() != nwant + 1 {
                    problem = Some(if got.len() < nwant + 1 { "missing-reply".into() } else { "extra-reply".into() });
                } else if got[nwant] != R::Bulk(b"marker".to_vec()) {
                    problem = Some("out-of-order".into());
                } else if want_error {
                    if !got[0].is_err() {
                        problem = Some("no-error-reply".into());
                    }
                } else {
                    for (i, w) in want.iter().enumerate() {
                        let ok = match &got[i] {
                            R::Arr(v) if v.len() == 3 => {
                                v[0] == R::Bulk(kind.clone().into_bytes()) && match w {
                                    Some(n) => v[1] == R::Bulk(n.clone().into_bytes()),
                                    None => true,
                                } && matches!(v[2], R::Int(_))
                            }
                            _ => false,
                        };
                        if !ok {
                            problem = Some(format!("acknowledgement-{}-wrong", i + 1));
                            break;
                        }
                    }
                }
                let shown: Vec<String> = got.iter().map(resp::show).collect();
                cli.discard();
                if let Some(s) = h.srv.as_ref() {
                    if !s.is_dead() {
                        let _ = s.steps(2);
                    }
                }
                res.push(json!({"name": format!("pub/sub acknowledgements: [{}] then {} {}", sname, cmd, args.join(" ")), "outcome": problem.unwrap_or_else(|| "in-order".into()), "replies": shown}));
            }
        }
    }
    Ok(())
}

fn violation_task(h: &mut Harness) -> Result<Value, String> {
    let mut res = Vec::new();
    blocked_pipeline_cases(h, &mut res)?;
    pubsub_ack_cases(h, &mut res)?;
    for (name, frame) in malformed_frames() {
        h.ensure()?;
        let mut cli = h.srv.as_ref().unwrap().connect().map_err(|e| format!("connect: {:?}", e))?;
        // a well-formed command before and after
        let mut bytes = resp::cmd(&["ECHO", "before"]);
        bytes.extend_from_slice(&frame);
        bytes.extend(resp::cmd(&["ECHO", "after"]));
        cli.send(&bytes);
        let (got, err) = h.collect(&mut cli, 3, 4);
        let shown: Vec<String> = got.iter().map(resp::show).collect();
        let has_error_reply = got.iter().skip(1).any(|r| r.is_err());
        let outcome = if err.as_deref() == Some("server-exited") {
            "server-exited"
        } else if matches!(&err, Some(e) if e.starts_with("garbage")) {
            "garbage-bytes"
        } else if has_error_reply {
            "error-reply"
        } else if got.len() >= 3 {
            "answered-without-error"
        } else if cli.closed {
            "closed-without-error-reply"
        } else {
            "silence"
        };
        cli.discard();
        res.push(json!({"name": name, "outcome": outcome, "replies": shown, "frame": resp::show_bytes(&frame)}));
    }
    // k commands per read
    for k in [1usize, 2, 10, 1000] {
        h.ensure()?;
        let mut cli = h.srv.as_ref().unwrap().connect().map_err(|e| format!("connect: {:?}", e))?;
        let mut bytes = Vec::new();
        for i in 0..k {
            bytes.extend(resp::cmd(&[b"ECHO".to_vec(), format!("{}", i).into_bytes()]));
        }
        cli.send(&bytes);
        let (got, err) = h.collect(&mut cli, k, 6);
        let ok = err.is_none() && got.len() == k && got.iter().enumerate().all(|(i, r)| *r == R::Bulk(format!("{}", i).into_bytes()));
        cli.discard();
        res.push(json!({"name": format!("{} commands in one read", k), "outcome": if ok { "in-order" } else { "wrong" }, "replies": got.len(), "error": err}));
    }
    // reply bursts larger than the socket buffers: the server can hand the kernel only part of its reply buffer per
    // write and has to continue where it stopped; the client drains between loop iterations only
    // (a seeded slip in the bookkeeping of partial writes went unnoticed while every reply fitted in one write)
    for (value_len, gets) in [(64usize << 10, 8usize), (256 << 10, 24), (1 << 20, 24), (4 << 20, 3)] {
        h.ensure()?;
        let name = format!("{} GETs of a {} KiB value in one write", gets, value_len >> 10);
        let value: Vec<u8> = (0..value_len).map(|i| b'a' + (i % 23) as u8).collect();
        let mut cli = h.srv.as_ref().unwrap().connect().map_err(|e| format!("connect: {:?}", e))?;
        {
            let srv = h.srv.as_ref().unwrap();
            let set = resp::cmd(&[b"SET".to_vec(), b"burst".to_vec(), value.clone()]);
            srv.send_all(&mut cli, &set).map_err(|e| format!("SET burst: {:?}", e))?;
            let r = srv.await_reply(&mut cli, 40 + set.len() / 2048).map_err(|e| format!("SET burst: {:?}", e))?;
            if r != R::ok() {
                return Err(format!("SET burst -> {}", resp::show(&r)));
            }
        }
        let mut bytes = resp::cmd(&["PING"]);
        for _ in 0..gets {
            bytes.extend(resp::cmd(&["GET", "burst"]));
        }
        bytes.extend(resp::cmd(&["ECHO", "end-of-burst"]));
        cli.send(&bytes);
        let want = gets + 2;
        let mut got: Vec<R> = Vec::new();
        let mut err: Option<String> = None;
        let mut idle = 0;
        // every iteration may move only one socket buffer's worth: be patient, but finite
        for _ in 0..(200 + (value_len * gets) / 8192) {
            match h.srv.as_ref().unwrap().step() {
                StepResult::Arrived => {}
                StepResult::Died => {
                    err = Some("server-exited".into());
                    break;
                }
                StepResult::Parked => {
                    err = Some("parked".into());
                    break;
                }
            }
            cli.poll();
            let before = got.len() + cli.buf.len();
            loop {
                match cli.take_frame() {
                    Ok(Some(f)) => got.push(f),
                    Ok(None) => break,
                    Err(e) => {
                        err = Some(format!("garbage: {}", e));
                        break;
                    }
                }
            }
            if err.is_some() || got.len() >= want || cli.closed {
                break;
            }
            idle = if got.len() + cli.buf.len() == before { idle + 1 } else { 0 };
            if idle > 50 {
                break;
            }
        }
        let ok = err.is_none() && got.len() == want && got[0] == R::Simple(b"PONG".to_vec()) && got[1..=gets].iter().all(|r| *r == R::Bulk(value.clone())) && got[want - 1] == R::Bulk(b"end-of-burst".to_vec());
        let usable = if cli.is_open() { h.srv.as_ref().unwrap().call(&mut cli, &["PING"]).map(|r| r == R::Simple(b"PONG".to_vec())).unwrap_or(false) } else { false };
        cli.discard();
        let _ = h.aux_call(&["DEL", "burst"]);
        let outcome = if ok && usable { "in-order" } else if !ok { "wrong" } else { "connection-unusable-afterwards" };
        res.push(json!({"name": name, "outcome": outcome, "replies": got.len(), "expected_replies": want, "error": err, "connection_closed": !usable}));
    }
    Ok(json!({"cases": res}))
}

// ------------------------------------------------------------------ worker / parent

pub fn handle_factory() -> impl FnMut(&str, &Value, &mut WorkerIo) -> (Value, bool) {
    let mut h = Harness::new(SrvOpts::default());
    // the same matrix with somebody watching: slow log, statistics and MONITOR support configured (another implementation
    // of the per-command bookkeeping runs then), the slow log taking every command and a MONITOR client attached
    let mut h_obs = Harness::new(SrvOpts { monitoring: true, ..SrvOpts::default() });
    let mut monitor: Option<(usize, crate::srv::Client)> = None;
    move |tier: &str, task: &Value, io: &mut WorkerIo| {
        let thorough = tier == "thorough";
        let mut watch = |h_obs: &mut Harness| -> Result<(), String> {
            h_obs.ensure()?;
            if monitor.as_ref().map(|(r, m)| *r != h_obs.restarts || !m.is_open()).unwrap_or(true) {
                h_obs.aux_call(&["CONFIG", "SET", "slowlog-log-slower-than", "0"])?;
                let mut m = h_obs.srv.as_ref().unwrap().connect().map_err(|e| format!("connect: {:?}", e))?;
                m.send(&resp::cmd(&["MONITOR"]));
                let _ = h_obs.srv.as_ref().unwrap().steps(3);
                monitor = Some((h_obs.restarts, m));
            }
            if let Some((_, m)) = monitor.as_mut() {
                m.poll();
                m.buf.clear();
            }
            Ok(())
        };
        if let Some(r) = task.get("replay") {
            if let Some(i) = r["matrix_index"].as_u64() {
                let cases = matrix_cases(r["thorough"].as_bool().unwrap_or(false));
                if let Some(c) = cases.get(i as usize) {
                    if r["observed"].as_bool().unwrap_or(false) {
                        return (match watch(&mut h_obs).and_then(|_| run_matrix_case(&mut h_obs, i as usize, c)) {
                            Ok((o, d)) => json!({"outcome": o, "detail": d}),
                            Err(e) => json!({"machinery_error": e}),
                        }, false);
                    }
                    return (match run_matrix_case(&mut h, i as usize, c) {
                        Ok((o, d)) => json!({"outcome": o, "detail": d}),
                        Err(e) => json!({"machinery_error": e}),
                    }, false);
                }
            }
            return (json!({"note": "replay: re-run the check; the case is in the file"}), false);
        }
        if let Some(range) = task.get("matrix") {
            let cases = matrix_cases(thorough);
            let (a, b) = (range[0].as_u64().unwrap_or(0) as usize, range[1].as_u64().unwrap_or(0) as usize);
            let mut recs = Vec::new();
            let mut errors = Vec::new();
            let observed = task["observed"].as_bool().unwrap_or(false);
            for i in a..b.min(cases.len()) {
                io.announce_case(json!({"matrix": i, "cmd": resp::show_cmd(&cases[i].cmd), "observed": observed}));
                if observed && matches!(cases[i].name.as_str(), "MONITOR" | "CLIENT" | "CONFIG" | "SLOWLOG") {
                    // these talk about the watchers themselves
                    continue;
                }
                let r = if observed { watch(&mut h_obs).and_then(|_| run_matrix_case(&mut h_obs, i, &cases[i])) } else { run_matrix_case(&mut h, i, &cases[i]) };
                match r {
                    Ok((o, d)) => recs.push(json!({"i": i, "outcome": o, "detail": d})),
                    Err(e) => errors.push(format!("case {}{}: {}", i, if observed { " (observed)" } else { "" }, e)),
                }
            }
            return (json!({"recs": recs, "errors": errors}), h.restarts > 100 || h_obs.restarts > 100);
        }
        if task.get("segments").is_some() {
            return (match segment_task(&mut h, &task["segments"]) {
                Ok(v) => v,
                Err(e) => json!({"errors": [e]}),
            }, h.restarts > 100);
        }
        if task.get("violations").is_some() {
            return (match violation_task(&mut h) {
                Ok(v) => v,
                Err(e) => json!({"errors": [e]}),
            }, false);
        }
        (json!({"errors": ["unknown task"]}), false)
    }
}

pub fn parent(tier: &str) -> i32 {
    let thorough = tier == "thorough";
    let mut report = RunReport::new("C05", tier, "exploration");
    let pool = Pool::new("C05", tier, super::e1common::nworkers());
    let cases = matrix_cases(thorough);
    let mut tasks: Vec<Value> = Vec::new();
    let chunk = 40;
    let mut i = 0;
    while i < cases.len() {
        tasks.push(json!({"matrix": [i, (i + chunk).min(cases.len())]}));
        i += chunk;
    }
    i = 0;
    while i < cases.len() {
        tasks.push(json!({"matrix": [i, (i + chunk).min(cases.len())], "observed": true}));
        i += chunk;
    }
    let nmatrix = tasks.len();
    // pipelines
    let pl = pipelines(if thorough { 3 } else { 2 });
    for c in pl.chunks(if thorough { 24 } else { 8 }) {
        tasks.push(json!({"segments": {"pipelines": c, "max_cuts": 1, "all_if_len_le": 14}}));
    }
    if thorough {
        for c in pipelines(2).chunks(4) {
            tasks.push(json!({"segments": {"pipelines": c, "max_cuts": 2, "all_if_len_le": 14}}));
        }
    }
    tasks.push(json!({"violations": true}));
    let out = pool.map(tasks.clone(), 0);
    let mut evaluations = 0u64;
    let mut outcomes: BTreeSet<String> = BTreeSet::new();
    let mut nontrivial: BTreeSet<String> = BTreeSet::new();
    let mut samples: Vec<Value> = Vec::new();
    let mut seg_exec = 0u64;
    let mut observed_n = 0u64;
    let mut violation_summary = Vec::new();
    for (ti, (t, o)) in tasks.iter().zip(out.iter()).enumerate() {
        match o {
            Outcome::Done(v) => {
                for e in v["errors"].as_array().cloned().unwrap_or_default() {
                    report.machinery_errors.push(format!("{}", e));
                }
                if ti < nmatrix {
                    for r in v["recs"].as_array().cloned().unwrap_or_default() {
                        evaluations += 1;
                        let idx = r["i"].as_u64().unwrap_or(0) as usize;
                        let c = &cases[idx];
                        let outcome = r["outcome"].as_str().unwrap_or("").to_string();
                        let observed = t["observed"].as_bool().unwrap_or(false);
                        if observed {
                            observed_n += 1;
                        }
                        outcomes.insert(outcome.clone());
                        nontrivial.insert(format!("{}|{}|{}", c.name, c.variant, c.state));
                        if samples.len() < 3 && c.variant.starts_with("hostile") {
                            samples.push(r["detail"].clone());
                        }
                        if outcome != "ok" {
                            report.deviations.push(Deviation {
                                property: "C05".into(),
                                sig: format!("C05|MATRIX{}|{}|{}|{}|{}", if observed { "(observed)" } else { "" }, c.name, c.variant, cmdtable::key_states()[c.state].0, outcome),
                                replay: json!({"kind": "matrix", "matrix_index": idx, "thorough": thorough, "observed": observed, "detail": r["detail"]}),
                            });
                        }
                    }
                } else if t.get("segments").is_some() {
                    seg_exec += v["executions"].as_u64().unwrap_or(0);
                    for d in v["devs"].as_array().cloned().unwrap_or_default() {
                        report.deviations.push(Deviation { property: "C05".into(), sig: d["sig"].as_str().unwrap_or("").to_string(), replay: json!({"kind": "segmentation", "case": d}) });
                    }
                } else {
                    for c in v["cases"].as_array().cloned().unwrap_or_default() {
                        evaluations += 1;
                        let name = c["name"].as_str().unwrap_or("").to_string();
                        let outcome = c["outcome"].as_str().unwrap_or("").to_string();
                        violation_summary.push(json!({"case": name, "outcome": outcome}));
                        let fine = matches!(outcome.as_str(), "error-reply" | "in-order") || (matches!(name.as_str(), "empty array" | "null array") && outcome != "server-exited" && outcome != "garbage-bytes");
                        if !fine {
                            report.deviations.push(Deviation { property: "C05".into(), sig: format!("C05|PROTOCOL|{}|{}", name, outcome), replay: json!({"kind": "protocol", "case": c}) });
                        }
                    }
                }
            }
            Outcome::Died { status, case } => {
                // the worker process itself died (abort / exit): attribute to the announced case
                report.deviations.push(Deviation { property: "C05".into(), sig: format!("C05|PROCESS-DIED|{}", case.as_ref().map(|c| c["cmd"].as_str().unwrap_or("?").to_string()).unwrap_or_default()), replay: json!({"kind": "died", "status": status, "case": case}) });
            }
        }
    }
    if samples.is_empty() {
        samples.push(json!({"note": "no sample collected"}));
    }
    println!("  c05: matrix cases={} (of them {} with monitoring configured and a MONITOR client attached) segmentation executions={} distinct outcomes={:?}", evaluations, observed_n, seg_exec, outcomes);
    report.coverage = json!({
        "evaluations": evaluations + seg_exec,
        "distinct_nontrivial": nontrivial.len(),
        "rule": "finite products enumerated completely: (command name from the dispatch table incl. names scraped from the source) x (arity 0..max+2) x (argument class: example, non-numeric, CR/LF-bearing in each position) x (key state: missing + six types), each sent as ECHO m1, <cmd>, ECHO m2 in one write on a fresh connection; pipelines of 1-2 (thorough 3) commands from a 12-command mix x every segmentation with <= 1 (thorough 2) cuts, every segmentation of streams <= 14 bytes and the one-byte-at-a-time segmentation; 14 protocol violations; 1/2/10/1000 commands per read. A case is distinct by (command, variant, key state).",
        "samples": samples,
        "exhaustive": true,
        "matrix_cases": evaluations, "matrix_cases_observed": {"n": observed_n, "what": "the whole matrix a second time on a server with slow log, statistics and MONITOR support configured, slowlog-log-slower-than 0 and a MONITOR client attached (MONITOR, CLIENT, CONFIG, SLOWLOG themselves left out)"}, "segmentation_executions": seg_exec, "distinct_outcomes": outcomes.iter().cloned().collect::<Vec<_>>(),
        "protocol_violation_outcomes": violation_summary,
        "excluded_commands": cmdtable::TABLE.iter().filter_map(|(n, _)| cmdtable::excluded(n).map(|r| json!({"command": n, "reason": r}))).collect::<Vec<_>>(),
    });
    report.assumptions = vec![
        "loopback delivery is synchronous: bytes written before a loop iteration are visible to it (checked: a reply not seen after 4 further iterations is called missing)".into(),
        "SHUTDOWN (exits by design) and SYNC/PSYNC (hand the connection to replication) are exempt from the one-reply rule".into(),
    ];
    report.finish()
}
