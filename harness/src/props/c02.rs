//! C02 — expiration is exact: never early, never observable late, never spurious.
//! Part A: E1 under virtual time (clock actions are edges; every probe runs on its own replay because a
//! read may lazily delete). Part B: the sweeper's collect->delete window (E2, see `window_*`).

use super::e1common::{self, DataProp, SpecRun};
use crate::explore::dataworld::{b, cmd, Act, DataSpec, DataWorld};
use crate::explore::e1::World;
use crate::model::{Bytes, Model};

fn sv(v: &[&str]) -> Vec<Bytes> {
    v.iter().map(|x| b(x)).collect()
}

const MS: u64 = 1_000_000;

fn clock_acts(key: &str) -> Vec<Act> {
    vec![
        Act::TickRel { key: b(key), delta_ns: -(MS as i64) },
        Act::TickRel { key: b(key), delta_ns: MS as i64 },
        Act::Tick(999 * MS),
        Act::Tick(1000 * MS),
        Act::Tick(2000 * MS),
    ]
}

/// keys: `k` and `ab` share a shard (10), `k2` lives in another (8)
fn string_acts() -> Vec<Act> {
    let mut a = clock_acts("k");
    for c in [
        vec!["SET", "k", "v", "PX", "1000"], vec!["SETEX", "k", "2", "v"], vec!["PSETEX", "k", "1500", "v"], vec!["SET", "k", "v", "NX", "PX", "1000"], vec!["SET", "k", "w", "XX", "EX", "3"],
        vec!["SET", "k", "plain"], vec!["GETSET", "k", "gs"], vec!["MSET", "k", "m"], vec!["APPEND", "k", "x"], vec!["SETRANGE", "k", "1", "Z"],
        vec!["SET", "k", "5", "PX", "1000"], vec!["INCR", "k"],
        vec!["EXPIRE", "k", "2"], vec!["PEXPIRE", "k", "1500"], vec!["EXPIRE", "k", "100"], vec!["PEXPIRE", "k", "500"], vec!["PERSIST", "k"], vec!["EXPIRE", "k", "0"], vec!["EXPIRE", "k", "-1"],
        vec!["RENAME", "k", "ab"], vec!["RENAME", "ab", "k"], vec!["RENAME", "k", "k2"], vec!["RENAME", "k2", "k"], vec!["DEL", "k"],
        vec!["SET", "ab", "z", "PX", "1000"], vec!["SET", "ab", "z"],
        // overwrites with the very bytes the key already holds (v, as written by the TTL-setting forms above): the TTL goes
        // all the same (a seeded 'nothing changes' shortcut in the engine kept the old entry, deadline included)
        vec!["GETSET", "k", "v"], vec!["MSET", "k", "v"], vec!["SET", "k", "v", "XX"],
    ] {
        a.push(cmd(&c));
    }
    a
}

fn string_probes(_m: &Model) -> Vec<Vec<Bytes>> {
    let mut p = Vec::new();
    for k in ["k", "ab", "k2"] {
        p.push(sv(&["GET", k]));
        p.push(sv(&["EXISTS", k]));
        p.push(sv(&["TYPE", k]));
        p.push(sv(&["TTL", k]));
        p.push(sv(&["PTTL", k]));
    }
    p.push(sv(&["STRLEN", "k"]));
    p.push(sv(&["GETRANGE", "k", "0", "-1"]));
    p.push(sv(&["MGET", "k", "ab"]));
    p.push(sv(&["KEYS", "*"]));
    p.push(sv(&["SCAN", "0", "COUNT", "100"]));
    p.push(sv(&["RANDOMKEY"]));
    p.push(sv(&["SET", "k", "n", "NX"]));
    p.push(sv(&["SET", "k", "n", "XX"]));
    p.push(sv(&["SETNX", "k", "n"]));
    p.push(sv(&["APPEND", "k", "zz"]));
    p.push(sv(&["INCR", "k"]));
    p.push(sv(&["GETSET", "k", "q"]));
    p.push(sv(&["RENAME", "k", "zz"]));
    p.push(sv(&["RENAMENX", "ab", "k"]));
    p.push(sv(&["EXPIRE", "k", "10"]));
    p.push(sv(&["PERSIST", "k"]));
    p.push(sv(&["DEL", "k"]));
    p.push(sv(&["LPUSH", "k", "x"]));
    p.push(sv(&["SADD", "k", "x"]));
    p
}

struct Family {
    create: Vec<Vec<&'static str>>,
    modify: Vec<Vec<&'static str>>,
    empty: Vec<Vec<&'static str>>,
    probes: Vec<Vec<&'static str>>,
}

fn family(name: &str) -> Family {
    match name {
        "list" => Family {
            create: vec![vec!["RPUSH", "k", "a"], vec!["RPUSH", "k", "a", "b"]],
            modify: vec![vec!["LPUSH", "k", "m"], vec!["LSET", "k", "0", "z"]],
            empty: vec![vec!["LPOP", "k"], vec!["LTRIM", "k", "1", "0"]],
            probes: vec![vec!["LLEN", "k"], vec!["LRANGE", "k", "0", "-1"], vec!["LINDEX", "k", "0"], vec!["RPUSH", "k", "p"], vec!["LPOP", "k"], vec!["LSET", "k", "0", "q"], vec!["LREM", "k", "0", "a"]],
        },
        "set" => Family {
            create: vec![vec!["SADD", "k", "a"], vec!["SADD", "k", "a", "b"]],
            modify: vec![vec!["SADD", "k", "m"]],
            empty: vec![vec!["SREM", "k", "a", "b", "m"], vec!["SPOP", "k", "9"]],
            probes: vec![vec!["SCARD", "k"], vec!["SMEMBERS", "k"], vec!["SISMEMBER", "k", "a"], vec!["SADD", "k", "a"], vec!["SREM", "k", "a"], vec!["SUNION", "k", "k2"], vec!["SINTER", "k", "k"], vec!["SRANDMEMBER", "k"]],
        },
        "hash" => Family {
            create: vec![vec!["HSET", "k", "f", "1"], vec!["HSET", "k", "f", "1", "g", "2"]],
            modify: vec![vec!["HSET", "k", "m", "3"], vec!["HINCRBY", "k", "f", "1"]],
            empty: vec![vec!["HDEL", "k", "f", "g", "m"]],
            probes: vec![vec!["HLEN", "k"], vec!["HGETALL", "k"], vec!["HGET", "k", "f"], vec!["HEXISTS", "k", "f"], vec!["HSET", "k", "f", "9"], vec!["HINCRBY", "k", "f", "1"], vec!["HDEL", "k", "f"], vec!["HKEYS", "k"]],
        },
        "zset" => Family {
            create: vec![vec!["ZADD", "k", "1", "a"], vec!["ZADD", "k", "1", "a", "2", "b"]],
            modify: vec![vec!["ZADD", "k", "3", "m"], vec!["ZINCRBY", "k", "1", "a"]],
            empty: vec![vec!["ZREM", "k", "a", "b", "m"], vec!["ZPOPMIN", "k", "9"]],
            probes: vec![vec!["ZCARD", "k"], vec!["ZRANGE", "k", "0", "-1", "WITHSCORES"], vec!["ZSCORE", "k", "a"], vec!["ZRANK", "k", "a"], vec!["ZADD", "k", "5", "a"], vec!["ZINCRBY", "k", "1", "a"], vec!["ZCOUNT", "k", "-inf", "+inf"], vec!["ZPOPMIN", "k"], vec!["ZREM", "k", "a"]],
        },
        _ => Family {
            create: vec![vec!["XADD", "k", "1-1", "f", "v"], vec!["XADD", "k", "2-1", "f", "v"]],
            modify: vec![vec!["XADD", "k", "5-1", "g", "w"]],
            empty: vec![vec!["XTRIM", "k", "MAXLEN", "0"], vec!["XDEL", "k", "1-1", "2-1", "5-1"]],
            probes: vec![vec!["XLEN", "k"], vec!["XRANGE", "k", "-", "+"], vec!["XADD", "k", "9-1", "p", "q"], vec!["XADD", "k", "1-1", "p", "q"], vec!["XREAD", "STREAMS", "k", "0-0"], vec!["XDEL", "k", "1-1"]],
        },
    }
}

fn coll_acts(fam: &str) -> Vec<Act> {
    let f = family(fam);
    let mut a = clock_acts("k");
    for c in f.create.iter().chain(f.modify.iter()).chain(f.empty.iter()) {
        a.push(cmd(c));
    }
    for c in [
        vec!["EXPIRE", "k", "2"], vec!["PEXPIRE", "k", "1500"], vec!["EXPIRE", "k", "100"], vec!["PEXPIRE", "k", "500"], vec!["PERSIST", "k"],
        vec!["RENAME", "k", "ab"], vec!["RENAME", "ab", "k"], vec!["RENAME", "k", "k2"], vec!["RENAME", "k2", "k"], vec!["DEL", "k"], vec!["SET", "k", "str"], vec!["SET", "ab", "z", "PX", "1000"],
    ] {
        a.push(cmd(&c));
    }
    a
}

fn coll_probes(fam: &'static str) -> Box<dyn Fn(&Model) -> Vec<Vec<Bytes>>> {
    Box::new(move |_m: &Model| {
        let f = family(fam);
        let mut p: Vec<Vec<Bytes>> = f.probes.iter().map(|c| sv(c)).collect();
        for k in ["k", "ab", "k2"] {
            p.push(sv(&["EXISTS", k]));
            p.push(sv(&["TYPE", k]));
            p.push(sv(&["TTL", k]));
            p.push(sv(&["PTTL", k]));
        }
        p.push(sv(&["KEYS", "*"]));
        p.push(sv(&["SCAN", "0", "COUNT", "100"]));
        p.push(sv(&["RANDOMKEY"]));
        p.push(sv(&["SET", "k", "n", "NX"]));
        p.push(sv(&["SET", "k", "n", "XX"]));
        p.push(sv(&["GET", "k"]));
        p.push(sv(&["RENAME", "k", "zz"]));
        p.push(sv(&["EXPIRE", "k", "10"]));
        p.push(sv(&["PERSIST", "k"]));
        p.push(sv(&["DEL", "k"]));
        p
    })
}

// ------------------------------------------------------------------ Part B: the sweeper's window

const WINDOW_TYPES: [&str; 6] = ["string", "list", "set", "hash", "zset", "stream"];

fn create_cmd(fam: &str) -> Vec<&'static str> {
    if fam == "string" {
        vec!["SET", "k", "v"]
    } else {
        family(fam).create[0].clone()
    }
}

/// fixed layout: [0..S) setup commands, then SweepOpen, SweepClose, then the window menu
fn window_layout(fam: &str) -> (Vec<Act>, Vec<Vec<usize>>, usize, usize, Vec<usize>) {
    let mut acts: Vec<Act> = Vec::new();
    let mut add = |a: Act, acts: &mut Vec<Act>| -> usize {
        acts.push(a);
        acts.len() - 1
    };
    let create = add(cmd(&create_cmd(fam)), &mut acts);
    let pexp = add(cmd(&["PEXPIRE", "k", "500"]), &mut acts);
    let by = add(cmd(&["SET", "ab", "z"]), &mut acts);
    let by_ttl = add(cmd(&["SET", "ab", "z", "PX", "100000"]), &mut acts);
    let s_px = add(cmd(&["SET", "k", "v", "PX", "500"]), &mut acts);
    let s_plain = add(cmd(&["SET", "k", "plain"]), &mut acts);
    let setups = vec![vec![create, pexp, by], vec![s_px, s_plain, by], vec![create, pexp, by_ttl], vec![by_ttl, create, pexp]];
    let open = add(Act::SweepOpen, &mut acts);
    let close = add(Act::SweepClose, &mut acts);
    let mut menu = Vec::new();
    for c in [
        vec!["PERSIST", "k"], vec!["EXPIRE", "k", "100"], vec!["SET", "k", "v2"], vec!["SET", "k", "v2", "EX", "100"], vec!["GETSET", "k", "g"], vec!["DEL", "k"],
        vec!["RENAME", "ab", "k"], vec!["RENAME", "k", "ab"], vec!["PEXPIRE", "k", "100000"], vec!["PERSIST", "ab"], vec!["EXPIRE", "ab", "100"], vec!["SET", "k", "w", "NX", "PX", "100000"],
    ] {
        menu.push(add(cmd(&c), &mut acts));
    }
    menu.push(add(cmd(&create_cmd(fam)), &mut acts));
    if fam != "string" {
        let f = family(fam);
        menu.push(add(cmd(&f.modify[0]), &mut acts));
        menu.push(add(cmd(&f.empty[0]), &mut acts));
    } else {
        menu.push(add(cmd(&["APPEND", "k", "x"]), &mut acts));
        menu.push(add(cmd(&["INCR", "k"]), &mut acts));
    }
    (acts, setups, open, close, menu)
}

fn window_histories(fam: &str, bound: usize) -> Vec<Vec<usize>> {
    let (_acts, setups, open, close, menu) = window_layout(fam);
    let mut out = Vec::new();
    for s in setups.iter() {
        // no client command: the sweeper alone
        let mut h = s.clone();
        h.extend([open, close]);
        out.push(h);
        for &m in menu.iter() {
            // inside the window, before the pass, after the pass
            let mut h = s.clone();
            h.extend([open, m, close]);
            out.push(h);
            let mut h = s.clone();
            h.extend([m, open, close]);
            out.push(h);
            let mut h = s.clone();
            h.extend([open, close, m]);
            out.push(h);
            if bound >= 2 {
                for &m2 in menu.iter() {
                    let mut h = s.clone();
                    h.extend([open, m, m2, close]);
                    out.push(h);
                }
            }
        }
    }
    out
}

fn window_probes(fam: &'static str) -> Box<dyn Fn(&Model) -> Vec<Vec<Bytes>>> {
    if fam == "string" {
        Box::new(string_probes)
    } else {
        coll_probes(fam)
    }
}

fn leak(s: &str) -> &'static str {
    WINDOW_TYPES.iter().find(|t| **t == s).copied().unwrap_or("string")
}

pub fn make_world(spec: &str) -> Option<Box<dyn World>> {
    if let Some(fam) = spec.strip_prefix("c02-window-") {
        let fam = leak(fam);
        let (acts, _, _, _, _) = window_layout(fam);
        return Some(Box::new(DataWorld::new(DataSpec {
            prop: "C02".into(), acts, probes: window_probes(fam), uses_time: true, isolated_probes: true,
            invariants: None, cross: None, db: 0, destructive_probes: None, on_reset: None,
        })));
    }
    let (acts, probes): (Vec<Act>, Box<dyn Fn(&Model) -> Vec<Vec<Bytes>>>) = match spec {
        "c02-string" => (string_acts(), Box::new(string_probes)),
        "c02-list" => (coll_acts("list"), coll_probes("list")),
        "c02-set" => (coll_acts("set"), coll_probes("set")),
        "c02-hash" => (coll_acts("hash"), coll_probes("hash")),
        "c02-zset" => (coll_acts("zset"), coll_probes("zset")),
        "c02-stream" => (coll_acts("stream"), coll_probes("stream")),
        _ => return None,
    };
    Some(Box::new(DataWorld::new(DataSpec {
        prop: "C02".into(), acts, probes, uses_time: true, isolated_probes: true,
        invariants: None, cross: None, db: 0, destructive_probes: None, on_reset: None,
    })))
}

fn prop() -> DataProp {
    let mk = |spec: &'static str, dq: usize, dt: usize| SpecRun { spec, depth_quick: dq, depth_thorough: dt, budget_quick_s: 12.0, budget_thorough_s: 900.0 };
    DataProp {
        id: "C02",
        specs: vec![mk("c02-string", 3, 4), mk("c02-list", 3, 4), mk("c02-set", 3, 4), mk("c02-hash", 3, 4), mk("c02-zset", 3, 4), mk("c02-stream", 3, 4)],
        make_world,
        assumptions: {
            let mut a = e1common::std_assumptions();
            a.push("the exactly-at-deadline instant is not probed (Redis itself uses now > when); TTL accepted as floor/nearest/ceil seconds, PTTL +-1 ms; DBSIZE is not used as an absence probe".into());
            a
        },
    }
}

// ------------------------------------------------------------------ Part C: commands that meet the sweeper's lock

/// commands left out of the contended differential, with the reason
fn contended_skip(name: &str) -> Option<&'static str> {
    match name {
        "SHUTDOWN" | "QUIT" | "SYNC" | "PSYNC" => Some("ends or hands over the connection"),
        "RANDOMKEY" | "SRANDMEMBER" | "SPOP" => Some("random outcome"),
        "INFO" | "CLIENT" | "SLOWLOG" | "LASTSAVE" | "MEMORY" | "TIME" | "COMMAND" | "DEBUG" | "MONITOR" => Some("reply depends on real time, connection ids or addresses"),
        "SAVE" | "BGSAVE" | "BGREWRITEAOF" | "SLEEP" => Some("starts a thread or sleeps"),
        "BLPOP" | "BRPOP" => Some("blocks when the key has nothing"),
        "DBSIZE" => Some("counts keys whose deadline passed until they are removed (as Redis does)"),
        "AUTH" | "REPLICAOF" | "SLAVEOF" | "REPLCONF" => Some("not a data command"),
        _ => None,
    }
}

/// a reply as text; the replies whose order is the hash table's as a multiset of leaves
pub fn shown_reply(name: &str, r: &crate::resp::R) -> String {
    use crate::resp;
    let unordered = matches!(name.to_uppercase().as_str(), "HKEYS" | "HVALS" | "HGETALL" | "SMEMBERS" | "SDIFF" | "SUNION" | "SINTER" | "KEYS" | "SCAN" | "HSCAN" | "SSCAN" | "ZSCAN");
    if !unordered {
        return resp::show(r);
    }
    fn leaves(r: &crate::resp::R, out: &mut Vec<String>) {
        match r {
            crate::resp::R::Arr(v) => v.iter().for_each(|x| leaves(x, out)),
            other => out.push(crate::resp::show(other)),
        }
    }
    let mut l = Vec::new();
    leaves(r, &mut l);
    l.sort();
    format!("{{{}}}", l.join(" "))
}

thread_local! {
    static CONT_H: std::cell::RefCell<Option<super::c05::Harness>> = const { std::cell::RefCell::new(None) };
}

/// One command, sent on a fresh connection after a key of k's shard has passed its deadline and the clock has reached the
/// sweeper's next pass. `contend`: the sweeper is parked holding the shard's write lock when the command arrives and is let
/// go 30 ms (real time) later; otherwise it has finished its pass. Returns the reply and what the data looks like afterwards.
fn contended_run(h: &mut super::c05::Harness, state: usize, cmdv: &[String], contend: bool) -> Result<(String, Vec<String>, bool), String> {
    use crate::{gate, resp, vtime};
    use ferrous::verif_hooks::SWEEP_LOCKED;
    h.ensure()?;
    h.seed_state(state)?;
    let storage = h.srv.as_ref().unwrap().h.storage.clone();
    let want = storage.verif_shard_of(b"k");
    let victim = (0..10_000).map(|i| format!("t{}", i)).find(|n| storage.verif_shard_of(n.as_bytes()) == want).ok_or("no victim name")?;
    h.aux_call(&["SET", victim.as_str(), "v", "PX", "5"])?;
    if contend {
        gate::set_park_background_only(true);
        gate::set_park_points(&[SWEEP_LOCKED]);
    }
    let mut parked = false;
    for _ in 0..3 {
        match vtime::next_wake() {
            Some(w) => vtime::advance_to(w.max(vtime::mono_ns() + 6_000_000)).map_err(|_| "settle timeout waiting for the sweeper".to_string())?,
            None => break,
        }
        if !contend {
            break;
        }
        if gate::parked().iter().any(|p| p.point == SWEEP_LOCKED) {
            parked = true;
            break;
        }
    }
    if contend && !parked {
        gate::set_park_points(&[]);
        gate::release_all();
        return Err("the sweeper never took the shard lock".into());
    }
    let releaser = if contend {
        Some(std::thread::Builder::new().name("releaser".into()).spawn(|| {
            vtime::mark_free_running();
            vtime::real_sleep_us(30_000);
            gate::set_park_points(&[]);
            gate::release_all();
        }).map_err(|e| format!("spawn: {}", e))?)
    } else {
        None
    };
    let reply = {
        let srv = h.srv.as_ref().unwrap();
        let r = srv.connect().map_err(|e| format!("connect: {:?}", e)).and_then(|mut c| {
            let r = srv.call(&mut c, cmdv).map(|r| shown_reply(&cmdv[0], &r)).unwrap_or_else(|e| format!("<{:?}>", e));
            c.close();
            let _ = srv.steps(2);
            Ok(r)
        });
        r
    };
    if let Some(t) = releaser {
        let _ = t.join();
    }
    gate::set_park_points(&[]);
    gate::release_all();
    vtime::settle().map_err(|_| "settle timeout after the sweeper was released".to_string())?;
    let reply = reply?;
    let mut after = Vec::new();
    for db in ["0", "1"] {
        h.aux_call(&["SELECT", db])?;
        let mut keys: Vec<String> = match h.aux_call(&["KEYS", "*"])? {
            resp::R::Arr(v) => v.iter().map(|x| resp::show(x)).collect(),
            other => vec![resp::show(&other)],
        };
        keys.sort();
        after.push(format!("db{} keys {}", db, keys.join(" ")));
        for k in ["k", "k2"] {
            let t = resp::show(&h.aux_call(&["TYPE", k])?);
            let ttl = match h.aux_call(&["PTTL", k])? {
                resp::R::Int(n) if n > 0 => "ttl".to_string(),
                other => resp::show(&other),
            };
            let read: Vec<&str> = match t.trim_start_matches('+') {
                "string" => vec!["GET", k],
                "list" => vec!["LRANGE", k, "0", "-1"],
                "set" => vec!["SMEMBERS", k],
                "hash" => vec!["HGETALL", k],
                "zset" => vec!["ZRANGE", k, "0", "-1", "WITHSCORES"],
                "stream" => vec!["XRANGE", k, "-", "+"],
                _ => vec!["EXISTS", k],
            };
            let r = h.aux_call(&read)?;
            let v = match (&r, read[0]) {
                (resp::R::Arr(items), "SMEMBERS") => {
                    let mut parts: Vec<String> = items.iter().map(resp::show).collect();
                    parts.sort();
                    parts.join(" ")
                }
                (resp::R::Arr(items), "HGETALL") => {
                    let mut parts: Vec<String> = items.chunks(2).map(|p| p.iter().map(resp::show).collect::<Vec<_>>().join("=")).collect();
                    parts.sort();
                    parts.join(" ")
                }
                _ => resp::show(&r),
            };
            after.push(format!("db{} {} {} {} {}", db, k, t, ttl, v));
        }
    }
    h.aux_call(&["SELECT", "0"])?;
    Ok((reply, after, parked))
}

fn contended_cases() -> Vec<(usize, Vec<String>)> {
    let states = super::cmdtable::key_states();
    let mut out = Vec::new();
    for (name, args) in super::cmdtable::all_commands() {
        if contended_skip(&name).is_some() || super::cmdtable::excluded(&name).is_some() {
            continue;
        }
        for s in 0..states.len() {
            let mut c = vec![name.clone()];
            c.extend(args.iter().cloned());
            out.push((s, c));
        }
    }
    out
}

/// Times to live too large for the clocks (the largest i64, and values whose milliseconds or nanoseconds overflow): a
/// command that accepts one must leave the key alive - right away, and after ten seconds and a sweeper pass - with its
/// value intact; one that refuses it must leave the key as it was (a seeded overflow fallback turned "too far to
/// represent" into "now": the key vanished at once). 7 key states x 8 commands x 4 values.
fn huge_ttl_family() -> serde_json::Value {
    use crate::resp::{self, R};
    use serde_json::json;
    let mut h = super::c05::Harness::new(crate::srv::SrvOpts::default());
    let states = super::cmdtable::key_states();
    let bigs = ["9223372036854775807", "9223372036854775", "9223372036000000000", "18446744073709551"];
    let mut recs = Vec::new();
    let mut errors: Vec<String> = Vec::new();
    let mut n = 0u64;
    let mut accepted = 0u64;
    for (si, (sname, _)) in states.iter().enumerate() {
        for big in bigs.iter() {
            let cmds: Vec<Vec<&str>> = vec![vec!["EXPIRE", "k", big], vec!["PEXPIRE", "k", big], vec!["SET", "k", "v", "EX", big], vec!["SET", "k", "v", "PX", big], vec!["SETEX", "k", big, "v"], vec!["PSETEX", "k", big, "v"],
                vec!["SET", "k", "v", "NX", "EX", big], vec!["SET", "k", "v", "XX", "EX", big]];
            for (ci, c) in cmds.iter().enumerate() {
                for short_first in [false, true] {
                    n += 1;
                    let mut run = || -> Result<Option<String>, String> {
                        h.ensure()?;
                        h.seed_state(si)?;
                        if short_first && si != 0 {
                            h.aux_call(&["PEXPIRE", "k", "300"])?;
                        }
                        let before = resp::show(&h.aux_call(&["EXISTS", "k"])?);
                        let r = h.aux_call(c)?;
                        let took = match &r {
                            R::Int(1) => true,
                            R::Simple(_) => true,
                            _ => false,
                        };
                        if !took {
                            // refused (or a condition not met): the key is as it was
                            let after = resp::show(&h.aux_call(&["EXISTS", "k"])?);
                            return Ok(if after != before { Some(format!("refused-with-{}-but-the-key-changed", resp::class(&r))) } else { None });
                        }
                        accepted += 1;
                        if h.aux_call(&["EXISTS", "k"])? != R::Int(1) {
                            return Ok(Some("accepted-and-the-key-is-gone-at-once".into()));
                        }
                        crate::vtime::tick(10_000_000_000).map_err(|_| "settle timeout during tick".to_string())?;
                        if h.aux_call(&["EXISTS", "k"])? != R::Int(1) {
                            return Ok(Some("accepted-and-the-key-is-gone-ten-seconds-later".into()));
                        }
                        match h.aux_call(&["TTL", "k"])? {
                            R::Int(t) if t == -1 || t > 1_000_000 => Ok(None),
                            other => Ok(Some(format!("accepted-and-TTL-reports-{}", resp::show(&other)))),
                        }
                    };
                    match run() {
                        Ok(Some(p)) => recs.push(json!({"state": sname, "command": c.join(" "), "short_ttl_first": short_first, "problem": p, "class": format!("{}|{}", ["EXPIRE", "PEXPIRE", "SET EX", "SET PX", "SETEX", "PSETEX", "SET NX EX", "SET XX EX"][ci], p)})),
                        Ok(None) => {}
                        Err(e) => {
                            errors.push(format!("{} on {}: {}", c.join(" "), sname, e));
                            h.srv = None;
                            h.aux = None;
                        }
                    }
                }
            }
        }
    }
    json!({"huge": {"cases": n, "accepted": accepted, "recs": recs, "errors": errors}})
}

fn contended_extra(_tier: &str, task: &serde_json::Value, io: &mut crate::pool::WorkerIo) -> Option<serde_json::Value> {
    use serde_json::json;
    if task.get("hugettl").is_some() || task.get("replay").map(|r| r["kind"].as_str() == Some("hugettl")).unwrap_or(false) {
        return Some(huge_ttl_family());
    }
    let (a, b) = if let Some(r) = task.get("contended") {
        (r[0].as_u64().unwrap_or(0) as usize, r[1].as_u64().unwrap_or(0) as usize)
    } else if task.get("replay").map(|r| r["kind"].as_str() == Some("contended")).unwrap_or(false) {
        let i = task["replay"]["i"].as_u64().unwrap_or(0) as usize;
        (i, i + 1)
    } else {
        return None;
    };
    let cases = contended_cases();
    let states = super::cmdtable::key_states();
    let mut recs = Vec::new();
    let mut errors = Vec::new();
    let mut held = 0u64;
    let mut n = 0u64;
    let mut sample = serde_json::Value::Null;
    CONT_H.with(|cell| {
        let mut slot = cell.borrow_mut();
        if slot.is_none() {
            *slot = Some(super::c05::Harness::new(crate::srv::SrvOpts::default()));
        }
        for i in a..b.min(cases.len()) {
            let (st, cmdv) = &cases[i];
            if i % 16 == 0 {
                io.announce_case(json!({"contended": i}));
            }
            let h = slot.as_mut().unwrap();
            let base = contended_run(h, *st, cmdv, false);
            let cont = base.as_ref().ok().map(|_| contended_run(h, *st, cmdv, true));
            match (base, cont) {
                (Ok(bv), Some(Ok(cv))) => {
                    n += 1;
                    if cv.2 {
                        held += 1;
                    }
                    let differs = bv.0 != cv.0 || bv.1 != cv.1;
                    let d = json!({"key_state": states[*st].0, "command": cmdv.join(" "), "reply_after_the_pass": bv.0, "reply_against_the_held_lock": cv.0,
                        "data_after_the_pass": bv.1, "data_against_the_held_lock": cv.1});
                    if differs {
                        recs.push(json!({"i": i, "what": if bv.0 != cv.0 { "reply-differs" } else { "data-differs" }, "detail": d}));
                    } else if sample.is_null() && cmdv[0] == "LPUSH" {
                        sample = d;
                    }
                }
                (Err(e), _) | (_, Some(Err(e))) => {
                    errors.push(format!("contended case {} ({} on {}): {}", i, cmdv.join(" "), states[*st].0, e));
                    crate::gate::set_park_points(&[]);
                    crate::gate::release_all();
                    *slot = Some(super::c05::Harness::new(crate::srv::SrvOpts::default()));
                }
                _ => {}
            }
        }
    });
    Some(json!({"contended_recs": recs, "errors": errors, "n": n, "held": held, "sample": sample}))
}

fn contended_parent(pool: &crate::pool::Pool, _tier: &str, report: &mut crate::report::RunReport) -> serde_json::Value {
    use serde_json::json;
    let cases = contended_cases();
    let states = super::cmdtable::key_states();
    let chunk = (cases.len() / 28).max(8);
    let mut tasks = Vec::new();
    let mut a = 0;
    while a < cases.len() {
        tasks.push(json!({"contended": [a, (a + chunk).min(cases.len())]}));
        a += chunk;
    }
    let mut n = 0u64;
    let mut held = 0u64;
    let mut differing = 0u64;
    let mut sample = serde_json::Value::Null;
    for o in pool.map(tasks, 0) {
        match o {
            crate::pool::Outcome::Done(v) => {
                for e in v["errors"].as_array().cloned().unwrap_or_default() {
                    report.machinery_errors.push(format!("{}", e));
                }
                n += v["n"].as_u64().unwrap_or(0);
                held += v["held"].as_u64().unwrap_or(0);
                if sample.is_null() && !v["sample"].is_null() {
                    sample = v["sample"].clone();
                }
                for r in v["contended_recs"].as_array().cloned().unwrap_or_default() {
                    differing += 1;
                    let i = r["i"].as_u64().unwrap_or(0) as usize;
                    let (st, cmdv) = &cases[i];
                    report.deviations.push(crate::report::Deviation {
                        property: "C02".into(),
                        sig: format!("C02|contended|{}|state={}|{}", cmdv[0], states[*st].0, r["what"].as_str().unwrap_or("")),
                        replay: json!({"kind": "contended", "i": i, "detail": r["detail"]}),
                    });
                }
            }
            crate::pool::Outcome::Died { status, case } => report.machinery_errors.push(format!("worker died: {} {:?}", status, case)),
        }
    }
    println!("  c02-contended: commands-against-a-held-shard-lock={} (lock really held in {}) differing-from-the-uncontended-run={}", n, held, differing);
    if n > 0 && held < n {
        report.machinery_errors.push(format!("the sweeper held the shard lock in only {} of {} contended runs", held, n));
    }
    let skipped: Vec<String> = super::cmdtable::all_commands().iter().filter_map(|(name, _)| contended_skip(name).map(|why| format!("{}: {}", name, why))).collect();
    json!({"commands_against_a_held_shard_lock": {"pairs_of_runs": n, "lock_really_held": held, "differing": differing, "sample": sample, "left_out": skipped,
        "what": "every command of the dispatch table (plausible arguments on key k, some also k2) x 7 states of k (missing, one per type), each run twice on a fresh dataset: a key of k's shard is given a 5 ms deadline and the clock moved to the sweeper's next pass; in one run the pass completes before the command is sent, in the other the sweeper is parked at SWEEP_LOCKED holding the shard's write lock when the command arrives and is released 30 ms of real time later. Reply and the data afterwards (KEYS *, type, TTL class and full content of k and k2 in databases 0 and 1) must be the same in both runs."}})
}

fn window_parent(pool: &crate::pool::Pool, tier: &str, report: &mut crate::report::RunReport) -> serde_json::Value {
    let bound = if tier == "thorough" { 2 } else { 1 };
    let mut total_exec = 0u64;
    let mut total_probes = 0u64;
    let mut outcomes = 0usize;
    let mut samples = Vec::new();
    let mut opened = 0u64;
    let mut not_opened = 0u64;
    for fam in WINDOW_TYPES.iter() {
        let spec = format!("c02-window-{}", fam);
        let hists = window_histories(fam, bound);
        let (e, p, o, s, all_obs) = crate::explore::e1::run_scripted(pool, &spec, hists, report);
        total_exec += e;
        total_probes += p;
        outcomes += o;
        samples.extend(s.into_iter().take(1));
        for obs in all_obs {
            if obs.iter().any(|x| x == "sweep-open:true") {
                opened += 1;
            } else {
                not_opened += 1;
            }
        }
    }
    println!("  c02-window: schedules={} probes={} window-opened={} distinct-observation-sequences={}", total_exec, total_probes, opened, outcomes);
    if opened == 0 {
        report.machinery_errors.push("vacuity: the sweeper never parked between its collect and delete phases".into());
    }
    serde_json::json!({"sweeper_window": {"schedules": total_exec, "probe_evaluations": total_probes, "client_commands_placed_bound": bound,
        "schedules_with_sweeper_parked_between_collect_and_delete": opened, "schedules_where_nothing_was_collected": not_opened,
        "distinct_observation_sequences": outcomes, "samples": samples}})
}

fn extras_parent(pool: &crate::pool::Pool, tier: &str, report: &mut crate::report::RunReport) -> serde_json::Value {
    let mut w = window_parent(pool, tier, report);
    let mut c = contended_parent(pool, tier, report);
    match &pool.map(vec![serde_json::json!({"hugettl": true})], 0)[0] {
        crate::pool::Outcome::Done(v) => {
            let hv = &v["huge"];
            for e in hv["errors"].as_array().cloned().unwrap_or_default() {
                report.machinery_errors.push(format!("huge TTL: {}", e));
            }
            for r in hv["recs"].as_array().cloned().unwrap_or_default() {
                report.deviations.push(crate::report::Deviation { property: "C02".into(), sig: format!("C02|HUGE-TTL|{}|state={}", r["class"].as_str().unwrap_or(""), r["state"].as_str().unwrap_or("")), replay: serde_json::json!({"kind": "hugettl", "case": r}) });
            }
            println!("  c02-huge-ttl: cases={} accepted={} with-a-problem={}", hv["cases"], hv["accepted"], hv["recs"].as_array().map(|a| a.len()).unwrap_or(0));
            if let Some(m) = c.as_object_mut() {
                m.insert("times_to_live_too_large_for_the_clocks".into(), serde_json::json!({"cases": hv["cases"], "accepted_by_the_server": hv["accepted"], "what": "7 key states x {EXPIRE, PEXPIRE, SET EX, SET PX, SETEX, PSETEX, SET NX EX, SET XX EX} x 4 values (largest i64; values whose ms / ns overflow) x {plain, after a 300 ms TTL}: accepted => the key is alive at once and after 10 s and a sweeper pass, TTL reports -1 or a distant time; refused => the key is as it was"}));
            }
        }
        crate::pool::Outcome::Died { status, .. } => report.machinery_errors.push(format!("huge-TTL worker died: {}", status)),
    }
    if let (Some(wm), Some(cm)) = (w.as_object_mut(), c.as_object()) {
        for (k, v) in cm.iter() {
            wm.insert(k.clone(), v.clone());
        }
    }
    w
}

pub fn parent(tier: &str) -> i32 {
    e1common::data_parent(&prop(), tier, Some(&extras_parent))
}

pub fn handle_factory() -> impl FnMut(&str, &serde_json::Value, &mut crate::pool::WorkerIo) -> (serde_json::Value, bool) {
    e1common::data_handle_factory(make_world, Some(contended_extra))
}
