//! C02 — expiration is exact: never early, never observable late, never spurious.
//! Part A: E1 under virtual time (clock actions are edges; every probe runs on its own replay because a
//! read may lazily delete). Part B: the sweeper's collect->delete window (E2, see `window_*`).

use super::e1common::{self, DataProp, SpecRun};
use crate::explore::dataworld::{b, cmd, Act, DataSpec, DataWorld};
use crate::explore::e1::World;
use crate::model::{Bytes, Model};

fn sv(v: &[&str]) -> Vec<Bytes> {
    v.iter().map(|x| b(x)).collect()
}

const MS: u64 = 1_000_000;

fn clock_acts(key: &str) -> Vec<Act> {
    vec![
        Act::TickRel { key: b(key), delta_ns: -(MS as i64) },
        Act::TickRel { key: b(key), delta_ns: MS as i64 },
        Act::Tick(999 * MS),
        Act::Tick(1000 * MS),
        Act::Tick(2000 * MS),
    ]
}

/// keys: `k` and `ab` share a shard (10), `k2` lives in another (8)
fn string_acts() -> Vec<Act> {
    let mut a = clock_acts("k");
    for c in [
        vec!["SET", "k", "v", "PX", "1000"], vec!["SETEX", "k", "2", "v"], vec!["PSETEX", "k", "1500", "v"], vec!["SET", "k", "v", "NX", "PX", "1000"], vec!["SET", "k", "w", "XX", "EX", "3"],
        vec!["SET", "k", "plain"], vec!["GETSET", "k", "gs"], vec!["MSET", "k", "m"], vec!["APPEND", "k", "x"], vec!["SETRANGE", "k", "1", "Z"],
        vec!["SET", "k", "5", "PX", "1000"], vec!["INCR", "k"],
        vec!["EXPIRE", "k", "2"], vec!["PEXPIRE", "k", "1500"], vec!["EXPIRE", "k", "100"], vec!["PEXPIRE", "k", "500"], vec!["PERSIST", "k"], vec!["EXPIRE", "k", "0"], vec!["EXPIRE", "k", "-1"],
        vec!["RENAME", "k", "ab"], vec!["RENAME", "ab", "k"], vec!["RENAME", "k", "k2"], vec!["RENAME", "k2", "k"], vec!["DEL", "k"],
        vec!["SET", "ab", "z", "PX", "1000"], vec!["SET", "ab", "z"],
    ] {
        a.push(cmd(&c));
    }
    a
}

fn string_probes(_m: &Model) -> Vec<Vec<Bytes>> {
    let mut p = Vec::new();
    for k in ["k", "ab", "k2"] {
        p.push(sv(&["GET", k]));
        p.push(sv(&["EXISTS", k]));
        p.push(sv(&["TYPE", k]));
        p.push(sv(&["TTL", k]));
        p.push(sv(&["PTTL", k]));
    }
    p.push(sv(&["STRLEN", "k"]));
    p.push(sv(&["GETRANGE", "k", "0", "-1"]));
    p.push(sv(&["MGET", "k", "ab"]));
    p.push(sv(&["KEYS", "*"]));
    p.push(sv(&["SCAN", "0", "COUNT", "100"]));
    p.push(sv(&["RANDOMKEY"]));
    p.push(sv(&["SET", "k", "n", "NX"]));
    p.push(sv(&["SET", "k", "n", "XX"]));
    p.push(sv(&["SETNX", "k", "n"]));
    p.push(sv(&["APPEND", "k", "zz"]));
    p.push(sv(&["INCR", "k"]));
    p.push(sv(&["GETSET", "k", "q"]));
    p.push(sv(&["RENAME", "k", "zz"]));
    p.push(sv(&["RENAMENX", "ab", "k"]));
    p.push(sv(&["EXPIRE", "k", "10"]));
    p.push(sv(&["PERSIST", "k"]));
    p.push(sv(&["DEL", "k"]));
    p.push(sv(&["LPUSH", "k", "x"]));
    p.push(sv(&["SADD", "k", "x"]));
    p
}

struct Family {
    create: Vec<Vec<&'static str>>,
    modify: Vec<Vec<&'static str>>,
    empty: Vec<Vec<&'static str>>,
    probes: Vec<Vec<&'static str>>,
}

fn family(name: &str) -> Family {
    match name {
        "list" => Family {
            create: vec![vec!["RPUSH", "k", "a"], vec!["RPUSH", "k", "a", "b"]],
            modify: vec![vec!["LPUSH", "k", "m"], vec!["LSET", "k", "0", "z"]],
            empty: vec![vec!["LPOP", "k"], vec!["LTRIM", "k", "1", "0"]],
            probes: vec![vec!["LLEN", "k"], vec!["LRANGE", "k", "0", "-1"], vec!["LINDEX", "k", "0"], vec!["RPUSH", "k", "p"], vec!["LPOP", "k"], vec!["LSET", "k", "0", "q"], vec!["LREM", "k", "0", "a"]],
        },
        "set" => Family {
            create: vec![vec!["SADD", "k", "a"], vec!["SADD", "k", "a", "b"]],
            modify: vec![vec!["SADD", "k", "m"]],
            empty: vec![vec!["SREM", "k", "a", "b", "m"], vec!["SPOP", "k", "9"]],
            probes: vec![vec!["SCARD", "k"], vec!["SMEMBERS", "k"], vec!["SISMEMBER", "k", "a"], vec!["SADD", "k", "a"], vec!["SREM", "k", "a"], vec!["SUNION", "k", "k2"], vec!["SINTER", "k", "k"], vec!["SRANDMEMBER", "k"]],
        },
        "hash" => Family {
            create: vec![vec!["HSET", "k", "f", "1"], vec!["HSET", "k", "f", "1", "g", "2"]],
            modify: vec![vec!["HSET", "k", "m", "3"], vec!["HINCRBY", "k", "f", "1"]],
            empty: vec![vec!["HDEL", "k", "f", "g", "m"]],
            probes: vec![vec!["HLEN", "k"], vec!["HGETALL", "k"], vec!["HGET", "k", "f"], vec!["HEXISTS", "k", "f"], vec!["HSET", "k", "f", "9"], vec!["HINCRBY", "k", "f", "1"], vec!["HDEL", "k", "f"], vec!["HKEYS", "k"]],
        },
        "zset" => Family {
            create: vec![vec!["ZADD", "k", "1", "a"], vec!["ZADD", "k", "1", "a", "2", "b"]],
            modify: vec![vec!["ZADD", "k", "3", "m"], vec!["ZINCRBY", "k", "1", "a"]],
            empty: vec![vec!["ZREM", "k", "a", "b", "m"], vec!["ZPOPMIN", "k", "9"]],
            probes: vec![vec!["ZCARD", "k"], vec!["ZRANGE", "k", "0", "-1", "WITHSCORES"], vec!["ZSCORE", "k", "a"], vec!["ZRANK", "k", "a"], vec!["ZADD", "k", "5", "a"], vec!["ZINCRBY", "k", "1", "a"], vec!["ZCOUNT", "k", "-inf", "+inf"], vec!["ZPOPMIN", "k"], vec!["ZREM", "k", "a"]],
        },
        _ => Family {
            create: vec![vec!["XADD", "k", "1-1", "f", "v"], vec!["XADD", "k", "2-1", "f", "v"]],
            modify: vec![vec!["XADD", "k", "5-1", "g", "w"]],
            empty: vec![vec!["XTRIM", "k", "MAXLEN", "0"], vec!["XDEL", "k", "1-1", "2-1", "5-1"]],
            probes: vec![vec!["XLEN", "k"], vec!["XRANGE", "k", "-", "+"], vec!["XADD", "k", "9-1", "p", "q"], vec!["XADD", "k", "1-1", "p", "q"], vec!["XREAD", "STREAMS", "k", "0-0"], vec!["XDEL", "k", "1-1"]],
        },
    }
}

fn coll_acts(fam: &str) -> Vec<Act> {
    let f = family(fam);
    let mut a = clock_acts("k");
    for c in f.create.iter().chain(f.modify.iter()).chain(f.empty.iter()) {
        a.push(cmd(c));
    }
    for c in [
        vec!["EXPIRE", "k", "2"], vec!["PEXPIRE", "k", "1500"], vec!["EXPIRE", "k", "100"], vec!["PEXPIRE", "k", "500"], vec!["PERSIST", "k"],
        vec!["RENAME", "k", "ab"], vec!["RENAME", "ab", "k"], vec!["RENAME", "k", "k2"], vec!["RENAME", "k2", "k"], vec!["DEL", "k"], vec!["SET", "k", "str"], vec!["SET", "ab", "z", "PX", "1000"],
    ] {
        a.push(cmd(&c));
    }
    a
}

fn coll_probes(fam: &'static str) -> Box<dyn Fn(&Model) -> Vec<Vec<Bytes>>> {
    Box::new(move |_m: &Model| {
        let f = family(fam);
        let mut p: Vec<Vec<Bytes>> = f.probes.iter().map(|c| sv(c)).collect();
        for k in ["k", "ab", "k2"] {
            p.push(sv(&["EXISTS", k]));
            p.push(sv(&["TYPE", k]));
            p.push(sv(&["TTL", k]));
            p.push(sv(&["PTTL", k]));
        }
        p.push(sv(&["KEYS", "*"]));
        p.push(sv(&["SCAN", "0", "COUNT", "100"]));
        p.push(sv(&["RANDOMKEY"]));
        p.push(sv(&["SET", "k", "n", "NX"]));
        p.push(sv(&["SET", "k", "n", "XX"]));
        p.push(sv(&["GET", "k"]));
        p.push(sv(&["RENAME", "k", "zz"]));
        p.push(sv(&["EXPIRE", "k", "10"]));
        p.push(sv(&["PERSIST", "k"]));
        p.push(sv(&["DEL", "k"]));
        p
    })
}

// ------------------------------------------------------------------ Part B: the sweeper's window

const WINDOW_TYPES: [&str; 6] = ["string", "list", "set", "hash", "zset", "stream"];

fn create_cmd(fam: &str) -> Vec<&'static str> {
    if fam == "string" {
        vec!["SET", "k", "v"]
    } else {
        family(fam).create[0].clone()
    }
}

/// fixed layout: [0..S) setup commands, then SweepOpen, SweepClose, then the window menu
fn window_layout(fam: &str) -> (Vec<Act>, Vec<Vec<usize>>, usize, usize, Vec<usize>) {
    let mut acts: Vec<Act> = Vec::new();
    let mut add = |a: Act, acts: &mut Vec<Act>| -> usize {
        acts.push(a);
        acts.len() - 1
    };
    let create = add(cmd(&create_cmd(fam)), &mut acts);
    let pexp = add(cmd(&["PEXPIRE", "k", "500"]), &mut acts);
    let by = add(cmd(&["SET", "ab", "z"]), &mut acts);
    let by_ttl = add(cmd(&["SET", "ab", "z", "PX", "100000"]), &mut acts);
    let s_px = add(cmd(&["SET", "k", "v", "PX", "500"]), &mut acts);
    let s_plain = add(cmd(&["SET", "k", "plain"]), &mut acts);
    let setups = vec![vec![create, pexp, by], vec![s_px, s_plain, by], vec![create, pexp, by_ttl], vec![by_ttl, create, pexp]];
    let open = add(Act::SweepOpen, &mut acts);
    let close = add(Act::SweepClose, &mut acts);
    let mut menu = Vec::new();
    for c in [
        vec!["PERSIST", "k"], vec!["EXPIRE", "k", "100"], vec!["SET", "k", "v2"], vec!["SET", "k", "v2", "EX", "100"], vec!["GETSET", "k", "g"], vec!["DEL", "k"],
        vec!["RENAME", "ab", "k"], vec!["RENAME", "k", "ab"], vec!["PEXPIRE", "k", "100000"], vec!["PERSIST", "ab"], vec!["EXPIRE", "ab", "100"], vec!["SET", "k", "w", "NX", "PX", "100000"],
    ] {
        menu.push(add(cmd(&c), &mut acts));
    }
    menu.push(add(cmd(&create_cmd(fam)), &mut acts));
    if fam != "string" {
        let f = family(fam);
        menu.push(add(cmd(&f.modify[0]), &mut acts));
        menu.push(add(cmd(&f.empty[0]), &mut acts));
    } else {
        menu.push(add(cmd(&["APPEND", "k", "x"]), &mut acts));
        menu.push(add(cmd(&["INCR", "k"]), &mut acts));
    }
    (acts, setups, open, close, menu)
}

fn window_histories(fam: &str, bound: usize) -> Vec<Vec<usize>> {
    let (_acts, setups, open, close, menu) = window_layout(fam);
    let mut out = Vec::new();
    for s in setups.iter() {
        // no client command: the sweeper alone
        let mut h = s.clone();
        h.extend([open, close]);
        out.push(h);
        for &m in menu.iter() {
            // inside the window, before the pass, after the pass
            let mut h = s.clone();
            h.extend([open, m, close]);
            out.push(h);
            let mut h = s.clone();
            h.extend([m, open, close]);
            out.push(h);
            let mut h = s.clone();
            h.extend([open, close, m]);
            out.push(h);
            if bound >= 2 {
                for &m2 in menu.iter() {
                    let mut h = s.clone();
                    h.extend([open, m, m2, close]);
                    out.push(h);
                }
            }
        }
    }
    out
}

fn window_probes(fam: &'static str) -> Box<dyn Fn(&Model) -> Vec<Vec<Bytes>>> {
    if fam == "string" {
        Box::new(string_probes)
    } else {
        coll_probes(fam)
    }
}

fn leak(s: &str) -> &'static str {
    WINDOW_TYPES.iter().find(|t| **t == s).copied().unwrap_or("string")
}

pub fn make_world(spec: &str) -> Option<Box<dyn World>> {
    if let Some(fam) = spec.strip_prefix("c02-window-") {
        let fam = leak(fam);
        let (acts, _, _, _, _) = window_layout(fam);
        return Some(Box::new(DataWorld::new(DataSpec {
            prop: "C02".into(), acts, probes: window_probes(fam), uses_time: true, isolated_probes: true,
            invariants: None, cross: None, db: 0, destructive_probes: None, on_reset: None,
        })));
    }
    let (acts, probes): (Vec<Act>, Box<dyn Fn(&Model) -> Vec<Vec<Bytes>>>) = match spec {
        "c02-string" => (string_acts(), Box::new(string_probes)),
        "c02-list" => (coll_acts("list"), coll_probes("list")),
        "c02-set" => (coll_acts("set"), coll_probes("set")),
        "c02-hash" => (coll_acts("hash"), coll_probes("hash")),
        "c02-zset" => (coll_acts("zset"), coll_probes("zset")),
        "c02-stream" => (coll_acts("stream"), coll_probes("stream")),
        _ => return None,
    };
    Some(Box::new(DataWorld::new(DataSpec {
        prop: "C02".into(), acts, probes, uses_time: true, isolated_probes: true,
        invariants: None, cross: None, db: 0, destructive_probes: None, on_reset: None,
    })))
}

fn prop() -> DataProp {
    let mk = |spec: &'static str, dq: usize, dt: usize| SpecRun { spec, depth_quick: dq, depth_thorough: dt, budget_quick_s: 12.0, budget_thorough_s: 900.0 };
    DataProp {
        id: "C02",
        specs: vec![mk("c02-string", 3, 4), mk("c02-list", 3, 4), mk("c02-set", 3, 4), mk("c02-hash", 3, 4), mk("c02-zset", 3, 4), mk("c02-stream", 3, 4)],
        make_world,
        assumptions: {
            let mut a = e1common::std_assumptions();
            a.push("the exactly-at-deadline instant is not probed (Redis itself uses now > when); TTL accepted as floor/nearest/ceil seconds, PTTL +-1 ms; DBSIZE is not used as an absence probe".into());
            a
        },
    }
}

fn window_parent(pool: &crate::pool::Pool, tier: &str, report: &mut crate::report::RunReport) -> serde_json::Value {
    let bound = if tier == "thorough" { 2 } else { 1 };
    let mut total_exec = 0u64;
    let mut total_probes = 0u64;
    let mut outcomes = 0usize;
    let mut samples = Vec::new();
    let mut opened = 0u64;
    let mut not_opened = 0u64;
    for fam in WINDOW_TYPES.iter() {
        let spec = format!("c02-window-{}", fam);
        let hists = window_histories(fam, bound);
        let (e, p, o, s, all_obs) = crate::explore::e1::run_scripted(pool, &spec, hists, report);
        total_exec += e;
        total_probes += p;
        outcomes += o;
        samples.extend(s.into_iter().take(1));
        for obs in all_obs {
            if obs.iter().any(|x| x == "sweep-open:true") {
                opened += 1;
            } else {
                not_opened += 1;
            }
        }
    }
    println!("  c02-window: schedules={} probes={} window-opened={} distinct-observation-sequences={}", total_exec, total_probes, opened, outcomes);
    if opened == 0 {
        report.machinery_errors.push("vacuity: the sweeper never parked between its collect and delete phases".into());
    }
    serde_json::json!({"sweeper_window": {"schedules": total_exec, "probe_evaluations": total_probes, "client_commands_placed_bound": bound,
        "schedules_with_sweeper_parked_between_collect_and_delete": opened, "schedules_where_nothing_was_collected": not_opened,
        "distinct_observation_sequences": outcomes, "samples": samples}})
}

pub fn parent(tier: &str) -> i32 {
    e1common::data_parent(&prop(), tier, Some(&window_parent))
}

pub fn handle_factory() -> impl FnMut(&str, &serde_json::Value, &mut crate::pool::WorkerIo) -> (serde_json::Value, bool) {
    e1common::data_handle_factory(make_world, None)
}
