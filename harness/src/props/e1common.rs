//! Shared parent/worker plumbing for the E1-based properties.

use crate::explore::e1::{self, E1Config, E1Stats, World};
use crate::pool::{Pool, WorkerIo};
use crate::report::RunReport;
use serde_json::{json, Value};
use std::collections::HashMap;

pub struct SpecRun {
    pub spec: &'static str,
    pub depth_quick: usize,
    pub depth_thorough: usize,
    pub budget_quick_s: f64,
    pub budget_thorough_s: f64,
}

pub fn nworkers() -> usize {
    std::env::var("VERIF_WORKERS").ok().and_then(|s| s.parse().ok()).unwrap_or(16)
}

/// run several E1 searches and merge their statistics into the report's coverage
pub fn run_specs(pool: &Pool, tier: &str, specs: &[SpecRun], report: &mut RunReport) -> Vec<(String, E1Stats)> {
    let mut all = Vec::new();
    for s in specs {
        let cfg = E1Config {
            spec: s.spec.to_string(),
            max_depth: if tier == "thorough" { s.depth_thorough } else { s.depth_quick },
            budget_s: if tier == "thorough" { s.budget_thorough_s } else { s.budget_quick_s },
            chunk: 24,
            max_frontier: 400_000,
        };
        if cfg.max_depth == 0 {
            continue;
        }
        let st = e1::run(pool, &cfg, report);
        println!("  {}: states={} transitions={} probes={} depth={}{}{} outcomes={}", s.spec, st.states, st.transitions, st.probes, st.completed_depth,
            if st.saturated { " (saturated)" } else { "" },
            st.capped.as_ref().map(|c| format!(" CAP: {}", c)).unwrap_or_default(), st.distinct_outcomes);
        all.push((s.spec.to_string(), st));
    }
    all
}

pub fn merge_coverage(report: &mut RunReport, all: &[(String, E1Stats)], extra: Value) {
    let states: u64 = all.iter().map(|(_, s)| s.states).sum();
    let transitions: u64 = all.iter().map(|(_, s)| s.transitions).sum();
    let executions: u64 = all.iter().map(|(_, s)| s.executions).sum();
    let exhaustive = all.iter().all(|(_, s)| s.capped.is_none());
    let mut samples: Vec<Value> = Vec::new();
    for (name, s) in all {
        for x in s.samples.iter().take(3) {
            samples.push(json!({"search": name, "case": x}));
        }
    }
    if samples.is_empty() {
        samples.push(json!({"note": "no state was explored"}));
    }
    let mut cov = json!({
        "states": states.max(1),
        "transitions": transitions.max(1),
        "traces_validated_against_impl": executions,
        "samples": samples,
        "exhaustive": exhaustive,
        "searches": all.iter().map(|(n, s)| { let mut j = s.to_json(); j["name"] = json!(n); j }).collect::<Vec<_>>(),
        "explanation": "explicit-state BFS; transition function = the real server driven over TCP under a gated event loop; every explored trace is an execution of the implementation; exhaustive up to the completed depth of each search",
    });
    if let (Some(o), Some(e)) = (cov.as_object_mut(), extra.as_object()) {
        for (k, v) in e {
            o.insert(k.clone(), v.clone());
        }
    }
    report.coverage = cov;
}

/// worker side: worlds are created lazily per spec name and reused across tasks
pub struct Worlds {
    make: fn(&str) -> Option<Box<dyn World>>,
    cache: HashMap<String, Box<dyn World>>,
}

impl Worlds {
    pub fn new(make: fn(&str) -> Option<Box<dyn World>>) -> Worlds {
        Worlds { make, cache: HashMap::new() }
    }
    pub fn handle(&mut self, task: &Value, io: &mut WorkerIo) -> (Value, bool) {
        let spec = task["spec"].as_str().unwrap_or("").to_string();
        if !self.cache.contains_key(&spec) {
            match (self.make)(&spec) {
                Some(w) => {
                    self.cache.insert(spec.clone(), w);
                }
                None => return (json!({"recs": [], "errors": [format!("unknown spec {}", spec)]}), false),
            }
        }
        let w = self.cache.get_mut(&spec).unwrap();
        let v = e1::worker_task(w.as_mut(), task, io);
        let recycle = w.wants_recycle();
        (v, recycle)
    }
}

/// A property that is decided by a set of E1 searches (plus optional extra in-process sweeps)
pub struct DataProp {
    pub id: &'static str,
    pub specs: Vec<SpecRun>,
    pub make_world: fn(&str) -> Option<Box<dyn World>>,
    pub assumptions: Vec<String>,
}

pub fn data_parent(p: &DataProp, tier: &str, extra: Option<&dyn Fn(&Pool, &str, &mut RunReport) -> Value>) -> i32 {
    let mut report = RunReport::new(p.id, tier, "model_checking");
    let pool = Pool::new(p.id, tier, nworkers());
    let all = run_specs(&pool, tier, &p.specs, &mut report);
    let ex = match extra {
        Some(f) => f(&pool, tier, &mut report),
        None => json!({}),
    };
    merge_coverage(&mut report, &all, ex);
    report.assumptions = p.assumptions.clone();
    report.finish()
}

pub fn data_handle_factory(make_world: fn(&str) -> Option<Box<dyn World>>, extra: Option<fn(&str, &Value, &mut WorkerIo) -> Option<Value>>) -> impl FnMut(&str, &Value, &mut WorkerIo) -> (Value, bool) {
    let mut worlds = Worlds::new(make_world);
    move |tier: &str, task: &Value, io: &mut WorkerIo| {
        if let Some(r) = task.get("replay") {
            if r["kind"].as_str() == Some("e1") {
                return (crate::props::e1common_replay(make_world, r), false);
            }
        }
        if let Some(f) = extra {
            if let Some(v) = f(tier, task, io) {
                return (v, false);
            }
        }
        worlds.handle(task, io)
    }
}

pub fn std_assumptions() -> Vec<String> {
    vec![
        "reference semantics as written in /verif/SEMANTICS.md (Redis 7.x), replies compared in normal form (any error = any error, null array = empty array, unordered replies as multisets)".into(),
        "bounded: all histories up to the completed depth over the listed alphabets; nothing is claimed beyond".into(),
        "the virtual clock owns time; the event loop is released one iteration at a time; connection ids and skip-list levels are owned where they matter".into(),
    ]
}
