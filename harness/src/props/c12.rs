//! C12 — scripts are atomic and redis.call means the same as the direct command.
//! (a) differential over the complete command alphabets of the C01/C02/C03/C04/C15/C16 searches: at every
//!     state reached by a history, every command is run directly and - on a fresh replay of the same history -
//!     through redis.call, redis.pcall and EVALSHA; reply (after the RESP->Lua->RESP conversion) and resulting
//!     dataset must agree;
//! (b) contract probes, exhaustive over small finite spaces: KEYS/ARGV byte-for-byte (every byte, every byte
//!     pair), return shapes, error/pcall semantics, persistence of effects before an error, forbidden commands,
//!     the sandbox (a walk of _G);
//! (c) atomicity: every round schedule of a three-call script (also fragmented, also failing half-way)
//!     against a reader and a writer.

use crate::explore::e1::World;
use crate::pool::{Outcome, Pool, WorkerIo};
use crate::report::{Deviation, RunReport};
use crate::resp::{self, R};
use crate::srv::{Client, Srv, SrvOpts};
use crate::vtime;
use serde_json::{json, Value};
use std::collections::{BTreeMap, BTreeSet};

type Bytes = Vec<u8>;
const CALL: &str = "return redis.call(unpack(ARGV))";
const PCALL: &str = "return redis.pcall(unpack(ARGV))";
/// a failing redis.call in the middle: the script must stop there
const ABORT: &str = "redis.call('SET','c12:before','1') redis.call(unpack(ARGV)) redis.call('SET','c12:after','1') return 'end'";
pub const FORMS: [&str; 3] = ["call", "pcall", "evalsha"];
pub const SPECS: [&str; 14] = ["c01-core", "c03-list", "c03-set", "c03-hash", "c03-mixed", "c04-cmds", "c15-stream", "c16-core", "c02-string", "c02-list", "c02-zset", "c02-stream", "c01-full", "c16-full"];

fn b(s: &str) -> Bytes {
    s.as_bytes().to_vec()
}

pub fn world_for(spec: &str) -> Option<Box<dyn World>> {
    super::c01::make_world(spec)
        .or_else(|| super::c02::make_world(spec))
        .or_else(|| super::c03::make_world(spec))
        .or_else(|| super::c04::make_world(spec))
        .or_else(|| super::c15::make_world(spec))
        .or_else(|| super::c16::make_world(spec))
}

// ------------------------------------------------------------------ the conversion and the comparison

/// what a reply looks like after RESP -> Lua -> RESP (the standard conversion): nil forms collapse,
/// everything else is kept; `None` = don't care (integers a Lua 5.1 number cannot hold)
pub fn conv(r: &R) -> Option<R> {
    Some(match r {
        R::Nil | R::NilArr => R::Nil,
        R::Int(i) => {
            if i.unsigned_abs() > (1u64 << 53) {
                return None;
            }
            R::Int(*i)
        }
        R::Arr(v) => {
            let mut out = Vec::new();
            for x in v {
                out.push(conv(x)?);
            }
            R::Arr(out)
        }
        other => other.clone(),
    })
}

/// numbers that are wall-clock milliseconds of this history are printed relative to its epoch
fn rel_bytes(bs: &[u8], epoch: u64) -> Bytes {
    if epoch == 0 {
        return bs.to_vec();
    }
    let mut out = Vec::new();
    let mut i = 0;
    while i < bs.len() {
        if bs[i].is_ascii_digit() && (i == 0 || !bs[i - 1].is_ascii_digit()) {
            let mut j = i;
            while j < bs.len() && bs[j].is_ascii_digit() {
                j += 1;
            }
            let num = std::str::from_utf8(&bs[i..j]).ok().and_then(|s| s.parse::<u64>().ok());
            match num {
                Some(n) if n >= epoch && n < epoch + 100_000_000 => {
                    out.extend(format!("T+{}", n - epoch).into_bytes());
                }
                _ => out.extend_from_slice(&bs[i..j]),
            }
            i = j;
        } else {
            out.push(bs[i]);
            i += 1;
        }
    }
    out
}

pub fn rel(r: &R, epoch: u64) -> R {
    match r {
        R::Bulk(bs) => R::Bulk(rel_bytes(bs, epoch)),
        R::Simple(bs) => R::Simple(rel_bytes(bs, epoch)),
        R::Err(_) => R::Err(b("any")),
        R::Int(i) => {
            if epoch > 0 && *i >= 0 && (*i as u64) >= epoch && (*i as u64) < epoch + 100_000_000 {
                R::Bulk(format!("T+{}", *i as u64 - epoch).into_bytes())
            } else {
                R::Int(*i)
            }
        }
        R::Arr(v) => R::Arr(v.iter().map(|x| rel(x, epoch)).collect()),
        other => other.clone(),
    }
}

/// replies whose element order is not defined (sets, hashes, key listings, fields of a stream entry) are
/// compared as multisets; replies of commands with random outcomes only by shape
pub fn normalise(name: &str, r: &R) -> R {
    fn sort_arr(r: &R) -> R {
        match r {
            R::Arr(v) => {
                let mut v = v.clone();
                v.sort_by_key(|x| resp::show(x));
                R::Arr(v)
            }
            o => o.clone(),
        }
    }
    fn sort_pairs(r: &R) -> R {
        match r {
            R::Arr(v) if v.len() % 2 == 0 => {
                let mut pairs: Vec<(R, R)> = v.chunks(2).map(|p| (p[0].clone(), p[1].clone())).collect();
                pairs.sort_by_key(|p| resp::show(&p.0));
                R::Arr(pairs.into_iter().flat_map(|(a, z)| vec![a, z]).collect())
            }
            o => o.clone(),
        }
    }
    /// entries [[id, [f, v, ...]], ...] anywhere in the reply: sort the field pairs
    fn sort_entry_fields(r: &R) -> R {
        match r {
            R::Arr(v) => {
                if v.len() == 2 {
                    if let (R::Bulk(id), R::Arr(fv)) = (&v[0], &v[1]) {
                        if id.contains(&b'-') && fv.len() % 2 == 0 && fv.iter().all(|x| matches!(x, R::Bulk(_))) {
                            return R::Arr(vec![v[0].clone(), sort_pairs(&v[1])]);
                        }
                    }
                }
                R::Arr(v.iter().map(sort_entry_fields).collect())
            }
            o => o.clone(),
        }
    }
    fn shape(r: &R) -> R {
        match r {
            R::Bulk(_) => R::Bulk(b("<some member>")),
            R::Arr(v) => R::Arr(v.iter().map(shape).collect()),
            o => o.clone(),
        }
    }
    match name {
        "SMEMBERS" | "SUNION" | "SINTER" | "SDIFF" | "HKEYS" | "HVALS" | "KEYS" => sort_arr(r),
        "HGETALL" => sort_pairs(r),
        // groups and consumers are listed in no particular order
        "XINFO" => sort_arr(r),
        "XRANGE" | "XREVRANGE" | "XREAD" | "XREADGROUP" | "XCLAIM" | "XAUTOCLAIM" => sort_entry_fields(r),
        "SRANDMEMBER" | "SPOP" | "RANDOMKEY" => shape(r),
        // at the very instant of the deadline 0 and -2 are both acceptable (the instant itself is a don't-care everywhere)
        "TTL" | "PTTL" => match r {
            R::Int(0) | R::Int(-2) => R::Bulk(b("<gone or going>")),
            o => o.clone(),
        },
        "SCAN" | "SSCAN" | "HSCAN" | "ZSCAN" => match r {
            // [cursor, elements]: the elements of one page in any order (hash/zset pages are pairs)
            R::Arr(v) if v.len() == 2 => R::Arr(vec![v[0].clone(), if name == "SCAN" || name == "SSCAN" { sort_arr(&v[1]) } else { sort_pairs(&v[1]) }]),
            o => o.clone(),
        },
        _ => r.clone(),
    }
}

fn reply_class(direct: &R, script: &R) -> String {
    format!("direct={} script={}", resp::class(direct), resp::class(script))
}

// ------------------------------------------------------------------ (a) the differential

struct Run {
    reply: Result<R, String>,
    state: String,
    epoch: u64,
}

fn run_once(w: &mut Box<dyn World>, hist: &[usize], cmd: &[Bytes], form: Option<&str>) -> Result<Run, String> {
    w.reset()?;
    for &a in hist {
        let _ = w.apply(a)?;
    }
    let req: Vec<Bytes> = match form {
        None => cmd.to_vec(),
        Some("abort") => {
            let mut v = vec![b("EVAL"), b(ABORT), b("0")];
            v.extend(cmd.iter().cloned());
            v
        }
        Some("pcall") => {
            let mut v = vec![b("EVAL"), b(PCALL), b("0")];
            v.extend(cmd.iter().cloned());
            v
        }
        Some("evalsha") => {
            let sha = match w.raw_call(&[b("SCRIPT"), b("LOAD"), b(CALL)])? {
                R::Bulk(s) => s,
                o => return Err(format!("SCRIPT LOAD -> {}", resp::show(&o))),
            };
            let mut v = vec![b("EVALSHA"), sha, b("0")];
            v.extend(cmd.iter().cloned());
            v
        }
        _ => {
            // (the command name goes into redis.call in lower case here and as given in the other forms: names are
            // case-insensitive inside scripts as they are outside)
            let mut v = vec![b("EVAL"), b(CALL), b("0")];
            v.extend(cmd.iter().cloned());
            v[3] = v[3].to_ascii_lowercase();
            v
        }
    };
    let reply = w.raw_call(&req);
    let epoch = w.epoch_ms();
    let state = absolute_far_ids(&w.raw_state(), epoch);
    Ok(Run { reply, state, epoch })
}

/// the hook prints every stream id at or above the epoch relative to it; ids far away from the clock (explicit
/// ids such as u64::MAX) are constants and must be compared as such
pub fn absolute_far_ids(s: &str, epoch: u64) -> String {
    if epoch == 0 || !s.contains("T+") {
        return s.to_string();
    }
    let bs = s.as_bytes();
    let mut out = String::with_capacity(s.len());
    let mut i = 0;
    while i < bs.len() {
        if bs[i] == b'T' && i + 1 < bs.len() && bs[i + 1] == b'+' {
            let mut j = i + 2;
            while j < bs.len() && bs[j].is_ascii_digit() {
                j += 1;
            }
            match s[i + 2..j].parse::<u64>() {
                Ok(n) if n >= 100_000_000 => out.push_str(&format!("{}", n as u128 + epoch as u128)),
                _ => out.push_str(&s[i..j]),
            }
            i = j;
        } else {
            out.push(bs[i] as char);
            i += 1;
        }
    }
    out
}

fn cmd_class(cmd: &[Bytes]) -> String {
    let name = String::from_utf8_lossy(&cmd[0]).to_uppercase();
    let binary = cmd.iter().any(|a| std::str::from_utf8(a).is_err() || a.contains(&0));
    format!("{}{}", name, if binary { "(binary argument)" } else { "" })
}

/// The cursor commands with and without their options, on the collection keys of the alphabet (they are C19's subject and
/// in none of the data-type alphabets; a seeded script-path parser that started looking for SSCAN's options at the
/// cursor dropped MATCH and COUNT silently)
fn scan_forms(spec: &str) -> Vec<Vec<Bytes>> {
    let (cmd, keys): (&str, Vec<&str>) = if spec.contains("set") || spec == "c03-mixed" {
        ("SSCAN", vec!["s", "s2", "k"])
    } else if spec.contains("hash") {
        ("HSCAN", vec!["h", "k"])
    } else if spec.starts_with("c04") || spec.contains("zset") {
        ("ZSCAN", vec!["z", "k"])
    } else if spec.starts_with("c01") {
        ("SCAN", vec![""])
    } else {
        return Vec::new();
    };
    let mut out = Vec::new();
    for k in keys {
        let head: Vec<Bytes> = if cmd == "SCAN" { vec![b("SCAN"), b("0")] } else { vec![b(cmd), b(k), b("0")] };
        for opts in [vec![], vec!["MATCH", "a*"], vec!["COUNT", "1"], vec!["MATCH", "[a-m]*", "COUNT", "1"], vec!["COUNT", "100", "MATCH", "*"], vec!["MATCH"], vec!["COUNT", "x"]] {
            let mut c = head.clone();
            c.extend(opts.iter().map(|o| b(o)));
            out.push(c);
        }
        if cmd == "SCAN" {
            out.push(vec![b("SCAN"), b("0"), b("TYPE"), b("string")]);
            out.push(vec![b("SCAN"), b("0"), b("MATCH"), b("a*"), b("TYPE"), b("list"), b("COUNT"), b("1")]);
        }
    }
    out
}

/// all (history, command) cases of a spec whose index is congruent to part mod parts
fn differential(spec: &str, depth: usize, part: u64, parts: u64, forms: &[&str], io: &mut WorkerIo) -> Value {
    differential_filtered(spec, depth, part, parts, forms, &[], io)
}

/// `deepest_only`: at the states reached by histories of the full depth only these commands are compared (the others
/// were compared at the shallower states already); empty = no restriction
fn differential_filtered(spec: &str, depth: usize, part: u64, parts: u64, forms: &[&str], deepest_only: &[&str], io: &mut WorkerIo) -> Value {
    let mut w = match world_for(spec) {
        Some(w) => w,
        None => return json!({"errors": [format!("unknown spec {}", spec)]}),
    };
    let n = w.n_actions();
    let mut recs = Vec::new();
    let mut errors = Vec::new();
    let mut cases = 0u64;
    let mut runs = 0u64;
    let mut nontrivial = 0u64;
    let mut outcomes: BTreeSet<String> = BTreeSet::new();
    let mut hists: Vec<Vec<usize>> = vec![vec![]];
    for d in 1..=depth {
        let prev: Vec<Vec<usize>> = hists.iter().filter(|h| h.len() == d - 1).cloned().collect();
        for h in prev {
            for a in 0..n {
                let mut x = h.clone();
                x.push(a);
                hists.push(x);
            }
        }
    }
    let mut seen_states: BTreeSet<u128> = BTreeSet::new();
    let mut index = 0u64;
    // deep enumerations are split by history (every part replaying every history just to find its share of the
    // commands costs more than the comparisons themselves), shallow ones by (history, command)
    let by_history = depth >= 3;
    for (hi, h) in hists.iter().enumerate() {
        if by_history && (hi as u64) % parts != part {
            continue;
        }
        // the menu at this state (and skip histories that lead to a state already handled by this worker part)
        let menu = {
            if let Err(e) = w.reset() {
                errors.push(format!("reset: {}", e));
                continue;
            }
            let mut ok = true;
            for &a in h.iter() {
                if let Err(e) = w.apply(a) {
                    errors.push(format!("apply: {}", e));
                    ok = false;
                    break;
                }
            }
            if !ok {
                continue;
            }
            let fp = w.fingerprint().unwrap_or(0);
            if !seen_states.insert(fp) {
                continue;
            }
            let mut m = w.menu_here();
            m.extend(scan_forms(spec));
            m
        };
        for cmd in menu.iter() {
            index += 1;
            if !by_history && index % parts != part {
                continue;
            }
            if cases % 64 == 0 {
                io.announce_case(json!({"spec": spec, "history": h, "command": resp::show_cmd(cmd)}));
            }
            let name = String::from_utf8_lossy(&cmd[0]).to_uppercase();
            if matches!(name.as_str(), "EVAL" | "EVALSHA" | "SCRIPT" | "MULTI" | "EXEC" | "DISCARD" | "WATCH" | "UNWATCH" | "SELECT" | "BLPOP" | "BRPOP") {
                continue; // not data-type commands: forbidden inside scripts (checked in the contract probes)
            }
            if !deepest_only.is_empty() && h.len() == depth && !deepest_only.contains(&name.as_str()) {
                continue;
            }
            cases += 1;
            let direct = match run_once(&mut w, h, cmd, None) {
                Ok(r) => r,
                Err(e) => {
                    errors.push(format!("{} {:?} {}: {}", spec, h, resp::show_cmd(cmd), e));
                    continue;
                }
            };
            runs += 1;
            let d_reply = match &direct.reply {
                Ok(r) => r.clone(),
                Err(_) => continue, // the direct command itself got no reply: C05's subject
            };
            let before_state = {
                // a command with an effect makes the comparison of datasets non-trivial
                direct.state.clone()
            };
            // a command that fails directly must abort a script that calls it with redis.call in the middle
            // (whatever way the failure reaches the script engine: a seeded change that let failures delivered as
            // error replies pass went unnoticed while only 'return redis.call(...)' was compared)
            if d_reply.is_err() && forms.contains(&"call") {
                match run_once(&mut w, h, cmd, Some("abort")) {
                    Ok(s) => {
                        runs += 1;
                        let steps: Vec<String> = h.iter().map(|a| w.describe(*a)).collect();
                        let after = w.raw_call(&[b("EXISTS"), b("c12:after")]).unwrap_or(R::Nil);
                        let before = w.raw_call(&[b("EXISTS"), b("c12:before")]).unwrap_or(R::Nil);
                        let mut problems: Vec<&str> = Vec::new();
                        match &s.reply {
                            Ok(r) if r.is_err() => {}
                            Ok(_) => problems.push("script-continued-after-a-failing-redis.call"),
                            Err(_) => problems.push("no-reply-to-the-script"),
                        }
                        if after != R::Int(0) {
                            problems.push("script-continued-after-a-failing-redis.call");
                        }
                        if before != R::Int(1) {
                            problems.push("effect-before-the-failing-call-lost");
                        }
                        problems.dedup();
                        for pr in problems {
                            recs.push(json!({"spec": spec, "history": h, "steps": steps, "command": resp::show_cmd(cmd), "form": "call-in-the-middle", "class": cmd_class(cmd), "problem": pr,
                                "detail": {"direct": resp::show(&d_reply), "script": s.reply.as_ref().map(resp::show).unwrap_or_else(|e| e.clone())}}));
                        }
                    }
                    Err(e) => errors.push(format!("{} {:?} {} via abort: {}", spec, h, resp::show_cmd(cmd), e)),
                }
            }
            for form in forms.iter() {
                let s = match run_once(&mut w, h, cmd, Some(form)) {
                    Ok(r) => r,
                    Err(e) => {
                        errors.push(format!("{} {:?} {} via {}: {}", spec, h, resp::show_cmd(cmd), form, e));
                        continue;
                    }
                };
                runs += 1;
                let steps: Vec<String> = h.iter().map(|a| w.describe(*a)).collect();
                let s_reply = match &s.reply {
                    Ok(r) => r.clone(),
                    Err(e) => {
                        recs.push(json!({"spec": spec, "history": h, "steps": steps, "command": resp::show_cmd(cmd), "form": form, "class": cmd_class(cmd), "problem": "no-reply-to-the-script", "detail": {"error": e, "direct": resp::show(&d_reply)}}));
                        continue;
                    }
                };
                outcomes.insert(format!("{}:{}", resp::class(&d_reply), resp::class(&s_reply)));
                if !d_reply.is_err() {
                    nontrivial += 1;
                }
                let expected = conv(&d_reply).map(|e| normalise(&name, &rel(&e, direct.epoch)));
                let got = normalise(&name, &rel(&conv(&s_reply).unwrap_or_else(|| s_reply.clone()), s.epoch));
                let reply_ok = match &expected {
                    None => true,
                    Some(e) => *e == got,
                };
                if !reply_ok {
                    let kind = match (d_reply.is_err(), s_reply.is_err()) {
                        (true, false) => "direct-command-fails-but-the-script-succeeds".to_string(),
                        (false, true) => "direct-command-succeeds-but-the-script-fails".to_string(),
                        _ => match (&d_reply, &s_reply) {
                            (R::Simple(a), R::Bulk(z)) if a == z => "status-reply-comes-back-as-a-bulk-string".to_string(),
                            (R::Arr(a), R::Arr(z)) if a.iter().any(|x| matches!(x, R::Nil | R::NilArr)) && {
                                let cut = a.iter().position(|x| matches!(x, R::Nil | R::NilArr)).unwrap_or(0);
                                conv(&R::Arr(a[..cut].to_vec())).map(|c| rel(&c, direct.epoch)) == Some(rel(&conv(&R::Arr(z.clone())).unwrap_or(R::Nil), s.epoch))
                            } => "array-reply-cut-at-its-first-nil".to_string(),
                            _ => format!("reply-differs({})", reply_class(&d_reply, &s_reply)),
                        },
                    };
                    recs.push(json!({"spec": spec, "history": h, "steps": steps, "command": resp::show_cmd(cmd), "form": form, "class": cmd_class(cmd), "problem": kind,
                        "detail": {"direct": resp::show(&d_reply), "script": resp::show(&s_reply)}}));
                }
                // (which members SPOP takes is random: the datasets are comparable only when it took none)
                let random_effect = name == "SPOP" && match &d_reply {
                    R::Bulk(_) => true,
                    R::Arr(v) => !v.is_empty(),
                    _ => false,
                };
                if s.state != before_state && !random_effect {
                    recs.push(json!({"spec": spec, "history": h, "steps": steps, "command": resp::show_cmd(cmd), "form": form, "class": cmd_class(cmd), "problem": "dataset-differs",
                        "detail": {"direct": resp::show(&d_reply), "script": resp::show(&s_reply), "dataset_after_direct": clip(&direct.state), "dataset_after_script": clip(&s.state)}}));
                }
            }
        }
    }
    json!({"recs": recs, "errors": errors, "cases": cases, "runs": runs, "nontrivial": nontrivial, "states": seen_states.len(), "outcomes": outcomes.into_iter().collect::<Vec<_>>()})
}

pub fn clip(s: &str) -> String {
    if s.len() > 600 {
        format!("{}...", &s[..600])
    } else {
        s.to_string()
    }
}

// ------------------------------------------------------------------ (b) contract probes

struct Plain {
    srv: Srv,
    c: Client,
}

impl Plain {
    fn new() -> Result<Plain, String> {
        vtime::enable();
        let srv = Srv::start(&SrvOpts::default());
        let c = srv.connect().map_err(|e| format!("connect: {:?}", e))?;
        Ok(Plain { srv, c })
    }
    fn call(&mut self, args: &[Bytes]) -> Result<R, String> {
        if !self.c.is_open() {
            self.c = self.srv.connect().map_err(|e| format!("connect: {:?}", e))?;
        }
        self.srv.call(&mut self.c, args).map_err(|e| format!("{}: {:?}", resp::show_cmd(args), e))
    }
    fn calls(&mut self, args: &[&str]) -> Result<R, String> {
        let v: Vec<Bytes> = args.iter().map(|s| b(s)).collect();
        self.call(&v)
    }
}

/// KEYS and ARGV arrive byte for byte and come back byte for byte
fn bytes_probe(p: &mut Plain, from: usize, to: usize, pairs: bool) -> Result<(u64, Vec<Value>), String> {
    let mut n = 0u64;
    let mut recs = Vec::new();
    let mut check = |p: &mut Plain, v: Bytes, recs: &mut Vec<Value>| -> Result<(), String> {
        // through KEYS and through ARGV, returned and stored
        let r = p.call(&[b("EVAL"), b("return {KEYS[1], ARGV[1], #KEYS[1], #ARGV[1]}"), b("1"), v.clone(), v.clone()])?;
        let want = R::Arr(vec![R::Bulk(v.clone()), R::Bulk(v.clone()), R::Int(v.len() as i64), R::Int(v.len() as i64)]);
        if r != want {
            let which = match &r {
                R::Arr(a) if a.len() == 4 => {
                    let mut w = Vec::new();
                    if a[0] != R::Bulk(v.clone()) { w.push("KEYS-returned") }
                    if a[1] != R::Bulk(v.clone()) { w.push("ARGV-returned") }
                    if a[2] != R::Int(v.len() as i64) { w.push("KEYS-length") }
                    if a[3] != R::Int(v.len() as i64) { w.push("ARGV-length") }
                    w.join("+")
                }
                _ => "reply-shape".to_string(),
            };
            recs.push(json!({"problem": format!("bytes-altered({})", which), "class": byte_class(&v), "detail": {"sent": resp::show_bytes(&v), "reply": resp::show(&r)}}));
        }
        // stored through redis.call and read back directly
        let _ = p.calls(&["DEL", "probe"])?;
        let r = p.call(&[b("EVAL"), b("return redis.call('SET', KEYS[1], ARGV[1])"), b("1"), b("probe"), v.clone()])?;
        let g = p.calls(&["GET", "probe"])?;
        if g != R::Bulk(v.clone()) {
            recs.push(json!({"problem": "bytes-altered(stored-through-redis.call)", "class": byte_class(&v), "detail": {"sent": resp::show_bytes(&v), "set_reply": resp::show(&r), "stored": resp::show(&g)}}));
        }
        // a stored value read through redis.call and returned
        let _ = p.call(&[b("SET"), b("probe"), v.clone()])?;
        let r = p.call(&[b("EVAL"), b("return redis.call('GET', KEYS[1])"), b("1"), b("probe")])?;
        if r != R::Bulk(v.clone()) {
            recs.push(json!({"problem": "bytes-altered(read-through-redis.call)", "class": byte_class(&v), "detail": {"stored": resp::show_bytes(&v), "reply": resp::show(&r)}}));
        }
        Ok(())
    };
    for i in from..to {
        if pairs {
            let v = vec![(i / 256) as u8, (i % 256) as u8];
            check(p, v, &mut recs)?;
        } else {
            check(p, vec![i as u8], &mut recs)?;
        }
        n += 1;
    }
    Ok((n, recs))
}

fn byte_class(v: &[u8]) -> &'static str {
    if std::str::from_utf8(v).is_ok() {
        if v.contains(&0) { "NUL" } else if v.iter().any(|c| *c < 0x20) { "control" } else { "text" }
    } else {
        "invalid-utf8"
    }
}

/// script source -> expected reply (None = any error)
fn shapes() -> Vec<(&'static str, Option<R>)> {
    let i = |n: i64| R::Int(n);
    let bs = |s: &str| R::Bulk(b(s));
    vec![
        ("return nil", Some(R::Nil)), ("return", Some(R::Nil)), ("return true", Some(i(1))), ("return false", Some(R::Nil)),
        ("return 3", Some(i(3))), ("return -7", Some(i(-7))), ("return 3.7", Some(i(3))), ("return -0.5", Some(i(0))), ("return 3.99", Some(i(3))), ("return -3.99", Some(i(-3))),
        ("return 9007199254740992", Some(i(9007199254740992))), ("return 1e3", Some(i(1000))),
        ("return 's'", Some(bs("s"))), ("return ''", Some(bs(""))), ("return '3'", Some(bs("3"))), ("return 'a\\0b'", Some(R::Bulk(vec![b'a', 0, b'b']))), ("return 'a\\r\\nb'", Some(bs("a\r\nb"))),
        ("return {1,2}", Some(R::Arr(vec![i(1), i(2)]))), ("return {1,nil,3}", Some(R::Arr(vec![i(1)]))), ("return {}", Some(R::Arr(vec![]))), ("return {{}}", Some(R::Arr(vec![R::Arr(vec![])]))),
        ("return {1,{2,{3,'x'}}}", Some(R::Arr(vec![i(1), R::Arr(vec![i(2), R::Arr(vec![i(3), bs("x")])])]))), ("return {true,false,1.5,'s'}", Some(R::Arr(vec![i(1), R::Nil, i(1), bs("s")]))),
        ("return {a=1}", Some(R::Arr(vec![]))), ("return {1,2,a=3}", Some(R::Arr(vec![i(1), i(2)]))),
        ("return {ok='fine'}", Some(R::Simple(b("fine")))), ("return {err='my error'}", None),
        ("return redis.call('PING')", Some(R::Simple(b("PONG")))), ("return redis.call('SET','shape','1')", Some(R::Simple(b("OK")))), ("return redis.call('GET','nokey')", Some(R::Nil)),
        ("return redis.call('GET','nokey') == false", Some(i(1))), ("return type(redis.call('SET','shape','1'))", Some(bs("table"))), ("return redis.call('SET','shape','1').ok", Some(bs("OK"))),
        ("return type(redis.call('INCR','shapen'))", Some(bs("number"))), ("return type(redis.call('LRANGE','nolist',0,-1))", Some(bs("table"))), ("return #redis.call('LRANGE','nolist',0,-1)", Some(i(0))),
        ("return redis.call('LRANGE','nolist',0,-1)", Some(R::Arr(vec![]))), ("return redis.call('ECHO','x')", Some(bs("x"))),
        ("return tonumber(ARGV[1])", Some(R::Nil)), ("return #KEYS + #ARGV", Some(i(0))),
        ("error('boom')", None), ("return nosuchfunction()", None), ("this is not lua", None), ("return redis.call()", None), ("return redis.call('NOSUCHCOMMAND')", None),
        ("return redis.call('INCR')", None), ("local t = redis.pcall('NOSUCHCOMMAND'); return type(t)", Some(bs("table"))), ("local t = redis.pcall('NOSUCHCOMMAND'); return t.err ~= nil", Some(i(1))),
        ("return redis.pcall('NOSUCHCOMMAND')", None), ("local t = redis.pcall('INCR','shapelist'); return type(t) == 'table' and t.err ~= nil", Some(i(1))),
    ]
}

fn shapes_probe(p: &mut Plain) -> Result<(u64, Vec<Value>), String> {
    let mut recs = Vec::new();
    let mut n = 0u64;
    p.calls(&["FLUSHALL"])?;
    p.calls(&["RPUSH", "shapelist", "x"])?;
    for (src, want) in shapes() {
        n += 1;
        let r = p.call(&[b("EVAL"), b(src), b("0")])?;
        let ok = match &want {
            None => r.is_err(),
            Some(w) => conv(&r).map(|c| c == *w).unwrap_or(false),
        };
        if !ok {
            recs.push(json!({"problem": "return-value-conversion", "class": src, "detail": {"script": src, "expected": want.as_ref().map(resp::show).unwrap_or_else(|| "an error reply".into()), "reply": resp::show(&r)}}));
        }
        // EVALSHA of the loaded script behaves exactly like EVAL of its source
        if let Ok(R::Bulk(sha)) = p.call(&[b("SCRIPT"), b("LOAD"), b(src)]) {
            let r2 = p.call(&[b("EVALSHA"), sha, b("0")])?;
            let same = (r.is_err() && r2.is_err()) || r == r2;
            if !same {
                recs.push(json!({"problem": "evalsha-differs-from-eval", "class": src, "detail": {"script": src, "eval": resp::show(&r), "evalsha": resp::show(&r2)}}));
            }
        }
    }
    Ok((n, recs))
}

/// a failing redis.call aborts with an error and keeps earlier effects; redis.pcall lets the script go on
fn error_probe(p: &mut Plain) -> Result<(u64, Vec<Value>), String> {
    let mut recs = Vec::new();
    let mut n = 0u64;
    let failing: Vec<(&str, &str)> = vec![
        ("wrong type", "redis.FN('INCR', 'alist')"), ("unknown command", "redis.FN('NOSUCHCOMMAND')"), ("wrong arity", "redis.FN('GET')"), ("not an integer", "redis.FN('INCRBY', 'n', 'x')"),
        ("forbidden command", "redis.FN('BLPOP', 'alist', 0)"), ("syntax", "redis.FN('SET', 'k', 'v', 'BADOPTION')"),
    ];
    for (what, stmt) in failing.iter() {
        for f in ["call", "pcall"] {
            n += 1;
            p.calls(&["FLUSHALL"])?;
            p.calls(&["RPUSH", "alist", "x"])?;
            let script = format!("redis.call('SET', 'before', '1') local r = {} redis.call('SET', 'after', '1') return 'end'", stmt.replace("FN", f));
            let r = p.call(&[b("EVAL"), b(&script), b("0")])?;
            let before = p.calls(&["GET", "before"])?;
            let after = p.calls(&["GET", "after"])?;
            let alist = p.calls(&["LRANGE", "alist", "0", "-1"])?;
            let mut problems: Vec<&str> = Vec::new();
            if before != R::Bulk(b("1")) {
                problems.push("effect-before-the-error-lost");
            }
            if alist != R::Arr(vec![R::Bulk(b("x"))]) {
                problems.push("failing-command-had-an-effect");
            }
            if f == "call" {
                if !r.is_err() {
                    problems.push("failing-redis.call-did-not-end-in-an-error-reply");
                }
                if after != R::Nil {
                    problems.push("script-continued-after-a-failing-redis.call");
                }
            } else {
                if r != R::Bulk(b("end")) {
                    problems.push("script-did-not-continue-after-a-failing-redis.pcall");
                }
                if after != R::Bulk(b("1")) {
                    problems.push("script-did-not-continue-after-a-failing-redis.pcall");
                }
            }
            problems.dedup();
            for pr in problems {
                recs.push(json!({"problem": pr, "class": format!("{} via {}", what, f), "detail": {"script": script, "reply": resp::show(&r), "before": resp::show(&before), "after": resp::show(&after)}}));
            }
        }
    }
    Ok((n, recs))
}

/// commands a script must not reach: refused, and nothing about the connection or the server changes
fn forbidden_probe(p: &mut Plain) -> Result<(u64, Vec<Value>), String> {
    let mut recs = Vec::new();
    let mut n = 0u64;
    let cmds: Vec<Vec<&str>> = vec![
        vec!["BLPOP", "nolist", "0"], vec!["BRPOP", "nolist", "0"], vec!["BLPOP", "nolist", "1"], vec!["XREAD", "BLOCK", "0", "STREAMS", "nostream", "$"],
        vec!["SUBSCRIBE", "c"], vec!["PSUBSCRIBE", "c*"], vec!["UNSUBSCRIBE"], vec!["MONITOR"], vec!["AUTH", "x"], vec!["QUIT"], vec!["SELECT", "3"], vec!["CLIENT", "KILL", "x"],
        vec!["MULTI"], vec!["EXEC"], vec!["DISCARD"], vec!["WATCH", "k"], vec!["UNWATCH"], vec!["EVAL", "return 1", "0"], vec!["EVALSHA", "x", "0"], vec!["SCRIPT", "FLUSH"],
        vec!["SHUTDOWN"], vec!["SHUTDOWN", "NOSAVE"], vec!["SAVE"], vec!["BGSAVE"], vec!["BGREWRITEAOF"], vec!["CONFIG", "SET", "dir", "/tmp"], vec!["CONFIG", "GET", "dir"], vec!["DEBUG", "SEGFAULT"],
        vec!["REPLICAOF", "127.0.0.1", "1"], vec!["SLAVEOF", "127.0.0.1", "1"], vec!["SYNC"], vec!["PSYNC", "?", "-1"], vec!["REPLCONF", "listening-port", "1"], vec!["FLUSHALL", "ASYNC"],
    ];
    for c in cmds.iter() {
        for f in ["call", "pcall"] {
            n += 1;
            p.calls(&["FLUSHALL"])?;
            p.calls(&["SET", "sentinel", "1"])?;
            let rows_before = (p.srv.h.connections)();
            let me = p.c.id;
            let mut args = vec![b("EVAL"), b(&format!("return redis.{}(unpack(ARGV))", f)), b("0")];
            args.extend(c.iter().map(|s| b(s)));
            p.c.send(&resp::cmd(&args));
            let r = p.srv.await_reply(&mut p.c, 8);
            let mut problems: Vec<String> = Vec::new();
            let name = c[0];
            // dangerous = everything except the two harmless administrative reads/saves, which may be allowed
            let may_succeed = matches!(name, "SAVE" | "BGSAVE" | "CONFIG" | "FLUSHALL" | "BGREWRITEAOF" | "UNSUBSCRIBE" | "UNWATCH" | "DISCARD" | "REPLCONF" | "XREAD");
            match &r {
                Ok(reply) => {
                    if !reply.is_err() && !may_succeed {
                        problems.push(format!("not-refused({})", resp::class(reply)));
                    }
                }
                Err(crate::srv::CallErr::NoReply) => problems.push("script-blocks-the-connection".into()),
                Err(crate::srv::CallErr::ServerDied) => problems.push("server-exited".into()),
                Err(e) => problems.push(format!("connection-lost({:?})", e)),
            }
            if p.srv.is_dead() {
                problems.push("server-exited".into());
                recs.push(json!({"problem": problems.join("+"), "class": format!("{} via {}", name, f), "detail": {"command": c.join(" ")}}));
                *p = Plain::new()?;
                continue;
            }
            // connection state unchanged: same database, not blocked, not in MULTI, not subscribed, not a replica/monitor
            let rows = (p.srv.h.connections)();
            let row = rows.iter().find(|r| r.id == me);
            let row0 = rows_before.iter().find(|r| r.id == me);
            match (row0, row) {
                (Some(a), Some(z)) => {
                    if a.db != z.db {
                        problems.push("selected-database-changed".into());
                    }
                    if z.state == "blocked" {
                        problems.push("connection-blocked".into());
                    }
                    if z.in_multi {
                        problems.push("connection-in-multi".into());
                    }
                    if z.watched != 0 {
                        problems.push("connection-watches".into());
                    }
                    if z.is_monitoring {
                        problems.push("connection-monitors".into());
                    }
                }
                (_, None) => problems.push("connection-gone".into()),
                _ => {}
            }
            let (subs, _, _) = p.srv.h.pubsub.verif_snapshot();
            if !subs.is_empty() {
                problems.push("subscription-created".into());
            }
            let (waiters, _, _) = p.srv.h.blocking.verif_snapshot();
            if !waiters.is_empty() {
                problems.push("blocking-registration-created".into());
            }
            // the connection still answers, the data is still there
            if !p.c.is_open() || problems.iter().any(|x| x.contains("blocks") || x.contains("blocked")) {
                p.c.discard();
                let _ = p.srv.steps(3);
            }
            match p.calls(&["GET", "sentinel"]) {
                Ok(R::Bulk(v)) if v == b("1") => {}
                Ok(o) => {
                    if name != "FLUSHALL" {
                        problems.push(format!("sentinel-data-changed({})", resp::class(&o)));
                    }
                }
                Err(e) => problems.push(format!("no-answer-afterwards({})", e)),
            }
            if !problems.is_empty() {
                problems.sort();
                problems.dedup();
                recs.push(json!({"problem": problems.join("+"), "class": format!("{} via {}", name, f), "detail": {"command": c.join(" "), "reply": r.as_ref().map(resp::show).unwrap_or_else(|e| format!("{:?}", e))}}));
            }
        }
    }
    Ok((n, recs))
}

/// the script runs in the connection's database, whichever way it is invoked
fn db_probe(p: &mut Plain) -> Result<(u64, Vec<Value>), String> {
    let mut recs = Vec::new();
    let mut n = 0u64;
    let sha = match p.call(&[b("SCRIPT"), b("LOAD"), b(CALL)])? {
        R::Bulk(s) => s,
        o => return Err(format!("SCRIPT LOAD -> {}", resp::show(&o))),
    };
    for db in ["1", "3", "15"] {
        for form in ["call", "pcall", "evalsha"] {
            let wrap = |cmd: &[&str]| -> Vec<Bytes> {
                let mut v = match form {
                    "pcall" => vec![b("EVAL"), b(PCALL), b("0")],
                    "evalsha" => vec![b("EVALSHA"), sha.clone(), b("0")],
                    _ => vec![b("EVAL"), b(CALL), b("0")],
                };
                v.extend(cmd.iter().map(|s| b(s)));
                v
            };
            n += 1;
            p.calls(&["SELECT", "0"])?;
            p.calls(&["FLUSHALL"])?;
            p.calls(&["SET", "here", "zero"])?;
            p.calls(&["SELECT", db])?;
            p.calls(&["RPUSH", "there", "x"])?;
            let mut problems: Vec<String> = Vec::new();
            let w = p.call(&wrap(&["SET", "kdb", "v"]))?;
            if p.calls(&["GET", "kdb"])? != R::Bulk(b("v")) {
                problems.push(format!("write-did-not-land-in-the-selected-database({})", resp::class(&w)));
            }
            for (cmd, want) in [(vec!["GET", "here"], R::Nil), (vec!["LLEN", "there"], R::Int(1)), (vec!["DBSIZE"], R::Int(2)), (vec!["EXISTS", "here"], R::Int(0))] {
                let r = p.call(&wrap(&cmd))?;
                if conv(&r) != Some(want.clone()) {
                    problems.push(format!("{}-read-another-database", cmd[0]));
                }
            }
            let _ = p.call(&wrap(&["FLUSHDB"]))?;
            p.calls(&["SELECT", "0"])?;
            if p.calls(&["GET", "here"])? != R::Bulk(b("zero")) {
                problems.push("FLUSHDB-emptied-another-database".into());
            }
            if p.calls(&["GET", "kdb"])? != R::Nil {
                problems.push("write-landed-in-database-0".into());
            }
            for pr in problems {
                recs.push(json!({"problem": pr, "class": format!("db {} via {}", db, form), "detail": {"db": db, "form": form}}));
            }
        }
    }
    p.calls(&["SELECT", "0"])?;
    Ok((n, recs))
}

const WALK: &str = r#"
local seen = {}
local out = {}
local function walk(t, prefix, depth)
  if seen[t] or depth > 4 then return end
  seen[t] = true
  for k, v in pairs(t) do
    local name = prefix .. tostring(k)
    out[#out + 1] = name .. ':' .. type(v)
    if type(v) == 'table' then walk(v, name .. '.', depth + 1) end
  end
end
walk(_G, '', 0)
table.sort(out)
return out
"#;

/// names that reach the file system or the process (the property's list); everything else a Lua 5.1 base
/// environment offers (loadstring, module, coroutine, string.dump ...) compiles or runs Lua only
fn dangerous_global(name: &str) -> bool {
    let path = name.split(':').next().unwrap_or("");
    let root = path.split('.').next().unwrap_or("");
    matches!(root, "io" | "os" | "package" | "require" | "dofile" | "loadfile" | "debug" | "ffi" | "jit" | "loadlib")
}

fn sandbox_probe(p: &mut Plain) -> Result<(u64, Vec<Value>), String> {
    let mut recs = Vec::new();
    let mut n = 0u64;
    let r = p.call(&[b("EVAL"), b(WALK), b("0")])?;
    let names: Vec<String> = match &r {
        R::Arr(v) => v.iter().filter_map(|x| x.as_bytes().map(|b| String::from_utf8_lossy(b).to_string())).collect(),
        o => {
            recs.push(json!({"problem": "global-walk-failed", "class": "walk", "detail": {"reply": resp::show(o)}}));
            vec![]
        }
    };
    n += names.len() as u64;
    for name in names.iter() {
        if dangerous_global(name) {
            recs.push(json!({"problem": "global-that-reaches-the-system-is-visible", "class": name.split(':').next().unwrap_or("").split('.').next().unwrap_or(""), "detail": {"name": name}}));
        }
    }
    // direct probes: each must fail or yield nil, and must not have had its effect
    let marker = p.srv.dir.join("c12-marker");
    let mp = marker.to_string_lossy().to_string();
    let probes: Vec<(String, &str)> = vec![
        (format!("local f = io.open('{}', 'w') f:write('x') f:close() return 1", mp), "io.open"),
        (format!("os.execute('touch {}') return 1", mp), "os.execute"),
        (format!("return os.remove('{}')", mp), "os.remove"),
        ("return os.getenv('HOME')".to_string(), "os.getenv"),
        ("return os.exit(3)".to_string(), "os.exit"),
        ("return package.loadlib('libc.so.6', 'system')".to_string(), "package.loadlib"),
        ("return require('os')".to_string(), "require"),
        ("return require('io')".to_string(), "require"),
        ("return dofile('/etc/passwd')".to_string(), "dofile"),
        ("return loadfile('/etc/passwd')".to_string(), "loadfile"),
        ("return debug.getregistry()".to_string(), "debug"),
        ("return debug.getinfo(1)".to_string(), "debug"),
        (format!("local f = load or loadstring; local g = f(\"return io.open('{}', 'w')\"); return g() ~= nil", mp), "loadstring-reaches-io"),
        ("return string.rep('x', 10)".to_string(), "control"),
    ];
    for (src, what) in probes.iter() {
        n += 1;
        let r = p.call(&[b("EVAL"), b(src), b("0")]);
        if p.srv.is_dead() {
            recs.push(json!({"problem": "script-ended-the-server", "class": what, "detail": {"script": src}}));
            *p = Plain::new()?;
            continue;
        }
        let r = r?;
        if *what == "control" {
            if r != R::Bulk(b("xxxxxxxxxx")) {
                recs.push(json!({"problem": "harmless-library-function-unavailable", "class": what, "detail": {"script": src, "reply": resp::show(&r)}}));
            }
            continue;
        }
        let harmless = r.is_err() || matches!(conv(&r), Some(R::Nil));
        if !harmless {
            recs.push(json!({"problem": "script-reached-outside-the-sandbox", "class": what, "detail": {"script": src, "reply": resp::show(&r)}}));
        }
        if marker.exists() {
            let _ = std::fs::remove_file(&marker);
            recs.push(json!({"problem": "script-wrote-to-the-file-system", "class": what, "detail": {"script": src}}));
        }
    }
    Ok((n, recs))
}

// ------------------------------------------------------------------ (c) atomicity

/// every schedule of rounds: the script's request is cut into `cuts` chunks; per round 0..1 further chunk of the
/// script, 0..1 reader command and 0..1 writer command are delivered, then one loop iteration runs
fn atomicity(variant: usize, thorough: bool) -> Result<(u64, u64, Vec<Value>), String> {
    vtime::enable();
    let srv = Srv::start(&SrvOpts::default());
    let mut setup = srv.connect().map_err(|e| format!("{:?}", e))?;
    let scripts = [
        // move one element and count the move: three calls
        "local v = redis.call('RPOP', 'l1') redis.call('LPUSH', 'l2', v) redis.call('INCR', 'moves') return v",
        // the same, failing after the second call: the two effects stay, the third never happens
        "local v = redis.call('RPOP', 'l1') redis.call('LPUSH', 'l2', v) redis.call('INCR', 'l2') return v",
        // through pcall with an error in the middle
        "local v = redis.call('RPOP', 'l1') redis.pcall('INCR', 'l2') redis.call('LPUSH', 'l2', v) redis.call('INCR', 'moves') return v",
    ];
    let script = scripts[variant % scripts.len()];
    let req = resp::cmd(&["EVAL", script, "0"]);
    let reader_req = resp::cmd(&["EVAL", "return {redis.call('LLEN','l1'), redis.call('LLEN','l2'), redis.call('GET','moves') or '0'}", "0"]);
    let reader_plain = [resp::cmd(&["LLEN", "l1"]), resp::cmd(&["LLEN", "l2"])].concat();
    let writer_req = resp::cmd(&["RPUSH", "l1", "w"]);
    let cut_sets: Vec<Vec<usize>> = if thorough { vec![vec![], vec![req.len() / 2], vec![10, req.len() - 4]] } else { vec![vec![], vec![req.len() / 2]] };
    let mut schedules = 0u64;
    let mut observations = 0u64;
    let mut recs: Vec<Value> = Vec::new();
    let rounds = if thorough { 4usize } else { 3usize };
    for cuts in cut_sets.iter() {
        let mut chunks: Vec<&[u8]> = Vec::new();
        let mut last = 0;
        for &c in cuts.iter() {
            chunks.push(&req[last..c]);
            last = c;
        }
        chunks.push(&req[last..]);
        // a schedule: for each round, (script chunk delivered?, reader kind 0/1/2, writer delivered?)
        let per_round = 2 * 3 * 2;
        let total = (per_round as u64).pow(rounds as u32);
        for code in 0..total {
            let mut x = code;
            let mut plan = Vec::new();
            for _ in 0..rounds {
                let r = (x % per_round as u64) as usize;
                x /= per_round as u64;
                plan.push((r % 2 == 1, (r / 2) % 3, r / 6 == 1));
            }
            // canonical: skip plans that deliver nothing in some round before something later (equivalent to a shorter one)
            if plan.iter().filter(|p| p.0).count() < chunks.len() {
                continue; // the script must be delivered completely
            }
            schedules += 1;
            let r = srv.call(&mut setup, &["FLUSHALL"]).map_err(|e| format!("{:?}", e))?;
            if r != R::ok() {
                return Err("FLUSHALL".into());
            }
            srv.call(&mut setup, &["RPUSH", "l1", "a", "b", "c"]).map_err(|e| format!("{:?}", e))?;
            srv.call(&mut setup, &["RPUSH", "l2", "z"]).map_err(|e| format!("{:?}", e))?;
            let mut sc = srv.connect().map_err(|e| format!("{:?}", e))?;
            let mut rd = srv.connect().map_err(|e| format!("{:?}", e))?;
            let mut wr = srv.connect().map_err(|e| format!("{:?}", e))?;
            let mut next_chunk = 0usize;
            let mut writes = 0i64;
            let mut reader_frames: Vec<(usize, R)> = Vec::new();
            let mut plain_pending = 0usize;
            for (ri, (deliver, reader, writer)) in plan.iter().enumerate() {
                if *deliver && next_chunk < chunks.len() {
                    sc.send(chunks[next_chunk]);
                    next_chunk += 1;
                }
                match reader {
                    1 => rd.send(&reader_req),
                    2 => {
                        rd.send(&reader_plain);
                        plain_pending += 2;
                    }
                    _ => {}
                }
                if *writer {
                    wr.send(&writer_req);
                    writes += 1;
                }
                let _ = srv.step();
                rd.poll();
                while let Ok(Some(f)) = rd.take_frame() {
                    reader_frames.push((ri, f));
                }
            }
            let _ = srv.steps(3);
            rd.poll();
            while let Ok(Some(f)) = rd.take_frame() {
                reader_frames.push((rounds, f));
            }
            let _ = plain_pending;
            // judge: every observation of (len l1, len l2, moves) must be a state between whole scripts:
            // l1 + l2 = 4 + writes-so-far (each writer push adds one to l1), never a half-done move
            let moved_possible = [0i64, 1];
            let mut plain_pair: Vec<i64> = Vec::new();
            for (_ri, f) in reader_frames.iter() {
                observations += 1;
                match f {
                    R::Arr(v) if v.len() == 3 => {
                        let l1 = if let R::Int(i) = v[0] { i } else { -1 };
                        let l2 = if let R::Int(i) = v[1] { i } else { -1 };
                        let moves: i64 = v[2].as_bytes().and_then(|b| String::from_utf8_lossy(b).parse().ok()).unwrap_or(-1);
                        let ok = (0..=writes).any(|w| moved_possible.iter().any(|m| {
                            let (e1, e2) = (3 + w - m, 1 + m);
                            let em = if variant % 3 == 1 { 0 } else { *m };
                            l1 == e1 && l2 == e2 && moves == em
                        }));
                        if !ok {
                            recs.push(json!({"problem": "reader-saw-a-half-executed-script", "class": format!("variant {}", variant), "detail": {"observed": [l1, l2, moves], "writes": writes, "plan": format!("{:?}", plan), "cuts": cuts}}));
                        }
                    }
                    R::Int(i) => {
                        plain_pair.push(*i);
                        if plain_pair.len() == 2 {
                            // two plain reads in one write: both in the same iteration; the pair must be a whole-script state
                            let (l1, l2) = (plain_pair[0], plain_pair[1]);
                            let ok = (0..=writes).any(|w| moved_possible.iter().any(|m| l1 == 3 + w - m && l2 == 1 + m));
                            if !ok {
                                recs.push(json!({"problem": "plain-reads-in-one-write-saw-a-half-executed-script", "class": format!("variant {}", variant), "detail": {"observed": [l1, l2], "writes": writes, "plan": format!("{:?}", plan), "cuts": cuts}}));
                            }
                            plain_pair.clear();
                        }
                    }
                    _ => {}
                }
            }
            // final state: the script ran exactly once
            let l1 = srv.call(&mut setup, &["LLEN", "l1"]).map_err(|e| format!("{:?}", e))?;
            let l2 = srv.call(&mut setup, &["LLEN", "l2"]).map_err(|e| format!("{:?}", e))?;
            if l1 != R::Int(2 + writes) || l2 != R::Int(2) {
                recs.push(json!({"problem": "final-state-is-not-one-whole-script", "class": format!("variant {}", variant), "detail": {"l1": resp::show(&l1), "l2": resp::show(&l2), "writes": writes, "plan": format!("{:?}", plan), "cuts": cuts}}));
            }
            sc.discard();
            rd.discard();
            wr.discard();
            if recs.len() > 20 {
                return Ok((schedules, observations, recs));
            }
        }
    }
    Ok((schedules, observations, recs))
}

// ------------------------------------------------------------------ worker / parent

pub fn handle_factory() -> impl FnMut(&str, &Value, &mut WorkerIo) -> (Value, bool) {
    let mut plain: Option<Plain> = None;
    move |tier: &str, task: &Value, io: &mut WorkerIo| {
        let task = if let Some(r) = task.get("replay") { r["task"].clone() } else { task.clone() };
        let thorough = task["thorough"].as_bool().unwrap_or(tier == "thorough");
        let kind = task["kind"].as_str().unwrap_or("").to_string();
        io.announce_case(task.clone());
        match kind.as_str() {
            "diff" => {
                let forms: Vec<&str> = task["forms"].as_array().map(|a| a.iter().filter_map(|x| x.as_str()).collect()).unwrap_or_else(|| FORMS.to_vec());
                let forms: Vec<&str> = FORMS.iter().cloned().filter(|f| forms.contains(f)).collect();
                let only: Vec<String> = task["deepest_only"].as_array().map(|a| a.iter().filter_map(|x| x.as_str().map(|s| s.to_string())).collect()).unwrap_or_default();
                let only_ref: Vec<&str> = only.iter().map(|s| s.as_str()).collect();
                let v = differential_filtered(task["spec"].as_str().unwrap_or(""), task["depth"].as_u64().unwrap_or(0) as usize, task["part"].as_u64().unwrap_or(0), task["parts"].as_u64().unwrap_or(1), &forms, &only_ref, io);
                (v, true)
            }
            "contracts" => {
                if plain.is_none() {
                    match Plain::new() {
                        Ok(p) => plain = Some(p),
                        Err(e) => return (json!({"errors": [e]}), true),
                    }
                }
                let p = plain.as_mut().unwrap();
                let what = task["what"].as_str().unwrap_or("");
                let r = match what {
                    "bytes" => bytes_probe(p, task["range"][0].as_u64().unwrap_or(0) as usize, task["range"][1].as_u64().unwrap_or(0) as usize, task["pairs"].as_bool().unwrap_or(false)),
                    "shapes" => shapes_probe(p),
                    "errors" => error_probe(p),
                    "forbidden" => forbidden_probe(p),
                    "sandbox" => sandbox_probe(p),
                    "db" => db_probe(p),
                    _ => Err(format!("unknown contract {}", what)),
                };
                match r {
                    Ok((n, recs)) => (json!({"n": n, "recs": recs}), false),
                    Err(e) => {
                        plain = None;
                        (json!({"errors": [format!("{}: {}", what, e)]}), true)
                    }
                }
            }
            "atomicity" => match atomicity(task["variant"].as_u64().unwrap_or(0) as usize, thorough) {
                Ok((s, o, recs)) => (json!({"schedules": s, "observations": o, "recs": recs}), true),
                Err(e) => (json!({"errors": [e]}), true),
            },
            _ => (json!({"errors": [format!("unknown task kind {}", kind)]}), false),
        }
    }
}

pub fn parent(tier: &str) -> i32 {
    let thorough = tier == "thorough";
    let mut report = RunReport::new("C12", tier, "model_checking");
    let pool = Pool::new("C12", tier, super::e1common::nworkers());
    let mut tasks: Vec<Value> = Vec::new();
    let specs: Vec<&str> = if thorough { SPECS.to_vec() } else { SPECS[..8].to_vec() };
    for spec in specs.iter() {
        // thorough: depth 2 on the alphabets that mix types / ids / groups, depth 1 elsewhere; quick: depth 1, two forms
        let deep = thorough && matches!(*spec, "c03-mixed" | "c01-core" | "c15-stream" | "c16-core" | "c03-list" | "c03-set" | "c03-hash");
        let (depth, parts) = if deep { (2usize, 64u64) } else if thorough { (1usize, 24u64) } else { (1usize, 6u64) };
        for part in 0..parts {
            tasks.push(json!({"kind": "diff", "spec": spec, "depth": depth, "part": part, "parts": parts, "forms": if thorough { vec!["call", "pcall", "evalsha"] } else { vec!["call", "evalsha"] }, "thorough": thorough}));
        }
    }
    if !thorough {
        // consumer groups need a stream, a group and a delivery before anything shows: depth 3 (at the deepest states only the
        // commands that look at the pending lists), redis.call only (the executor
        // dropping XCLAIM's FORCE / JUSTID showed only behind XADD + XGROUP CREATE, i.e. in the thorough tier)
        for part in 0..32u64 {
            tasks.push(json!({"kind": "diff", "spec": "c16-core", "depth": 3, "part": part, "parts": 32, "forms": ["call"], "deepest_only": ["XPENDING", "XINFO", "XCLAIM", "XAUTOCLAIM", "XACK"], "thorough": thorough}));
        }
        // redis.pcall on the empty dataset for every alphabet in the quick tier
        for spec in specs.iter() {
            tasks.push(json!({"kind": "diff", "spec": spec, "depth": 0, "part": 0, "parts": 1, "forms": ["pcall"], "thorough": thorough}));
        }
    }
    for a in (0..256).step_by(64) {
        tasks.push(json!({"kind": "contracts", "what": "bytes", "pairs": false, "range": [a, a + 64], "thorough": thorough}));
    }
    if thorough {
        for a in (0..65536).step_by(2048) {
            tasks.push(json!({"kind": "contracts", "what": "bytes", "pairs": true, "range": [a, a + 2048], "thorough": thorough}));
        }
    } else {
        // pairs with a lead byte from each class: ASCII, control, UTF-8 lead, continuation, invalid
        for lead in [0x00usize, 0x0d, 0x41, 0x7f, 0x80, 0xc3, 0xe2, 0xf0, 0xff] {
            tasks.push(json!({"kind": "contracts", "what": "bytes", "pairs": true, "range": [lead * 256, lead * 256 + 256], "thorough": thorough}));
        }
    }
    for what in ["shapes", "errors", "forbidden", "sandbox", "db"] {
        tasks.push(json!({"kind": "contracts", "what": what, "thorough": thorough}));
    }
    for variant in 0..3 {
        tasks.push(json!({"kind": "atomicity", "variant": variant, "thorough": thorough}));
    }
    let out = pool.map(tasks.clone(), 0);
    let mut cases = 0u64;
    let mut runs = 0u64;
    let mut states = 0u64;
    let mut contract_cases = 0u64;
    let mut schedules = 0u64;
    let mut observations = 0u64;
    let mut nontrivial = 0u64;
    let mut outcomes: BTreeSet<String> = BTreeSet::new();
    let mut per_spec: BTreeMap<String, u64> = BTreeMap::new();
    for (t, o) in tasks.iter().zip(out.into_iter()) {
        match o {
            Outcome::Done(v) => {
                for e in v["errors"].as_array().cloned().unwrap_or_default() {
                    report.machinery_errors.push(format!("{}: {}", t, e));
                }
                let kind = t["kind"].as_str().unwrap_or("");
                match kind {
                    "diff" => {
                        cases += v["cases"].as_u64().unwrap_or(0);
                        runs += v["runs"].as_u64().unwrap_or(0);
                        states += v["states"].as_u64().unwrap_or(0);
                        nontrivial += v["nontrivial"].as_u64().unwrap_or(0);
                        *per_spec.entry(t["spec"].as_str().unwrap_or("").to_string()).or_default() += v["cases"].as_u64().unwrap_or(0);
                        for o in v["outcomes"].as_array().cloned().unwrap_or_default() {
                            outcomes.insert(o.as_str().unwrap_or("").to_string());
                        }
                        for r in v["recs"].as_array().cloned().unwrap_or_default() {
                            report.deviations.push(Deviation {
                                property: "C12".into(),
                                sig: format!("C12|diff|{}|{}|{}", r["form"].as_str().unwrap_or(""), r["class"].as_str().unwrap_or(""), r["problem"].as_str().unwrap_or("")),
                                replay: json!({"kind": "diff", "task": t, "case": {"spec": r["spec"], "history": r["history"], "steps": r["steps"], "command": r["command"], "form": r["form"]}, "detail": r["detail"]}),
                            });
                        }
                    }
                    "contracts" => {
                        contract_cases += v["n"].as_u64().unwrap_or(0);
                        for r in v["recs"].as_array().cloned().unwrap_or_default() {
                            report.deviations.push(Deviation {
                                property: "C12".into(),
                                sig: format!("C12|{}|{}|{}", t["what"].as_str().unwrap_or(""), r["class"].as_str().unwrap_or(""), r["problem"].as_str().unwrap_or("")),
                                replay: json!({"kind": "contracts", "task": t, "detail": r["detail"]}),
                            });
                        }
                    }
                    "atomicity" => {
                        schedules += v["schedules"].as_u64().unwrap_or(0);
                        observations += v["observations"].as_u64().unwrap_or(0);
                        for r in v["recs"].as_array().cloned().unwrap_or_default() {
                            report.deviations.push(Deviation {
                                property: "C12".into(),
                                sig: format!("C12|atomicity|{}|{}", r["class"].as_str().unwrap_or(""), r["problem"].as_str().unwrap_or("")),
                                replay: json!({"kind": "atomicity", "task": t, "detail": r["detail"]}),
                            });
                        }
                    }
                    _ => {}
                }
            }
            Outcome::Died { status, case } => {
                let what = t["what"].as_str().unwrap_or("");
                if t["kind"] == "contracts" && (what == "sandbox" || what == "forbidden") {
                    // the server runs inside the worker: a script that ends the process ends the worker
                    report.deviations.push(Deviation {
                        property: "C12".into(),
                        sig: format!("C12|{}|process|a-script-ended-the-server-process", what),
                        replay: json!({"kind": "contracts", "task": t, "status": status, "last_case": case}),
                    });
                } else {
                    report.machinery_errors.push(format!("worker died on {}: {} {:?}", t, status, case));
                }
            }
        }
    }
    println!("  c12: differential cases={} (runs {}, states {}, direct command succeeded in {}) contract probes={} atomicity schedules={} (observations {}) outcome pairs={}", cases, runs, states, nontrivial, contract_cases, schedules, observations, outcomes.len());
    report.coverage = json!({
        "states": (states + schedules).max(1), "transitions": (runs + observations + contract_cases).max(1), "traces_validated_against_impl": cases + schedules,
        "samples": [{"differential": "at the state after each history of the alphabet, command X is sent directly and, on a fresh replay, as EVAL 'return redis.call(unpack(ARGV))' 0 X / redis.pcall / EVALSHA"}, {"outcome_pairs(direct:script)": outcomes.iter().take(40).cloned().collect::<Vec<_>>()}],
        "exhaustive": true, "differential_cases": cases, "differential_runs": runs, "contract_probes": contract_cases, "atomicity_schedules": schedules, "atomicity_observations": observations, "cases_per_alphabet": per_spec,
        "explanation": "states = distinct dataset states at which the whole alphabet was compared + atomicity schedules; transitions = executions on the real server. (a) for every alphabet of the C01/C02/C03/C04/C15/C16 searches (every data command with its argument classes incl. wrong types, bad arguments, binary values; mutators and state-dependent probes) and every history up to the depth (quick 1; thorough 1, and 2 for the string-core, list, set, hash, mixed-type, stream and consumer-group alphabets): direct vs redis.call vs redis.pcall vs EVALSHA on fresh replays of the same history; a command that fails directly must also abort a script that calls it in the middle (error reply, nothing after it executed, the write before it kept); reply equal after the standard RESP->Lua->RESP conversion (nil forms collapse, error texts not compared, integers beyond 2^53 don't care, wall-clock numbers relative to the epoch, replies without a defined order compared as multisets, replies of SPOP/SRANDMEMBER/RANDOMKEY by shape), raw dataset equal. (b) KEYS/ARGV/stored/read-back byte for byte for every byte value and every byte pair (quick: pairs with 9 lead bytes, one per class); 53 return shapes with EVALSHA = EVAL; 6 kinds of failing call x call/pcall (error reply, effects before persist, pcall continues); 34 commands a script must not reach x call/pcall (refused, connection and server state unchanged, connection still answers); the script's database (3 databases x 3 forms: writes land and reads look in the selected database); a walk of _G against the list of names that reach the file system or the process (io, os, package, require, dofile, loadfile, debug, ffi, jit) and 13 direct escapes. (c) all round schedules (quick 3, thorough 4 rounds; per round: next chunk of the script or not, reader as script / as two plain reads / none, writer or not) of a three-call script, of one failing after two calls and of one with a failing pcall, whole and fragmented.",
    });
    report.assumptions = vec![
        "the standard conversion: integer->integer, bulk->bulk, nil and nil-array->nil, status->status, array element-wise, error->error reply (texts not compared); Lua numbers are doubles".into(),
        "the direct run and the script run are two replays of the same history on the same real server under virtual time; wall-clock values are compared relative to each replay's epoch".into(),
        "SAVE, BGSAVE, CONFIG, FLUSHALL ASYNC, BGREWRITEAOF, UNSUBSCRIBE, UNWATCH, DISCARD, REPLCONF from a script may succeed or be refused (no connection state involved), XREAD BLOCK may be answered without blocking; everything else in the forbidden list must be refused".into(),
    ];
    report.finish()
}
