//! Byte transparency of the data commands through the live server: every byte value, alone, embedded and doubled,
//! written through each family's write commands and read back through its read commands (values, elements, members,
//! fields, key names). Shared by C01 (strings, key names, ECHO), C03 (lists, sets, hashes), C04 (sorted-set members) and
//! C15 (stream fields and values): "arbitrary binary" is a dimension of all of them, and the histories of the searches
//! carry only a handful of binary samples.

use super::c05::Harness;
use crate::pool::{Outcome, Pool, WorkerIo};
use crate::report::{Deviation, RunReport};
use crate::resp::{self, R};
use crate::srv::SrvOpts;
use serde_json::{json, Value};

type Bytes = Vec<u8>;

fn b(s: &str) -> Bytes {
    s.as_bytes().to_vec()
}

fn byte_class(x: u8) -> &'static str {
    match x {
        0 => "nul",
        b'\n' => "lf",
        b'\r' => "cr",
        b' ' | b'\t' => "blank",
        b'"' | b'\'' | b'\\' => "quote",
        b'*' | b'?' | b'[' | b']' | b'^' | b'-' => "glob-meta",
        b'$' | b'+' | b':' | b'_' | b'#' | b',' | b'%' | b'~' => "resp-type-byte",
        0x80..=0xff => "high",
        _ => "ascii",
    }
}

fn forms(x: u8) -> Vec<(&'static str, Bytes)> {
    vec![("alone", vec![x]), ("embedded", vec![b'a', x, b'z']), ("doubled-at-the-end", vec![b'q', x, x])]
}

enum Want {
    Is(R),
    /// array with exactly these elements in any order
    Set(Vec<R>),
}

fn bulk(v: &Bytes) -> R {
    R::Bulk(v.clone())
}

/// (command, expectation) sequences per family for one value
fn script(family: &str, v: &Bytes) -> Vec<(Vec<Bytes>, Want)> {
    let n = v.len() as i64;
    let mut vv = v.clone();
    vv.extend_from_slice(v);
    match family {
        "string" => vec![
            (vec![b("SET"), b("k"), v.clone()], Want::Is(R::ok())),
            (vec![b("GET"), b("k")], Want::Is(bulk(v))),
            (vec![b("STRLEN"), b("k")], Want::Is(R::Int(n))),
            (vec![b("APPEND"), b("k"), v.clone()], Want::Is(R::Int(2 * n))),
            (vec![b("GET"), b("k")], Want::Is(bulk(&vv))),
            (vec![b("GETRANGE"), b("k"), b("0"), b("-1")], Want::Is(bulk(&vv))),
            (vec![b("GETRANGE"), b("k"), b(&n.to_string()), b("-1")], Want::Is(bulk(v))),
            (vec![b("SETRANGE"), b("k"), b("0"), v.clone()], Want::Is(R::Int(2 * n))),
            (vec![b("GETSET"), b("k"), v.clone()], Want::Is(bulk(&vv))),
            (vec![b("MSET"), b("m1"), v.clone(), b("m2"), vv.clone()], Want::Is(R::ok())),
            (vec![b("MGET"), b("m1"), b("m2"), b("k")], Want::Is(R::Arr(vec![bulk(v), bulk(&vv), bulk(v)]))),
            (vec![b("SETNX"), b("nx"), v.clone()], Want::Is(R::Int(1))),
            (vec![b("GET"), b("nx")], Want::Is(bulk(v))),
            (vec![b("ECHO"), v.clone()], Want::Is(bulk(v))),
        ],
        "keyname" => vec![
            (vec![b("SET"), v.clone(), b("val")], Want::Is(R::ok())),
            (vec![b("EXISTS"), v.clone()], Want::Is(R::Int(1))),
            (vec![b("GET"), v.clone()], Want::Is(R::Bulk(b("val")))),
            (vec![b("TYPE"), v.clone()], Want::Is(R::Simple(b("string")))),
            (vec![b("DBSIZE")], Want::Is(R::Int(1))),
            (vec![b("RANDOMKEY")], Want::Is(bulk(v))),
            (vec![b("SCAN"), b("0"), b("COUNT"), b("100")], Want::Is(R::Arr(vec![R::Bulk(b("0")), R::Arr(vec![bulk(v)])]))),
            (vec![b("RENAME"), v.clone(), vv.clone()], Want::Is(R::ok())),
            (vec![b("EXISTS"), v.clone(), vv.clone()], Want::Is(R::Int(1))),
            (vec![b("RPUSH"), v.clone(), b("e")], Want::Is(R::Int(1))),
            (vec![b("LRANGE"), v.clone(), b("0"), b("-1")], Want::Is(R::Arr(vec![R::Bulk(b("e"))]))),
            (vec![b("DEL"), v.clone(), vv.clone()], Want::Is(R::Int(2))),
            (vec![b("DBSIZE")], Want::Is(R::Int(0))),
        ],
        "list" => vec![
            (vec![b("RPUSH"), b("l"), v.clone(), b("mid"), vv.clone()], Want::Is(R::Int(3))),
            (vec![b("LRANGE"), b("l"), b("0"), b("-1")], Want::Is(R::Arr(vec![bulk(v), R::Bulk(b("mid")), bulk(&vv)]))),
            (vec![b("LINDEX"), b("l"), b("0")], Want::Is(bulk(v))),
            (vec![b("LINDEX"), b("l"), b("-1")], Want::Is(bulk(&vv))),
            (vec![b("LSET"), b("l"), b("1"), v.clone()], Want::Is(R::ok())),
            (vec![b("LREM"), b("l"), b("0"), v.clone()], Want::Is(R::Int(2))),
            (vec![b("LPUSH"), b("l"), v.clone()], Want::Is(R::Int(2))),
            (vec![b("LPOP"), b("l")], Want::Is(bulk(v))),
            (vec![b("RPOP"), b("l")], Want::Is(bulk(&vv))),
            (vec![b("EXISTS"), b("l")], Want::Is(R::Int(0))),
        ],
        "set" => vec![
            (vec![b("SADD"), b("s"), v.clone(), vv.clone(), v.clone()], Want::Is(R::Int(2))),
            (vec![b("SMEMBERS"), b("s")], Want::Set(vec![bulk(v), bulk(&vv)])),
            (vec![b("SISMEMBER"), b("s"), v.clone()], Want::Is(R::Int(1))),
            (vec![b("SADD"), b("s2"), v.clone(), b("other")], Want::Is(R::Int(2))),
            (vec![b("SINTER"), b("s"), b("s2")], Want::Set(vec![bulk(v)])),
            (vec![b("SDIFF"), b("s"), b("s2")], Want::Set(vec![bulk(&vv)])),
            (vec![b("SUNION"), b("s"), b("s2")], Want::Set(vec![bulk(v), bulk(&vv), R::Bulk(b("other"))])),
            (vec![b("SREM"), b("s"), v.clone()], Want::Is(R::Int(1))),
            (vec![b("SPOP"), b("s")], Want::Is(bulk(&vv))),
            (vec![b("EXISTS"), b("s")], Want::Is(R::Int(0))),
        ],
        "hash" => vec![
            (vec![b("HSET"), b("h"), v.clone(), vv.clone(), b("plain"), v.clone()], Want::Is(R::Int(2))),
            (vec![b("HGET"), b("h"), v.clone()], Want::Is(bulk(&vv))),
            (vec![b("HGET"), b("h"), b("plain")], Want::Is(bulk(v))),
            (vec![b("HEXISTS"), b("h"), v.clone()], Want::Is(R::Int(1))),
            (vec![b("HKEYS"), b("h")], Want::Set(vec![bulk(v), R::Bulk(b("plain"))])),
            (vec![b("HVALS"), b("h")], Want::Set(vec![bulk(&vv), bulk(v)])),
            (vec![b("HMGET"), b("h"), v.clone(), b("plain")], Want::Is(R::Arr(vec![bulk(&vv), bulk(v)]))),
            (vec![b("HDEL"), b("h"), v.clone()], Want::Is(R::Int(1))),
            (vec![b("HLEN"), b("h")], Want::Is(R::Int(1))),
        ],
        "zset" => vec![
            (vec![b("ZADD"), b("z"), b("1"), v.clone(), b("1"), vv.clone()], Want::Is(R::Int(2))),
            (vec![b("ZSCORE"), b("z"), v.clone()], Want::Is(R::Bulk(b("1")))),
            (vec![b("ZRANGE"), b("z"), b("0"), b("-1")], Want::Is(R::Arr(vec![bulk(v), bulk(&vv)]))),
            (vec![b("ZRANK"), b("z"), vv.clone()], Want::Is(R::Int(1))),
            (vec![b("ZINCRBY"), b("z"), b("2"), v.clone()], Want::Is(R::Bulk(b("3")))),
            (vec![b("ZREVRANGE"), b("z"), b("0"), b("0")], Want::Is(R::Arr(vec![bulk(v)]))),
            (vec![b("ZREM"), b("z"), v.clone()], Want::Is(R::Int(1))),
            (vec![b("ZPOPMIN"), b("z")], Want::Is(R::Arr(vec![bulk(&vv), R::Bulk(b("1"))]))),
            (vec![b("EXISTS"), b("z")], Want::Is(R::Int(0))),
        ],
        _ => vec![
            (vec![b("XADD"), b("st"), b("1-1"), v.clone(), vv.clone()], Want::Is(R::Bulk(b("1-1")))),
            (vec![b("XRANGE"), b("st"), b("-"), b("+")], Want::Is(R::Arr(vec![R::Arr(vec![R::Bulk(b("1-1")), R::Arr(vec![bulk(v), bulk(&vv)])])]))),
            (vec![b("XLEN"), b("st")], Want::Is(R::Int(1))),
            (vec![b("XREAD"), b("STREAMS"), b("st"), b("0-0")], Want::Is(R::Arr(vec![R::Arr(vec![R::Bulk(b("st")), R::Arr(vec![R::Arr(vec![R::Bulk(b("1-1")), R::Arr(vec![bulk(v), bulk(&vv)])])])])]))),
        ],
    }
}

/// worker side: all 256 byte values x 3 forms for one family; returns the deviations
pub fn worker(task: &Value, io: &mut WorkerIo) -> Option<Value> {
    let t = task.get("bytesfam")?;
    let family = t["family"].as_str().unwrap_or("string").to_string();
    let prop = t["prop"].as_str().unwrap_or("C01").to_string();
    let mut h = Harness::new(SrvOpts::default());
    let mut devs: Vec<Value> = Vec::new();
    let mut errors: Vec<String> = Vec::new();
    let mut n = 0u64;
    for x in 0..=255u8 {
        for (form, v) in forms(x) {
            if family == "keyname" && v.is_empty() {
                continue;
            }
            io.announce_case(json!({"bytesfam": family, "byte": x, "form": form}));
            if let Err(e) = h.aux_call(&["FLUSHALL"]) {
                errors.push(e);
                continue;
            }
            for (cmd, want) in script(&family, &v) {
                n += 1;
                let got = match h.aux_call(&cmd) {
                    Ok(r) => r,
                    Err(e) => {
                        if h.srv.as_ref().map(|s| s.is_dead()).unwrap_or(true) {
                            devs.push(json!({"sig": format!("{}|BYTES|{}|{}|{}|server-exited", prop, family, String::from_utf8_lossy(&cmd[0]), byte_class(x)), "byte": x, "form": form, "command": resp::show_cmd(&cmd), "panic": crate::srv::LAST_PANIC.lock().unwrap().clone()}));
                        } else {
                            errors.push(e);
                        }
                        break;
                    }
                };
                let ok = match &want {
                    Want::Is(r) => crate::model::same(r, &got),
                    Want::Set(items) => match &got {
                        R::Arr(g) => {
                            let mut a: Vec<String> = items.iter().map(resp::show).collect();
                            let mut z: Vec<String> = g.iter().map(resp::show).collect();
                            a.sort();
                            z.sort();
                            a == z
                        }
                        _ => false,
                    },
                };
                if !ok {
                    let exp = match &want {
                        Want::Is(r) => resp::show(r),
                        Want::Set(items) => format!("(any order) {}", items.iter().map(resp::show).collect::<Vec<_>>().join(" ")),
                    };
                    devs.push(json!({"sig": format!("{}|BYTES|{}|{}|{}|{}", prop, family, String::from_utf8_lossy(&cmd[0]), byte_class(x), form), "byte": x, "form": form, "command": resp::show_cmd(&cmd), "expected": exp, "actual": resp::show(&got)}));
                    break; // the rest of the sequence builds on this step
                }
            }
        }
    }
    Some(json!({"devs": devs, "errors": errors, "commands": n}))
}

/// parent side: one task per family; deviations go into the report; returns the coverage entry
pub fn parent(pool: &Pool, report: &mut RunReport, prop: &str, families: &[&str]) -> Value {
    let tasks: Vec<Value> = families.iter().map(|f| json!({"bytesfam": {"family": f, "prop": prop}})).collect();
    let out = pool.map(tasks.clone(), 0);
    let mut commands = 0u64;
    for (t, o) in tasks.iter().zip(out.iter()) {
        match o {
            Outcome::Done(v) => {
                for e in v["errors"].as_array().cloned().unwrap_or_default() {
                    report.machinery_errors.push(format!("{}", e));
                }
                commands += v["commands"].as_u64().unwrap_or(0);
                for d in v["devs"].as_array().cloned().unwrap_or_default() {
                    report.deviations.push(Deviation { property: prop.to_string(), sig: d["sig"].as_str().unwrap_or("").to_string(), replay: json!({"kind": "bytesfam", "task": t, "detail": d}) });
                }
            }
            Outcome::Died { status, case } => report.deviations.push(Deviation { property: prop.to_string(), sig: format!("{}|BYTES|{}|process-died", prop, t["bytesfam"]["family"].as_str().unwrap_or("")), replay: json!({"kind": "bytesfam", "task": t, "status": status, "case": case}) }),
        }
    }
    json!({"byte_transparency": {"families": families, "bytes": 256, "forms": ["alone", "embedded", "doubled-at-the-end"], "commands_executed": commands,
        "rule": "every byte value in three forms written through the family's write commands and read back through its read commands on the live server; replies compared exactly (sets as multisets)"}})
}
