//! C06 — no client input can crash, hang or wedge the server.
//! Boundary product (command x argument position x boundary value x key state) and hostile byte frames
//! against a live server; after every case: the event loop is alive, a new connection gets PONG and a
//! sentinel dataset reads back intact. A worker that dies or hangs is attributed to the announced case.

use super::c05::Harness;
use super::cmdtable;
use crate::gate::StepResult;
use crate::pool::{Outcome, Pool, WorkerIo};
use crate::report::{Deviation, RunReport};
use crate::resp::{self, R};
use crate::srv::{Client, SrvOpts};
use serde_json::{json, Value};
use std::collections::BTreeSet;

#[derive(Clone, Debug)]
pub struct Case {
    pub name: String,
    pub cmd: Vec<Vec<u8>>,
    pub pos: usize,
    pub vclass: String,
    pub state: usize,
    pub raw: Option<Vec<u8>>,
    /// bytes another connection sends first and then stays connected (a client blocked on k while the case's request runs)
    pub pre: Option<Vec<u8>>,
    /// run on the server whose configuration switches the slow log, MONITOR support and statistics on, with a MONITOR
    /// client attached and every command slow enough for the slow log
    pub observed: bool,
}

const EXTRA_EXAMPLES: &[(&str, &[&str])] = &[
    ("CLIENT", &["PAUSE", "10"]), ("CONFIG", &["SET", "slowlog-max-len", "10"]), ("CONFIG", &["SET", "slowlog-log-slower-than", "10"]), ("XPENDING", &["k", "g", "-", "+", "10"]),
    ("XRANGE", &["k", "-", "+", "COUNT", "10"]), ("XREVRANGE", &["k", "+", "-", "COUNT", "10"]), ("HSCAN", &["k", "0", "COUNT", "10"]), ("SSCAN", &["k", "0", "COUNT", "10"]), ("ZSCAN", &["k", "0", "COUNT", "10"]),
    ("SCAN", &["0", "MATCH", "*", "COUNT", "10"]), ("MEMORY", &["USAGE", "k", "SAMPLES", "5"]), ("SET", &["k", "v", "PX", "100"]), ("SRANDMEMBER", &["k", "-2"]),
    ("XADD", &["k", "*", "f", "v"]), ("XTRIM", &["k", "MAXLEN", "~", "1"]), ("XREADGROUP", &["GROUP", "g", "c", "STREAMS", "k", "0-0"]), ("XGROUP", &["SETID", "k", "g", "1-1"]),
    ("EVAL", &["return redis.call('GET', KEYS[1])", "1", "k"]), ("EVAL", &["return ARGV[1]", "0", "5"]), ("SLOWLOG", &["RESET"]), ("XCLAIM", &["k", "g", "c", "0", "1-1", "FORCE"]),
    ("ZRANGE", &["k", "0", "-1", "WITHSCORES"]), ("LPUSH", &["k", "a", "b"]), ("BLPOP", &["k", "k2", "1"]),
    // ranges given the wrong way round (a sub-agent's demo met a panic in XPENDING with start > end), on every range command
    ("XPENDING", &["k", "g", "+", "-", "10"]), ("XPENDING", &["k", "g", "5-0", "1-0", "10"]), ("XPENDING", &["k", "g", "-", "+", "10", "c"]), ("XPENDING", &["k", "g", "5-0", "1-0", "10", "c"]),
    ("XRANGE", &["k", "+", "-"]), ("XRANGE", &["k", "5-0", "1-0"]), ("XREVRANGE", &["k", "-", "+"]), ("XREVRANGE", &["k", "1-0", "5-0"]), ("XRANGE", &["k", "5-0", "1-0", "COUNT", "1"]),
    ("ZRANGEBYSCORE", &["k", "1", "0"]), ("ZREVRANGEBYSCORE", &["k", "0", "1"]), ("ZCOUNT", &["k", "1", "0"]), ("ZRANGE", &["k", "-1", "0"]), ("ZRANGE", &["k", "2", "1"]), ("ZREVRANGE", &["k", "2", "1"]),
    ("LRANGE", &["k", "2", "0"]), ("LTRIM", &["k", "2", "0"]), ("GETRANGE", &["k", "5", "1"]), ("ZRANGEBYSCORE", &["k", "(1", "(1"]), ("ZRANGEBYSCORE", &["k", "+inf", "-inf"]),
    // the remaining forms of the consumer-group and administrative commands
    ("XAUTOCLAIM", &["k", "g", "c", "0", "0-0", "COUNT", "1"]), ("XINFO", &["STREAM", "k"]), ("XINFO", &["CONSUMERS", "k", "g"]), ("XGROUP", &["DESTROY", "k", "g"]),
    ("XGROUP", &["CREATECONSUMER", "k", "g", "c2"]), ("XGROUP", &["DELCONSUMER", "k", "g", "c"]), ("XCLAIM", &["k", "g", "c2", "0", "1-1", "JUSTID"]),
    ("XREADGROUP", &["GROUP", "g", "c", "NOACK", "STREAMS", "k", ">"]), ("XREADGROUP", &["GROUP", "g", "c", "COUNT", "1", "STREAMS", "k", "1-1"]), ("XACK", &["k", "g", "1-1", "1-1", "2-2"]),
    ("XREAD", &["STREAMS", "k", "$"]), ("XTRIM", &["k", "MAXLEN", "=", "0"]), ("XADD", &["k", "MAXLEN", "1", "*", "f", "v"]), ("XDEL", &["k", "1-1", "1-1"]),
    ("SET", &["k", "v", "XX", "GET"]), ("SET", &["k", "v", "NX", "EX", "100"]), ("LPOP", &["k", "2"]), ("RPOP", &["k", "2"]), ("SPOP", &["k"]), ("SRANDMEMBER", &["k"]), ("ZPOPMIN", &["k"]),
    ("SCAN", &["0", "TYPE", "string"]), ("CLIENT", &["SETNAME", "x"]), ("CLIENT", &["GETNAME"]), ("CLIENT", &["ID"]), ("CLIENT", &["KILL", "127.0.0.1:1"]), ("SCRIPT", &["LOAD", "return 1"]),
    ("SCRIPT", &["EXISTS", "e0e1f9fabfc9d4800c877a703b823ac0578ff8db"]), ("INFO", &["server"]), ("MEMORY", &["STATS"]), ("MEMORY", &["DOCTOR"]), ("COMMAND", &["COUNT"]), ("SLOWLOG", &["LEN"]),
    ("CONFIG", &["GET", "*"]), ("ZADD", &["k", "1", "a", "2", "b"]), ("ZINCRBY", &["k", "-1", "a"]), ("HSET", &["k", "f", "v", "g", "w"]), ("PEXPIRE", &["k", "1"]), ("EXPIRE", &["k", "-1"]),
];

pub fn numeric_values(thorough: bool) -> Vec<(&'static str, Vec<u8>)> {
    let mut v: Vec<(&'static str, Vec<u8>)> = vec![
        ("0", b"0".to_vec()), ("-1", b"-1".to_vec()), ("i32max+1", b"2147483648".to_vec()), ("i64max", b"9223372036854775807".to_vec()), ("i64max+1", b"9223372036854775808".to_vec()),
        ("i64min", b"-9223372036854775808".to_vec()), ("u64max", b"18446744073709551615".to_vec()), ("u64max+1", b"18446744073709551616".to_vec()),
        ("1e308", b"1e308".to_vec()), ("inf", b"inf".to_vec()), ("nan", b"nan".to_vec()), ("empty", b"".to_vec()),
        // just below a limit: passes the check at the command and overflows where it is used later (a time to live that fits
        // the monotonic clock and overflows when added to the wall clock at the next save)
        ("i64max-1e9", b"9223372035854775807".to_vec()), ("i64max-1e12", b"9223371036854775807".to_vec()), ("i64max/1000", b"9223372036854775".to_vec()), ("u64max/1000", b"18446744073709551".to_vec()),
    ];
    if thorough {
        v.extend(vec![
            ("1", b"1".to_vec()), ("2", b"2".to_vec()), ("-2", b"-2".to_vec()), ("i32max", b"2147483647".to_vec()), ("i32min", b"-2147483648".to_vec()), ("i64min-1", b"-9223372036854775809".to_vec()),
            ("-0", b"-0".to_vec()), ("1e309", b"1e309".to_vec()), ("-inf", b"-inf".to_vec()), ("tiny", b"0.0000001".to_vec()), ("lead-space", b" 1".to_vec()), ("trail-space", b"1 ".to_vec()),
            ("20digits", b"99999999999999999999".to_vec()), ("400digits", vec![b'9'; 400]), ("-1e308", b"-1e308".to_vec()), ("1.5", b"1.5".to_vec()), ("usize-ish", b"4611686018427387904".to_vec()),
        ]);
    }
    v
}

pub fn string_values(thorough: bool) -> Vec<(&'static str, Vec<u8>)> {
    let mut v: Vec<(&'static str, Vec<u8>)> = vec![("empty", vec![]), ("64KiB", b"@@LAZY:64KiB".to_vec()), ("invalid-utf8", vec![0xff, 0xfe, 0x80, 0xc0]), ("nul-crlf", b"a\x00b\r\nc".to_vec())];
    if thorough {
        v.push(("16MiB", b"@@LAZY:16MiB".to_vec()));
        v.push(("1B", b"q".to_vec()));
    }
    v
}

/// large values are materialised only when a case runs (the case list itself stays small)
fn materialize(cmd: &[Vec<u8>]) -> Vec<Vec<u8>> {
    cmd.iter().map(|a| if a.as_slice() == b"@@LAZY:16MiB" { vec![b'y'; 16 << 20] } else if a.as_slice() == b"@@LAZY:64KiB" { vec![b'z'; 65536] } else { a.clone() }).collect()
}

pub fn id_values() -> Vec<(&'static str, Vec<u8>)> {
    vec![
        ("max-max", b"18446744073709551615-18446744073709551615".to_vec()), ("0-0", b"0-0".to_vec()), ("neg", b"-1-1".to_vec()), ("dangling", b"1-".to_vec()),
        ("overflow", b"99999999999999999999-1".to_vec()), ("star-seq", b"5-*".to_vec()), ("bare", b"7".to_vec()),
    ]
}

/// key states: missing, the six small ones, then two large ones
pub fn state_names() -> Vec<&'static str> {
    vec!["missing", "string", "list", "set", "hash", "zset", "stream", "big-list", "big-string"]
}

pub fn cases(thorough: bool) -> Vec<Case> {
    let mut out = Vec::new();
    let mut examples: Vec<(String, Vec<String>)> = cmdtable::all_commands();
    for (n, a) in EXTRA_EXAMPLES {
        examples.push((n.to_string(), a.iter().map(|s| s.to_string()).collect()));
    }
    let states: Vec<usize> = if thorough { (0..9).collect() } else { vec![0, 1, 2] };
    let nums = numeric_values(thorough);
    let strs = string_values(thorough);
    let ids = id_values();
    for (name, ex) in examples.iter() {
        if name == "SHUTDOWN" || name == "SYNC" || name == "PSYNC" {
            continue; // intentional: exits / hands the connection to replication (see DESIGN C06)
        }
        let full: Vec<Vec<u8>> = std::iter::once(name.clone().into_bytes()).chain(ex.iter().map(|s| s.clone().into_bytes())).collect();
        for (i, a) in ex.iter().enumerate() {
            let pos = i + 1;
            let is_id = a.contains('-') && a.split('-').all(|p| p.chars().all(|c| c.is_ascii_digit()) && !p.is_empty());
            if cmdtable::is_numeric(a) {
                for (vc, val) in nums.iter() {
                    for &s in states.iter() {
                        let mut c = full.clone();
                        c[pos] = val.clone();
                        out.push(Case { name: name.clone(), cmd: c, pos, vclass: vc.to_string(), state: s, raw: None, pre: None, observed: false });
                    }
                }
            } else if is_id || a == "$" || a == ">" || a == "*" {
                for (vc, val) in ids.iter() {
                    for &s in [0usize, 6].iter() {
                        let mut c = full.clone();
                        c[pos] = val.clone();
                        out.push(Case { name: name.clone(), cmd: c, pos, vclass: format!("id:{}", vc), state: s, raw: None, pre: None, observed: false });
                    }
                }
            } else {
                for (vc, val) in strs.iter() {
                    let sts: Vec<usize> = if thorough { vec![0, 1, 2, 6] } else { vec![0, 2] };
                    for s in sts {
                        let mut c = full.clone();
                        c[pos] = val.clone();
                        out.push(Case { name: name.clone(), cmd: c, pos, vclass: format!("str:{}", vc), state: s, raw: None, pre: None, observed: false });
                    }
                }
                // a number where a word is expected
                let mut c = full.clone();
                c[pos] = b"9223372036854775807".to_vec();
                out.push(Case { name: name.clone(), cmd: c, pos, vclass: "num-for-word".into(), state: 0, raw: None, pre: None, observed: false });
            }
        }
        // the plain example on every state (incl. the large ones)
        for s in 0..9 {
            if thorough || s < 3 || s >= 7 {
                out.push(Case { name: name.clone(), cmd: full.clone(), pos: 0, vclass: "example".into(), state: s, raw: None, pre: None, observed: false });
            }
        }
    }
    // aliased and colliding keys: every multi-key command with the same key in every key position, and with
    // a second key that lives in the same storage shard as the first (a seeded change that kept a shard lock while
    // looking at the next key deadlocked the command thread only for such pairs)
    {
        let shard = |k: &[u8]| -> u64 {
            // the engine's shard function (FNV-1a 64 of the key, modulo its 16 shards)
            let mut h: u64 = 0xcbf29ce484222325;
            for &b in k {
                h ^= b as u64;
                h = h.wrapping_mul(0x100000001b3);
            }
            h % 16
        };
        let sibling: Vec<u8> = (0..10_000).map(|i| format!("sib{}", i).into_bytes()).find(|c| shard(c) == shard(b"k")).unwrap_or_else(|| b"k".to_vec());
        let multi: Vec<Vec<&str>> = vec![
            vec!["DEL", "k", "K2"], vec!["EXISTS", "k", "K2"], vec!["MGET", "k", "K2"], vec!["MSET", "k", "v", "K2", "w"], vec!["RENAME", "k", "K2"], vec!["RENAMENX", "k", "K2"],
            vec!["SUNION", "k", "K2"], vec!["SINTER", "k", "K2"], vec!["SDIFF", "k", "K2"], vec!["SUNION", "k", "K2", "k"], vec!["SINTER", "k", "K2", "k"], vec!["SDIFF", "k", "K2", "k"],
            vec!["BLPOP", "k", "K2", "1"], vec!["BRPOP", "k", "K2", "1"], vec!["WATCH", "k", "K2"], vec!["XREAD", "STREAMS", "k", "K2", "0-0", "0-0"],
            vec!["XREADGROUP", "GROUP", "g", "c", "STREAMS", "k", "K2", ">", ">"], vec!["EVAL", "return redis.call('SINTER', KEYS[1], KEYS[2])", "2", "k", "K2"],
            vec!["EVAL", "return redis.call('RENAME', KEYS[1], KEYS[2])", "2", "k", "K2"],
        ];
        for cmdline in multi.iter() {
            for (vc, second) in [("same-key-twice", b"k".to_vec()), ("second-key-in-the-same-shard", sibling.clone())] {
                let cmd: Vec<Vec<u8>> = cmdline.iter().map(|a| if *a == "K2" { second.clone() } else { a.as_bytes().to_vec() }).collect();
                for s in 0..7 {
                    out.push(Case { name: cmdline[0].to_string(), cmd: cmd.clone(), pos: 2, vclass: vc.to_string(), state: s, raw: None, pre: None, observed: false });
                }
            }
        }
    }
    // bursts against a blocked client: while another connection waits in BLPOP / BRPOP on k (one or two keys), every
    // ordered pair (thorough: triple) of a menu of commands on k arrives in one write, plainly and inside MULTI/EXEC - the
    // wake-up that a push queued meets whatever the rest of the burst made of the key (a seeded `?` on the wake-up's pop
    // took the whole server down when the key had become a string in between)
    {
        let menu: Vec<Vec<&str>> = vec![
            vec!["RPUSH", "k", "x"], vec!["LPUSH", "k", "x", "y"], vec!["DEL", "k"], vec!["SET", "k", "str"], vec!["SADD", "k", "m"], vec!["LPOP", "k"], vec!["RENAME", "k", "k2"],
            vec!["RENAME", "k2", "k"], vec!["PEXPIRE", "k", "1"], vec!["FLUSHDB"], vec!["HSET", "k", "f", "v"], vec!["LTRIM", "k", "1", "0"],
        ];
        let waiters: Vec<(&str, Vec<&str>)> = vec![("BLPOP k 0", vec!["BLPOP", "k", "0"]), ("BRPOP k2 k 5", vec!["BRPOP", "k2", "k", "5"])];
        let mut bursts: Vec<Vec<usize>> = Vec::new();
        for a in 0..menu.len() {
            for b2 in 0..menu.len() {
                bursts.push(vec![a, b2]);
                if thorough {
                    for c in 0..menu.len() {
                        bursts.push(vec![a, b2, c]);
                    }
                }
            }
        }
        for (wname, wcmd) in waiters.iter() {
            for burst in bursts.iter() {
                // only bursts that can queue a wake-up matter: they contain a push
                if !burst.iter().any(|i| menu[*i][0].ends_with("PUSH")) {
                    continue;
                }
                for in_multi in [false, true] {
                    let mut bytes = Vec::new();
                    if in_multi {
                        bytes.extend(resp::cmd(&["MULTI"]));
                    }
                    for i in burst.iter() {
                        bytes.extend(resp::cmd(&menu[*i]));
                    }
                    if in_multi {
                        bytes.extend(resp::cmd(&["EXEC"]));
                    }
                    let name = format!("burst against {}: {}{}", wname, burst.iter().map(|i| menu[*i].join(" ")).collect::<Vec<_>>().join(", "), if in_multi { " (in MULTI/EXEC)" } else { "" });
                    out.push(Case { name: "(burst)".into(), cmd: vec![], pos: 0, vclass: name, state: 0, raw: Some(bytes), pre: Some(resp::cmd(wcmd)), observed: false });
                }
            }
        }
    }
    // scripts that never end / recurse / allocate
    for (vc, script) in [("infinite-loop", "while true do end"), ("deep-recursion", "local function f(n) return f(n+1)+1 end return f(1)"), ("big-string", "return string.rep('x', 8*1024*1024)"),
        ("big-table", "local t={} for i=1,1000000 do t[i]=i end return #t"), ("error-object", "error({1,2,3})"), ("pcall-loop", "return redis.pcall('EVAL','return 1','0')")] {
        out.push(Case { name: "EVAL".into(), cmd: vec![b"EVAL".to_vec(), script.as_bytes().to_vec(), b"0".to_vec()], pos: 1, vclass: format!("script:{}", vc), state: 0, raw: None, pre: None, observed: false });
    }
    // raw byte frames
    for (n, b) in super::c20::totality_inputs() {
        if b.len() > (8 << 20) {
            continue;
        }
        out.push(Case { name: "(raw)".into(), cmd: vec![], pos: 0, vclass: n, state: 0, raw: Some(b), pre: None, observed: false });
    }
    for (n, b) in super::c05::malformed_frames() {
        out.push(Case { name: "(raw)".into(), cmd: vec![], pos: 0, vclass: n.to_string(), state: 0, raw: Some(b), pre: None, observed: false });
    }
    // truncated frames: every proper prefix of every encoding of the codec corpus (all RESP2/RESP3 frame types,
    // null forms, nested containers, command arrays), each on its own connection which is then closed
    // (a seeded off-by-one in the "frame complete?" guard of one RESP3 type went unnoticed without these)
    {
        let mut seen: std::collections::BTreeSet<Vec<u8>> = std::collections::BTreeSet::new();
        for enc in super::c20::encodings_corpus(if thorough { 3 } else { 2 }) {
            for cut in 1..enc.len() {
                let p = enc[..cut].to_vec();
                if seen.insert(p.clone()) {
                    out.push(Case { name: "(raw)".into(), cmd: vec![], pos: 0, vclass: format!("truncated {}", crate::resp::show_bytes(&p)), state: 0, raw: Some(p), pre: None, observed: false });
                }
            }
        }
    }
    out.push(Case { name: "(raw)".into(), cmd: vec![], pos: 0, vclass: "bulk header 512MiB then nothing".into(), state: 0, raw: Some(b"*2\r\n$3\r\nGET\r\n$536870912\r\nab".to_vec()), pre: None, observed: false });
    out.push(Case { name: "(raw)".into(), cmd: vec![], pos: 0, vclass: "1 MiB without CRLF".into(), state: 0, raw: Some(vec![b'+'; 1 << 20]), pre: None, observed: false });
    // the same commands while somebody is watching: monitoring switched on in the configuration (the per-command
    // bookkeeping has a second implementation for that), a MONITOR client attached, the slow log taking every command -
    // every example, every word class and (thorough) every numeric class once more
    let again: Vec<Case> = out.iter().filter(|c| c.raw.is_none() && (c.vclass == "example" || c.vclass.starts_with("str:") || c.vclass == "num-for-word" || (thorough && !c.vclass.starts_with("script:") && !c.vclass.contains("key")))
        && !matches!(c.name.as_str(), "MONITOR" | "CLIENT" | "CONFIG" | "SLOWLOG")).map(|c| { let mut d = c.clone(); d.observed = true; d.vclass = format!("{} (observed)", c.vclass); d }).collect();
    out.extend(again);
    out
}

const SENTINEL: &[&[&str]] = &[
    &["SET", "sent:s", "value"], &["RPUSH", "sent:l", "a", "b"], &["SADD", "sent:set", "m"], &["HSET", "sent:h", "f", "v"], &["ZADD", "sent:z", "1.5", "m"], &["XADD", "sent:x", "1-1", "f", "v"],
];

fn sentinel_reads() -> Vec<(Vec<&'static str>, R)> {
    let b = |s: &str| R::Bulk(s.as_bytes().to_vec());
    vec![
        (vec!["GET", "sent:s"], b("value")),
        (vec!["LRANGE", "sent:l", "0", "-1"], R::Arr(vec![b("a"), b("b")])),
        (vec!["SMEMBERS", "sent:set"], R::Arr(vec![b("m")])),
        (vec!["HGETALL", "sent:h"], R::Arr(vec![b("f"), b("v")])),
        (vec!["ZRANGE", "sent:z", "0", "-1", "WITHSCORES"], R::Arr(vec![b("m"), b("1.5")])),
        (vec!["XLEN", "sent:x"], R::Int(1)),
    ]
}

struct W {
    h: Harness,
    sentinel_ready: bool,
    started: usize,
    /// the other server (monitoring on if `h` is the plain one and the other way round) and its sentinel flag
    other: Harness,
    other_sentinel_ready: bool,
    h_is_observed: bool,
    monitor: Option<Client>,
    monitor_restarts: usize,
}

fn send_stepping(h: &mut Harness, cli: &mut Client, bytes: &[u8]) -> Result<(), String> {
    let mut off = 0;
    let mut stalls = 0;
    while off < bytes.len() {
        let n = cli.send_some(&bytes[off..]);
        off += n;
        if n == 0 {
            if cli.closed {
                return Ok(());
            }
            match h.srv.as_ref().unwrap().step() {
                StepResult::Arrived => {}
                StepResult::Died => return Ok(()),
                StepResult::Parked => return Err("parked".into()),
            }
            stalls += 1;
            if stalls > 200_000 {
                return Err("could not deliver the request bytes".into());
            }
        }
    }
    Ok(())
}

fn seed_state(h: &mut Harness, state: usize) -> Result<(), String> {
    h.aux_call(&["SELECT", "0"])?;
    h.aux_call(&["FLUSHDB"])?;
    match state {
        0..=6 => {
            for c in cmdtable::key_states()[state].1.iter() {
                h.aux_call(c)?;
            }
        }
        7 => {
            // 10^5-element list, built in pipelined chunks
            let mut args: Vec<Vec<u8>> = vec![b"RPUSH".to_vec(), b"k".to_vec()];
            for i in 0..1000 {
                args.push(format!("e{}", i).into_bytes());
            }
            for _ in 0..100 {
                h.aux_call(&args)?;
            }
        }
        _ => {
            let big = vec![b'B'; 1 << 20];
            h.aux_call(&[b"SET".to_vec(), b"k".to_vec(), big])?;
        }
    }
    Ok(())
}

/// the follow-up battery: returns the command during which the server exited, if it did
fn follow_up(h: &mut Harness) -> Result<Option<String>, String> {
    let battery: Vec<Vec<&str>> = vec![
        vec!["SELECT", "0"], vec!["SAVE"], vec!["TTL", "k"], vec!["PTTL", "k"], vec!["TYPE", "k"], vec!["EXISTS", "k"], vec!["KEYS", "*"], vec!["SCAN", "0", "COUNT", "100"], vec!["DBSIZE"], vec!["RANDOMKEY"],
        vec!["GET", "k"], vec!["STRLEN", "k"], vec!["LRANGE", "k", "0", "-1"], vec!["SMEMBERS", "k"], vec!["HGETALL", "k"], vec!["ZRANGE", "k", "0", "-1", "WITHSCORES"], vec!["ZRANGEBYSCORE", "k", "-inf", "+inf"],
        vec!["XRANGE", "k", "-", "+"], vec!["XLEN", "k"], vec!["XINFO", "STREAM", "k"], vec!["XINFO", "GROUPS", "k"], vec!["XINFO", "CONSUMERS", "k", "g"], vec!["XPENDING", "k", "g"], vec!["XPENDING", "k", "g", "-", "+", "10"],
        vec!["MEMORY", "USAGE", "k"], vec!["INFO"], vec!["INCR", "k"], vec!["APPEND", "k", "x"], vec!["ZINCRBY", "k", "1", "a"], vec!["ZADD", "k", "3", "a"], vec!["ZREM", "k", "a"], vec!["EXPIRE", "k", "100"], vec!["PERSIST", "k"],
        vec!["SAVE"], vec!["PING"],
    ];
    for cmd in battery {
        if h.srv.as_ref().map(|s| s.is_dead()).unwrap_or(true) {
            return Ok(Some("(before the follow-up)".into()));
        }
        if h.aux.as_ref().map(|c| !c.is_open()).unwrap_or(true) {
            h.ensure()?;
        }
        let srv = h.srv.as_ref().unwrap();
        let aux = h.aux.as_mut().unwrap();
        // the reply may be as large as what the case stored (16 MiB words in the thorough tier): a generous budget of
        // loop iterations, and a control connection that lost step with its replies is dropped, not reused
        let r = srv.send_all(aux, &resp::cmd(&cmd)).and_then(|_| srv.await_reply(aux, 6000));
        match r {
            Ok(_) => {}
            Err(e) => {
                if srv.is_dead() {
                    return Ok(Some(cmd.join(" ")));
                }
                h.aux = None;
                return Err(format!("follow-up {}: {:?}", cmd.join(" "), e));
            }
        }
    }
    Ok(None)
}

fn run_case(w: &mut W, c: &Case) -> Result<(String, Value), String> {
    if c.observed != w.h_is_observed {
        std::mem::swap(&mut w.h, &mut w.other);
        std::mem::swap(&mut w.sentinel_ready, &mut w.other_sentinel_ready);
        w.h_is_observed = c.observed;
    }
    let force_fresh = w.h.srv.as_ref().map(|s| s.is_dead()).unwrap_or(true);
    w.h.ensure()?;
    if c.observed {
        // somebody is watching: a MONITOR client on this server instance, and a slow log that takes everything
        if w.monitor_restarts != w.h.restarts || w.monitor.as_ref().map(|m| !m.is_open()).unwrap_or(true) {
            w.h.aux_call(&["CONFIG", "SET", "slowlog-log-slower-than", "0"])?;
            let mut m = w.h.srv.as_ref().unwrap().connect().map_err(|e| format!("connect: {:?}", e))?;
            m.send(&resp::cmd(&["MONITOR"]));
            let _ = w.h.srv.as_ref().unwrap().steps(3);
            w.monitor = Some(m);
            w.monitor_restarts = w.h.restarts;
        }
        if let Some(m) = w.monitor.as_mut() {
            m.poll();
            m.buf.clear();
        }
    }
    if force_fresh || !w.sentinel_ready {
        w.h.aux_call(&["SELECT", "1"])?;
        for s in SENTINEL {
            w.h.aux_call(s)?;
        }
        w.sentinel_ready = true;
        w.started = w.h.restarts;
    }
    seed_state(&mut w.h, c.state)?;
    let mut waiter: Option<Client> = None;
    if let Some(pre) = &c.pre {
        let mut wc = w.h.srv.as_ref().unwrap().connect().map_err(|e| format!("connect: {:?}", e))?;
        wc.send(pre);
        let _ = w.h.srv.as_ref().unwrap().steps(3);
        waiter = Some(wc);
    }
    let mut cli = w.h.srv.as_ref().unwrap().connect().map_err(|e| format!("connect: {:?}", e))?;
    let bytes = match &c.raw {
        Some(b) => b.clone(),
        None => resp::cmd(&materialize(&c.cmd)),
    };
    send_stepping(&mut w.h, &mut cli, &bytes)?;
    let (got, err) = w.h.collect(&mut cli, 1, 3 + bytes.len() / 4096);
    if let Some(mut wc) = waiter.take() {
        // let the wake-ups run, then the waiter leaves
        if !w.h.srv.as_ref().unwrap().is_dead() {
            let _ = w.h.srv.as_ref().unwrap().steps(4);
        }
        wc.discard();
        if !w.h.srv.as_ref().unwrap().is_dead() {
            let _ = w.h.srv.as_ref().unwrap().steps(2);
        }
    }
    let reply = got.first().map(resp::show).unwrap_or_else(|| err.clone().unwrap_or_else(|| "(no reply)".into()));
    let mut outcome = "ok".to_string();
    let mut detail = json!({"request": if c.raw.is_some() { resp::show_bytes(&bytes) } else { resp::show_cmd(&c.cmd) }, "key_state": state_names()[c.state], "reply": if reply.len() > 200 { format!("{}…", &reply[..200]) } else { reply }});
    if w.h.srv.as_ref().unwrap().is_dead() {
        outcome = "server-exited".into();
        detail["panic"] = json!(crate::srv::LAST_PANIC.lock().unwrap().clone());
        w.sentinel_ready = false;
        return Ok((outcome, detail));
    }
    // liveness: a new connection is served
    let mut probe = match w.h.srv.as_ref().unwrap().connect() {
        Ok(p) => p,
        Err(e) => {
            detail["liveness"] = json!(format!("{:?}", e));
            cli.discard();
            w.sentinel_ready = false;
            return Ok((if w.h.srv.as_ref().unwrap().is_dead() { "server-exited".into() } else { "new-connection-not-accepted".into() }, detail));
        }
    };
    probe.send(&resp::cmd(&["PING"]));
    let (pong, perr) = w.h.collect(&mut probe, 1, 4);
    let paused = matches!(pong.first(), Some(R::Err(e)) if String::from_utf8_lossy(e).contains("PAUSE"));
    if pong.first() != Some(&R::Simple(b"PONG".to_vec())) && !(paused && c.name == "CLIENT") {
        outcome = if w.h.srv.as_ref().unwrap().is_dead() { "server-exited".into() } else { "no-PONG-on-new-connection".into() };
        detail["liveness"] = json!({"reply": pong.first().map(resp::show), "error": perr});
    }
    probe.discard();
    // sentinel dataset (db 1) intact, unless the command is documented to empty everything
    let wipes_all = c.name == "FLUSHALL" || (c.name == "REPLICAOF" || c.name == "SLAVEOF");
    if outcome == "ok" && !wipes_all && !(paused) {
        w.h.aux_call(&["SELECT", "1"])?;
        for (q, want) in sentinel_reads() {
            let got = w.h.aux_call(&q)?;
            if !crate::model::same(&want, &got) {
                outcome = "stored-data-damaged".into();
                detail["sentinel"] = json!({"query": q.join(" "), "expected": resp::show(&want), "actual": resp::show(&got)});
                break;
            }
        }
    }
    // what the command left behind must not bring the server down later: everything stored under k is saved, listed and
    // read in full (a time to live that a later SAVE cannot represent, a counter that underflows at the next update, ...)
    if outcome == "ok" && c.raw.is_none() && !paused && !matches!(c.name.as_str(), "CLIENT" | "MONITOR" | "REPLICAOF" | "SLAVEOF") {
        if let Some(cmd) = follow_up(&mut w.h)? {
            outcome = "server-exited-later".into();
            detail["later_command"] = json!(cmd);
            detail["panic"] = json!(crate::srv::LAST_PANIC.lock().unwrap().clone());
            w.sentinel_ready = false;
            cli.discard();
            return Ok((outcome, detail));
        }
    }
    cli.discard();
    if let Some(s) = w.h.srv.as_ref() {
        if !s.is_dead() {
            let _ = s.steps(2);
        }
    }
    if wipes_all || paused || c.name == "CLIENT" || c.name == "CONFIG" || c.name == "SELECT" {
        // leave no lasting mode behind: fresh server for the next case
        w.h.srv = None;
        w.h.aux = None;
        w.sentinel_ready = false;
    }
    Ok((outcome, detail))
}


/// One client with a large backlog of replies that reads slowly but steadily must not keep the event loop to itself:
/// 48 GETs of a 1 MiB value are requested in one write; a reader thread of the checker takes 64 KiB every 4 ms (real time,
/// the loop's back-off sleeps are real for this scenario) while the loop is stepped one iteration at a time. No single iteration may deliver more than two thirds of the backlog (the flush gives up after a few refusals of the
/// socket); a seeded reset of the give-up counter on every partial success delivered nearly all of it inside one
/// iteration, for as long as the reader cared to take - nobody else is served meanwhile.
fn slow_reader_scenario(h: &mut Harness) -> Result<Option<Value>, String> {
    use std::io::Read;
    use std::sync::atomic::{AtomicBool, AtomicU64, Ordering};
    use std::sync::Arc;
    h.ensure()?;
    h.aux_call(&["SELECT", "0"])?;
    let value = vec![b'v'; 1 << 20];
    h.aux_call(&[b"SET".to_vec(), b"slow:big".to_vec(), value.clone()])?;
    let gets = 48usize;
    let total = (gets * (value.len() + 12)) as u64;
    let srv = h.srv.as_ref().unwrap();
    let mut a = srv.connect().map_err(|e| format!("connect: {:?}", e))?;
    let mut req = Vec::new();
    for _ in 0..gets {
        req.extend(resp::cmd(&["GET", "slow:big"]));
    }
    let stream = a.clone_stream().ok_or_else(|| "no socket to clone".to_string())?;
    let got = Arc::new(AtomicU64::new(0));
    let stop = Arc::new(AtomicBool::new(false));
    // (the reader starts taking after the iteration in which the replies are produced: that one takes as long as
    // producing 48 MiB takes, which says nothing about the flush)
    let go = Arc::new(AtomicBool::new(false));
    let go2 = go.clone();
    let (got2, stop2) = (got.clone(), stop.clone());
    let reader = std::thread::Builder::new().name("slow-reader".into()).spawn(move || {
        crate::vtime::mark_free_running();
        let mut stream = stream;
        let _ = stream.set_nonblocking(true);
        let mut buf = vec![0u8; 64 * 1024];
        while !stop2.load(Ordering::SeqCst) {
            if !go2.load(Ordering::SeqCst) {
                crate::vtime::real_sleep_us(200);
                continue;
            }
            if let Ok(n) = stream.read(&mut buf) {
                got2.fetch_add(n as u64, Ordering::SeqCst);
            }
            crate::vtime::real_sleep_us(4000);
        }
    }).map_err(|e| format!("spawn reader: {}", e))?;
    crate::vtime::REAL_SLEEPS_WHEN_FREE_RUNNING.store(true, Ordering::SeqCst);
    a.send(&req);
    let start = crate::vtime::real_now_ns();
    let mut iterations = 0u64;
    let mut dead = false;
    let mut max_iter_us = 0u64;
    let mut max_iter_bytes = 0u64;
    let mut got_before = 0u64;
    let mut last = crate::vtime::real_now_ns();
    while got.load(Ordering::SeqCst) < total {
        match srv.step() {
            StepResult::Arrived => {}
            _ => {
                dead = true;
                break;
            }
        }
        iterations += 1;
        go.store(true, Ordering::SeqCst);
        let now = crate::vtime::real_now_ns();
        max_iter_us = max_iter_us.max((now - last) / 1000);
        let g = got.load(Ordering::SeqCst);
        max_iter_bytes = max_iter_bytes.max(g - got_before);
        crate::vtime::real_sleep_us(200);
        last = crate::vtime::real_now_ns();
        got_before = got.load(Ordering::SeqCst);
        if crate::vtime::real_now_ns() - start > 60_000_000_000 {
            break;
        }
    }
    crate::vtime::REAL_SLEEPS_WHEN_FREE_RUNNING.store(false, Ordering::SeqCst);
    stop.store(true, Ordering::SeqCst);
    let _ = reader.join();
    let delivered = got.load(Ordering::SeqCst);
    a.discard();
    if !dead {
        let _ = h.srv.as_ref().unwrap().steps(2);
        let _ = h.aux_call(&["DEL", "slow:big"]);
    }
    let ms = (crate::vtime::real_now_ns() - start) / 1_000_000;
    if dead {
        return Ok(Some(json!({"problem": "server-exited", "panic": crate::srv::LAST_PANIC.lock().unwrap().clone()})));
    }
    if delivered < total {
        return Ok(Some(json!({"problem": "backlog-not-delivered-within-60-s", "delivered": delivered, "total": total, "iterations": iterations})));
    }
    // the loop's flush gives up after a handful of refusals, so what one iteration can deliver is what the reader takes
    // during a few back-off sleeps - a small part of the backlog (about a fifth with these numbers); more than two thirds of it inside one iteration means the
    // loop stayed with this connection for as long as its reader kept taking
    if max_iter_bytes > total / 3 * 2 {
        return Ok(Some(json!({"problem": "one-connection-kept-the-event-loop-to-itself", "bytes_delivered_within_one_loop_iteration": max_iter_bytes, "backlog_bytes": total, "longest_iteration_us": max_iter_us,
            "took_ms": ms, "reader": "64 KiB every 4 ms"})));
    }
    Ok(Some(json!({"problem": null, "loop_iterations_until_the_backlog_was_through": iterations, "took_ms": ms, "longest_iteration_us": max_iter_us, "most_bytes_delivered_within_one_loop_iteration": max_iter_bytes, "backlog_bytes": total, "back_off_sleeps": crate::vtime::REAL_SLEEPS_TAKEN.load(Ordering::SeqCst), "back_off_sleep_us": crate::vtime::REAL_SLEEPS_US.load(Ordering::SeqCst)})))
}

pub fn handle_factory() -> impl FnMut(&str, &Value, &mut WorkerIo) -> (Value, bool) {
    let mut w = W { h: Harness::new(SrvOpts::default()), sentinel_ready: false, started: 0, other: Harness::new(SrvOpts { monitoring: true, ..SrvOpts::default() }), other_sentinel_ready: false,
        h_is_observed: false, monitor: None, monitor_restarts: usize::MAX };
    crate::WATCHDOG_LIMIT_MS.store(12_000, std::sync::atomic::Ordering::SeqCst);
    move |tier: &str, task: &Value, io: &mut WorkerIo| {
        let thorough = task["thorough"].as_bool().or_else(|| task["replay"]["thorough"].as_bool()).unwrap_or(tier == "thorough");
        let all = cases(thorough);
        let run = |w: &mut W, i: usize, io: &mut WorkerIo| -> Value {
            let c = &all[i];
            io.announce_case(json!({"i": i}));
            match run_case(w, c) {
                Ok((o, d)) => json!({"i": i, "outcome": o, "detail": d}),
                Err(e) => json!({"i": i, "machinery_error": e}),
            }
        };
        if task.get("slow_reader").is_some() || task.get("replay").map(|r| r["kind"] == "slow_reader").unwrap_or(false) {
            io.announce_case(json!({"slow_reader": true}));
            if w.h_is_observed {
                std::mem::swap(&mut w.h, &mut w.other);
                std::mem::swap(&mut w.sentinel_ready, &mut w.other_sentinel_ready);
                w.h_is_observed = false;
            }
            // the scenario runs in real time: a verdict needs two runs in a row that agree
            let mut r = slow_reader_scenario(&mut w.h);
            if matches!(&r, Ok(Some(v)) if v["problem"].is_string()) {
                let again = slow_reader_scenario(&mut w.h);
                if !matches!(&again, Ok(Some(v)) if v["problem"].is_string()) {
                    r = again;
                }
            }
            return (match r {
                Ok(v) => json!({"slow_reader": v}),
                Err(e) => json!({"slow_reader_error": e}),
            }, true);
        }
        if let Some(r) = task.get("replay") {
            let i = r["index"].as_u64().unwrap_or(0) as usize;
            if i < all.len() {
                return (run(&mut w, i, io), false);
            }
            return (json!({"error": "index out of range"}), false);
        }
        let (a, b) = (task["range"][0].as_u64().unwrap_or(0) as usize, task["range"][1].as_u64().unwrap_or(0) as usize);
        let skip: BTreeSet<u64> = task["skip"].as_array().map(|v| v.iter().filter_map(|x| x.as_u64()).collect()).unwrap_or_default();
        let mut recs = Vec::new();
        for i in a..b.min(all.len()) {
            if skip.contains(&(i as u64)) {
                continue;
            }
            recs.push(run(&mut w, i, io));
        }
        (json!({"recs": recs}), w.h.restarts > 60)
    }
}

pub fn sig_of(c: &Case, outcome: &str) -> String {
    let what = if c.raw.is_some() { format!("raw:{}", c.vclass) } else { format!("{}|arg{}={}", c.name, c.pos, c.vclass) };
    format!("C06|{}|{}|{}", what, state_names()[c.state], outcome)
}

pub fn parent(tier: &str) -> i32 {
    let thorough = tier == "thorough";
    let mut report = RunReport::new("C06", tier, "exploration");
    let mut pool = Pool::new("C06", tier, super::e1common::nworkers());
    pool.rlimit_as = 8 << 30;
    let all = cases(thorough);
    let chunk = 60;
    // ranges; a range whose worker dies is re-issued without the fatal case
    let mut pending: Vec<(usize, usize, Vec<u64>)> = Vec::new();
    let mut i = 0;
    while i < all.len() {
        // cases that may hang (scripts) run alone so that their watchdog waits overlap
        if all[i].vclass.starts_with("script:") {
            pending.push((i, i + 1, vec![]));
            i += 1;
            continue;
        }
        let mut j = i;
        while j < all.len() && j < i + chunk && !all[j].vclass.starts_with("script:") {
            j += 1;
        }
        pending.push((i, j, vec![]));
        i = j;
    }
    pending.sort_by_key(|(a, _, _)| if all[*a].vclass.starts_with("script:") { 0 } else { 1 });
    let mut results: std::collections::BTreeMap<usize, (String, Value)> = std::collections::BTreeMap::new();
    let mut rounds = 0;
    while !pending.is_empty() && rounds < 40 {
        rounds += 1;
        let tasks: Vec<Value> = pending.iter().map(|(a, b, skip)| json!({"range": [a, b], "skip": skip, "thorough": thorough})).collect();
        let out = pool.map(tasks, 0);
        let mut next: Vec<(usize, usize, Vec<u64>)> = Vec::new();
        for ((a, b, skip), o) in pending.iter().zip(out.iter()) {
            match o {
                Outcome::Done(v) => {
                    for r in v["recs"].as_array().cloned().unwrap_or_default() {
                        let idx = r["i"].as_u64().unwrap_or(0) as usize;
                        if let Some(e) = r.get("machinery_error") {
                            report.machinery_errors.push(format!("case {} ({}): {}", idx, resp::show_cmd(&all[idx].cmd), e));
                        } else {
                            results.insert(idx, (r["outcome"].as_str().unwrap_or("").to_string(), r["detail"].clone()));
                        }
                    }
                }
                Outcome::Died { status, case } => {
                    let idx = case.as_ref().and_then(|c| c["i"].as_u64());
                    match idx {
                        Some(idx) => {
                            let outcome = if status.contains("86") { "hang (event loop did not come back within 12 s)".to_string() } else { format!("process died ({})", status) };
                            results.insert(idx as usize, (outcome, json!({"request": if all[idx as usize].raw.is_some() { all[idx as usize].vclass.clone() } else { resp::show_cmd(&all[idx as usize].cmd) }, "status": status})));
                            // re-issue the rest of the range: cases before idx are lost with the worker, run them again too (cheap), skipping the fatal ones
                            let mut s2 = skip.clone();
                            s2.push(idx);
                            next.push((*a, *b, s2));
                        }
                        None => report.machinery_errors.push(format!("worker died without announcing a case: {}", status)),
                    }
                }
            }
        }
        pending = next;
    }
    // A worker that died is a long-lived process (thousands of cases, restarted servers, an address-space limit): before
    // its death becomes the verdict of the case it had announced, that case is run again alone in a fresh worker. A
    // subject that really crashes the process does so again.
    {
        let died: Vec<usize> = results.iter().filter(|(_, (o, _))| o.starts_with("process died")).map(|(i, _)| *i).collect();
        if !died.is_empty() {
            let tasks: Vec<Value> = died.iter().map(|i| json!({"range": [i, i + 1], "skip": [], "thorough": thorough, "fresh": true})).collect();
            let out = pool.map(tasks, 1); // (a new worker process for every one of them)
            for (idx, o) in died.iter().zip(out.iter()) {
                if let Outcome::Done(v) = o {
                    if let Some(r) = v["recs"].as_array().and_then(|a| a.first()) {
                        if r.get("machinery_error").is_none() {
                            let mut d = r["detail"].clone();
                            d["note"] = json!("the long-lived worker died while this case ran; alone in a fresh worker the case ends like this");
                            results.insert(*idx, (r["outcome"].as_str().unwrap_or("").to_string(), d));
                        }
                    }
                }
            }
        }
    }
    let mut slow_reader_cov = json!(null);
    match &pool.map(vec![json!({"slow_reader": true, "thorough": thorough})], 0)[0] {
        Outcome::Done(v) => {
            if let Some(e) = v.get("slow_reader_error") {
                report.machinery_errors.push(format!("slow reader scenario: {}", e));
            } else if let Some(r) = v.get("slow_reader") {
                slow_reader_cov = r.clone();
                if let Some(p) = r["problem"].as_str() {
                    report.deviations.push(Deviation { property: "C06".into(), sig: format!("C06|SLOW-READER|{}", p), replay: json!({"kind": "slow_reader", "detail": r}) });
                }
            }
        }
        Outcome::Died { status, .. } => report.deviations.push(Deviation { property: "C06".into(), sig: "C06|SLOW-READER|process-died".into(), replay: json!({"kind": "slow_reader", "status": status}) }),
    }
    let mut outcomes: BTreeSet<String> = BTreeSet::new();
    let mut distinct: BTreeSet<String> = BTreeSet::new();
    let mut samples = Vec::new();
    for (idx, (outcome, detail)) in results.iter() {
        let c = &all[*idx];
        outcomes.insert(outcome.split('(').next().unwrap_or("").trim().to_string());
        distinct.insert(format!("{}|{}|{}|{}", c.name, c.pos, c.vclass, c.state));
        if samples.len() < 4 && (outcome != "ok" || idx % 997 == 0) {
            samples.push(json!({"case": detail, "outcome": outcome}));
        }
        if outcome != "ok" {
            let short = outcome.split('(').next().unwrap_or("").trim().to_string();
            report.deviations.push(Deviation { property: "C06".into(), sig: sig_of(c, &short), replay: json!({"kind": "case", "index": idx, "thorough": thorough, "outcome": outcome, "detail": detail}) });
        }
    }
    if results.len() < all.len() {
        report.machinery_errors.push(format!("{} of {} cases have no verdict", all.len() - results.len(), all.len()));
    }
    if samples.is_empty() {
        samples.push(json!({"note": "no sample"}));
    }
    println!("  c06: cases={} verdicts={} outcomes={:?}", all.len(), results.len(), outcomes);
    report.coverage = json!({
        "evaluations": results.len(), "distinct_nontrivial": distinct.len(), "slow_reader_scenario": slow_reader_cov,
        "rule": "finite product enumerated completely: every dispatched command (table + names scraped from the source) x every argument position x boundary values (numeric positions: 0, +-1, i32/i64/u64 min/max and max+1, 1e308, inf, nan, empty, ...; id positions: 0-0, max-max, malformed; word positions: empty, 64 KiB, invalid UTF-8, NUL/CRLF, a huge number) x key state (missing, string, list; thorough: all six types and a 10^5-element list and 1 MiB string), plus every multi-key command with the same key twice and with a second key of the same storage shard, never-ending / exploding scripts and hostile byte frames (declared lengths up to 10^20, nesting up to 10^6, malformed frames, every proper prefix of every encoding of the codec corpus). One case = one request on a fresh connection followed by liveness (event loop alive, PONG on a new connection) and integrity (sentinel dataset of six types in db 1) probes.",
        "samples": samples, "exhaustive": true, "distinct_outcomes": outcomes.iter().cloned().collect::<Vec<_>>(),
        "excluded": ["SHUTDOWN (documented purpose: exits)", "SYNC/PSYNC (hand the connection to replication)", "REPLICAOF/SLAVEOF with a host (connects out); NO ONE is a case"],
    });
    report.assumptions = vec![
        "a server-thread panic is observed in-process (the shipped binary would exit); aborts and hangs kill the worker process and are attributed to the case it announced".into(),
        "memory exhaustion below the worker's 8 GiB address-space limit is not called a crash".into(),
        "SLEEP returns at once under the virtual clock (the event-loop thread is free-running); CLIENT PAUSE is followed by a fresh server".into(),
    ];
    report.finish()
}
