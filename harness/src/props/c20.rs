//! C20 — the RESP codec round-trips and is independent of how bytes are chunked (E4, in-process).
//! Three exhaustive sweeps over the real `serialize_to_vec`, `parse_resp_frame` and `RespParser`:
//! round trip of all small frame trees; chunking independence over all short byte strings of the protocol
//! alphabet and over prefixes/substitutions of encodings; totality and no reservation by declared length.

use crate::pool::{Outcome, Pool, WorkerIo};
use crate::report::{Deviation, RunReport};
use ferrous::protocol::resp::RespFrame as F;
use ferrous::protocol::parser::parse_resp_frame;
use ferrous::protocol::serializer::serialize_to_vec;
use ferrous::protocol::RespParser;
use serde_json::{json, Value};
use std::collections::BTreeSet;
use std::sync::atomic::Ordering;
use std::sync::Arc;

fn bs(b: &[u8]) -> Arc<Vec<u8>> {
    Arc::new(b.to_vec())
}

fn leaves() -> Vec<F> {
    let mut v = Vec::new();
    for s in [&b""[..], b"OK", b"a b", &[0x80, 0xff]] {
        v.push(F::SimpleString(bs(s)));
        v.push(F::Error(bs(s)));
    }
    for i in [0i64, -1, 42, i64::MIN, i64::MAX] {
        v.push(F::Integer(i));
    }
    v.push(F::BulkString(None));
    let all: Vec<u8> = (0..=255u8).collect();
    for s in [&b""[..], b"a", b"\r\n", b"$3\r\nabc", &all] {
        v.push(F::BulkString(Some(bs(s))));
    }
    v.push(F::Null);
    v.push(F::Boolean(true));
    v.push(F::Boolean(false));
    for d in [0.0f64, -0.0, 1.5, f64::INFINITY, f64::NEG_INFINITY, f64::NAN, 1e300, 5e-324, 0.1 + 0.2] {
        v.push(F::Double(d));
    }
    v.push(F::Array(None));
    v
}

/// all frame trees with at most `budget` nodes and depth <= 3
fn trees(budget: usize, depth: usize, leaves: &[F]) -> Vec<(F, usize)> {
    let mut out: Vec<(F, usize)> = leaves.iter().map(|l| (l.clone(), 1)).collect();
    // empty containers count as one node
    out.push((F::Array(Some(vec![])), 1));
    out.push((F::Set(vec![]), 1));
    out.push((F::Map(vec![]), 1));
    if budget < 2 || depth <= 1 {
        return out;
    }
    // children sequences with total size <= budget - 1
    let sub = trees(budget - 1, depth - 1, leaves);
    fn seqs(sub: &[(F, usize)], remaining: usize, maxlen: usize) -> Vec<(Vec<F>, usize)> {
        let mut res: Vec<(Vec<F>, usize)> = vec![(vec![], 0)];
        if maxlen == 0 {
            return res;
        }
        for (t, sz) in sub.iter() {
            if *sz <= remaining {
                for (rest, rsz) in seqs(sub, remaining - sz, maxlen - 1) {
                    let mut v = vec![t.clone()];
                    v.extend(rest);
                    res.push((v, sz + rsz));
                }
            }
        }
        res
    }
    for (children, sz) in seqs(&sub, budget - 1, budget - 1) {
        if children.is_empty() {
            continue;
        }
        out.push((F::Array(Some(children.clone())), sz + 1));
        out.push((F::Set(children.clone()), sz + 1));
        if children.len() % 2 == 0 {
            let pairs: Vec<(F, F)> = children.chunks(2).map(|c| (c[0].clone(), c[1].clone())).collect();
            out.push((F::Map(pairs), sz + 1));
        }
    }
    out
}

fn frame_eq(a: &F, b: &F) -> bool {
    // NaN-aware structural equality through the Debug form (f64 Debug is injective on bit patterns except NaN payloads)
    format!("{:?}", a) == format!("{:?}", b)
}

fn roundtrip_sweep(nodes: usize) -> Value {
    let lv = leaves();
    let all = trees(nodes, 3, &lv);
    let mut evals = 0u64;
    let mut devs: Vec<Value> = Vec::new();
    let mut distinct_enc: BTreeSet<Vec<u8>> = BTreeSet::new();
    let mut samples: Vec<Value> = Vec::new();
    for (t, _) in all.iter() {
        evals += 1;
        let enc = match serialize_to_vec(t) {
            Ok(e) => e,
            Err(e) => {
                devs.push(json!({"class": "serialize-error", "frame": format!("{:?}", t), "detail": e.to_string()}));
                continue;
            }
        };
        if distinct_enc.len() < 50_000 {
            distinct_enc.insert(enc.clone());
        }
        if samples.len() < 3 && enc.len() > 12 && enc.len() < 60 {
            samples.push(json!({"frame": format!("{:?}", t), "encoding": crate::resp::show_bytes(&enc)}));
        }
        for trailing in [&b""[..], b"+X\r\n", b"\r\n", b"*"] {
            let mut buf = enc.clone();
            buf.extend_from_slice(trailing);
            let r = std::panic::catch_unwind(|| parse_resp_frame(&buf));
            let kind = match t {
                F::Double(_) => "double",
                F::SimpleString(_) | F::Error(_) => "line",
                F::BulkString(_) => "bulk",
                F::Array(_) | F::Set(_) | F::Map(_) => "container",
                _ => "scalar",
            };
            match r {
                Ok(Ok(Some((back, consumed)))) => {
                    if !frame_eq(&back, t) {
                        devs.push(json!({"class": format!("roundtrip-value|{}", kind), "frame": format!("{:?}", t), "parsed": format!("{:?}", back), "encoding": crate::resp::show_bytes(&enc)}));
                    } else if consumed != enc.len() {
                        devs.push(json!({"class": format!("roundtrip-consumed|{}", kind), "frame": format!("{:?}", t), "consumed": consumed, "encoded_len": enc.len(), "trailing": crate::resp::show_bytes(trailing)}));
                    }
                }
                Ok(Ok(None)) => devs.push(json!({"class": format!("roundtrip-incomplete|{}", kind), "frame": format!("{:?}", t), "encoding": crate::resp::show_bytes(&enc)})),
                Ok(Err(e)) => devs.push(json!({"class": format!("roundtrip-error|{}", kind), "frame": format!("{:?}", t), "encoding": crate::resp::show_bytes(&enc), "detail": e.to_string()})),
                Err(_) => devs.push(json!({"class": format!("roundtrip-panic|{}", kind), "frame": format!("{:?}", t), "encoding": crate::resp::show_bytes(&enc)})),
            }
        }
    }
    devs.truncate(300);
    json!({"trees": all.len(), "evaluations": evals * 4, "distinct_encodings": distinct_enc.len(), "devs": devs, "samples": samples})
}

// ------------------------------------------------------------------ chunking independence

/// observation of feeding `chunks` to a fresh RespParser: frames and errors in order (consecutive identical
/// errors collapsed), then what a sentinel frame fed afterwards yields (proxy for the unconsumed bytes)
fn observe(chunks: &[&[u8]]) -> Result<Vec<String>, String> {
    let r = std::panic::catch_unwind(|| {
        let mut p = RespParser::new();
        let mut obs: Vec<String> = Vec::new();
        let mut drain = |p: &mut RespParser, obs: &mut Vec<String>| {
            let mut guard = 0;
            loop {
                guard += 1;
                if guard > 10_000 {
                    obs.push("LIVELOCK".into());
                    break;
                }
                match p.parse() {
                    Ok(Some(f)) => obs.push(format!("F:{:?}", f)),
                    Ok(None) => break,
                    Err(e) => {
                        let s = format!("E:{}", e);
                        if obs.last() != Some(&s) {
                            obs.push(s);
                        }
                        break;
                    }
                }
            }
        };
        for c in chunks {
            p.feed(c);
            drain(&mut p, &mut obs);
        }
        obs.push("|sentinel|".into());
        p.feed(b":12345\r\n");
        drain(&mut p, &mut obs);
        obs
    });
    r.map_err(|_| "panic".to_string())
}

fn all_cuts(n: usize, max_cuts: usize) -> Vec<Vec<usize>> {
    // cut positions in 1..n, strictly increasing, at most max_cuts of them
    let mut res: Vec<Vec<usize>> = vec![vec![]];
    fn rec(start: usize, n: usize, left: usize, cur: &mut Vec<usize>, res: &mut Vec<Vec<usize>>) {
        if left == 0 {
            return;
        }
        for p in start..n {
            cur.push(p);
            res.push(cur.clone());
            rec(p + 1, n, left - 1, cur, res);
            cur.pop();
        }
    }
    let mut cur = Vec::new();
    rec(1, n, max_cuts, &mut cur, &mut res);
    res
}

fn split<'a>(data: &'a [u8], cuts: &[usize]) -> Vec<&'a [u8]> {
    let mut v = Vec::new();
    let mut prev = 0;
    for c in cuts {
        v.push(&data[prev..*c]);
        prev = *c;
    }
    v.push(&data[prev..]);
    v
}

fn chunk_class(input: &[u8], whole: &[String], chunked: &[String]) -> String {
    let feature = if input.windows(1).any(|w| w == b"P") { "has-P(raw-PING-shortcut)" } else { "other" };
    let kind = |o: &[String]| -> String {
        o.iter().map(|s| if s.starts_with("F:") { 'F' } else if s.starts_with("E:") { 'E' } else if s.starts_with('|') { '|' } else { '?' }).collect()
    };
    format!("C20|CHUNK|{}|whole={}|chunked={}", feature, kind(whole), kind(chunked))
}

struct ChunkStats {
    inputs: u64,
    executions: u64,
    devs: Vec<Value>,
    dev_count: u64,
    distinct_obs: BTreeSet<u64>,
}

/// differential of the pure frame parser against the checker's own independent RESP reader:
/// same outcome kind (frame / need-more / error), same value, same number of bytes consumed
fn diff_reference(input: &[u8]) -> Option<String> {
    let ours = crate::resp::decode(input);
    if let Err(crate::resp::DecodeErr::Malformed(m)) = &ours {
        if m == "non-canonical length" {
            return None; // "-0", "+1", "01" as a declared length: don't care
        }
    }
    let theirs = std::panic::catch_unwind(|| parse_resp_frame(input));
    let theirs = match theirs {
        Ok(t) => t,
        Err(_) => return Some("C20|DIFF|parse_resp_frame panicked".into()),
    };
    fn to_r(f: &F) -> Option<crate::resp::R> {
        use crate::resp::R;
        Some(match f {
            F::SimpleString(b) => R::Simple(b.to_vec()),
            F::Error(b) => R::Err(b.to_vec()),
            F::Integer(i) => R::Int(*i),
            F::BulkString(Some(b)) => R::Bulk(b.to_vec()),
            F::BulkString(None) => R::Nil,
            F::Array(None) => R::NilArr,
            F::Array(Some(v)) => R::Arr(v.iter().map(to_r).collect::<Option<Vec<_>>>()?),
            F::Null => R::Null,
            F::Boolean(b) => R::Bool(*b),
            F::Double(d) => R::Double(*d),
            F::Set(v) => R::Set(v.iter().map(to_r).collect::<Option<Vec<_>>>()?),
            F::Map(v) => R::Map(v.iter().map(|(k, x)| Some((to_r(k)?, to_r(x)?))).collect::<Option<Vec<_>>>()?),
            F::NoResponse => return None,
        })
    }
    let t = match input.first() {
        Some(c) => *c as char,
        None => ' ',
    };
    match (ours, theirs) {
        (Ok(None), Ok(None)) => None,
        (Err(_), Err(_)) => None,
        (Ok(Some((a, n))), Ok(Some((b, m)))) => {
            let same = match to_r(&b) {
                Some(rb) => format!("{:?}", rb) == format!("{:?}", a),
                None => false,
            };
            if !same {
                Some(format!("C20|DIFF|type {}|different value", t))
            } else if n != m {
                Some(format!("C20|DIFF|type {}|different consumed count", t))
            } else {
                None
            }
        }
        // both say "no frame (yet)": when an error is detected is not prescribed
        (Ok(None), Err(_)) | (Err(_), Ok(None)) => None,
        (o, th) => {
            let k = |x: &str| x.to_string();
            let ok = match &o {
                Ok(Some(_)) => k("frame"),
                Ok(None) => k("need-more"),
                Err(_) => k("error"),
            };
            let tk = match &th {
                Ok(Some(_)) => k("frame"),
                Ok(None) => k("need-more"),
                Err(_) => k("error"),
            };
            Some(format!("C20|DIFF|type {}|reference={}|parser={}", t, ok, tk))
        }
    }
}

fn check_input(input: &[u8], max_cuts: usize, st: &mut ChunkStats) {
    st.inputs += 1;
    if let Some(sig) = diff_reference(input) {
        st.dev_count += 1;
        if st.devs.iter().filter(|d| d["sig"].as_str() == Some(sig.as_str())).count() < 2 && st.devs.len() < 200 {
            st.devs.push(json!({"sig": sig, "input": crate::resp::show_bytes(input), "input_hex": hex(input)}));
        }
    }
    let whole = match observe(&[input]) {
        Ok(o) => o,
        Err(_) => {
            st.dev_count += 1;
            if st.devs.len() < 200 {
                st.devs.push(json!({"sig": "C20|TOTALITY|panic-on-whole-input", "input": crate::resp::show_bytes(input), "input_hex": hex(input)}));
            }
            return;
        }
    };
    st.executions += 1;
    st.distinct_obs.insert(crate::report::fnv(whole.join("\n").as_bytes()));
    let n = input.len();
    let cuts = if n <= 12 { all_cuts(n, n) } else { all_cuts(n, max_cuts) };
    let mut seen_sig: BTreeSet<String> = BTreeSet::new();
    for c in cuts.iter() {
        if c.is_empty() {
            continue;
        }
        let parts = split(input, c);
        st.executions += 1;
        match observe(&parts) {
            Ok(o) => {
                if o != whole {
                    let sig = chunk_class(input, &whole, &o);
                    st.dev_count += 1;
                    if seen_sig.insert(sig.clone()) && st.devs.len() < 200 {
                        st.devs.push(json!({"sig": sig, "input": crate::resp::show_bytes(input), "input_hex": hex(input), "cuts": c, "whole": whole, "chunked": o}));
                    }
                }
            }
            Err(_) => {
                st.dev_count += 1;
                if st.devs.len() < 200 {
                    st.devs.push(json!({"sig": "C20|TOTALITY|panic-on-chunked-input", "input": crate::resp::show_bytes(input), "input_hex": hex(input), "cuts": c}));
                }
            }
        }
    }
    if n > 12 {
        // all single bytes
        let c: Vec<usize> = (1..n).collect();
        let parts = split(input, &c);
        st.executions += 1;
        if let Ok(o) = observe(&parts) {
            if o != whole {
                let sig = chunk_class(input, &whole, &o);
                st.dev_count += 1;
                if st.devs.len() < 200 {
                    st.devs.push(json!({"sig": sig, "input": crate::resp::show_bytes(input), "input_hex": hex(input), "cuts": "single-bytes", "whole": whole, "chunked": o}));
                }
            }
        }
    }
}

fn hex(b: &[u8]) -> String {
    b.iter().map(|x| format!("{:02x}", x)).collect()
}

const ALPHA: &[u8] = b"+-:$*_#,%~012\r\natfPING ";

fn strings_sweep(first: u8, maxlen: usize) -> Value {
    let mut st = ChunkStats { inputs: 0, executions: 0, devs: vec![], dev_count: 0, distinct_obs: BTreeSet::new() };
    for l in 1..=maxlen {
        let mut idx = vec![0usize; l - 1];
        loop {
            let mut s = vec![first];
            s.extend(idx.iter().map(|i| ALPHA[*i]));
            check_input(&s, 3, &mut st);
            let mut k = 0;
            while k < l - 1 {
                idx[k] += 1;
                if idx[k] < ALPHA.len() {
                    break;
                }
                idx[k] = 0;
                k += 1;
            }
            if k == l - 1 {
                break;
            }
        }
    }
    json!({"inputs": st.inputs, "executions": st.executions, "dev_count": st.dev_count, "devs": st.devs, "distinct_observations": st.distinct_obs.len()})
}

pub fn encodings_corpus(nodes: usize) -> Vec<Vec<u8>> {
    let lv = leaves();
    let mut set: BTreeSet<Vec<u8>> = BTreeSet::new();
    for (t, _) in trees(nodes, 3, &lv) {
        if let Ok(e) = serialize_to_vec(&t) {
            if e.len() <= 40 {
                set.insert(e);
            }
        }
    }
    // command-like arrays of bulks
    for cmdline in [vec!["PING"], vec!["GET", "k"], vec!["SET", "k", "v"], vec!["ECHO", "\r\n"]] {
        set.insert(crate::resp::cmd(&cmdline));
    }
    let mut two = crate::resp::cmd(&["GET", "a"]);
    two.extend(crate::resp::cmd(&["PING"]));
    set.insert(two);
    set.into_iter().collect()
}

fn mutations_sweep(part: usize, parts: usize, nodes: usize, max_cuts: usize) -> Value {
    let corpus = encodings_corpus(nodes);
    let mut st = ChunkStats { inputs: 0, executions: 0, devs: vec![], dev_count: 0, distinct_obs: BTreeSet::new() };
    for (i, enc) in corpus.iter().enumerate() {
        if i % parts != part {
            continue;
        }
        check_input(enc, max_cuts, &mut st);
        for p in 1..enc.len() {
            check_input(&enc[..p], max_cuts, &mut st);
        }
        for pos in 0..enc.len() {
            for &a in ALPHA.iter() {
                if a != enc[pos] {
                    let mut m = enc.clone();
                    m[pos] = a;
                    check_input(&m, max_cuts.min(2), &mut st);
                }
            }
        }
    }
    json!({"inputs": st.inputs, "executions": st.executions, "dev_count": st.dev_count, "devs": st.devs, "corpus": corpus.len(), "distinct_observations": st.distinct_obs.len()})
}


// ------------------------------------------------------------------ long streams: the incremental parser's buffer management

/// payload sizes around the parser's internal thresholds (initial buffer 4096, compaction once more than half is consumed)
const STREAM_SIZES: [usize; 13] = [0, 1, 100, 2047, 2048, 4095, 4096, 4097, 6000, 8191, 8192, 8193, 20000];

/// compact identity of a frame (kind, length, checksum) so that long streams can be compared cheaply
fn frame_id(f: &F) -> String {
    match f {
        F::BulkString(Some(b)) => format!("bulk[{}]#{:x}", b.len(), b.iter().fold(0xcbf29ce484222325u64, |h, x| (h ^ *x as u64).wrapping_mul(0x100000001b3))),
        F::Integer(i) => format!(":{}", i),
        other => format!("{:?}", other),
    }
}

/// A long stream is: bulk(s1), 1200 small integer frames (7-8 KB of pipelined frames), bulk(s2), 50 integers - for
/// every ordered pair (s1, s2) of the size menu. It is fed whole, in fixed chunks of 97 / 512 / 4096 / 8192 / 65536
/// bytes and in every two-piece split at the ends and the middle of the big frames (+-1), and must always yield exactly
/// the frames it was built from (a seeded `truncate` in the parser's compaction dropped pipelined bytes only when more
/// than 4 KiB of unparsed input followed a frame - no short input shows that).
fn streams_sweep(i1: usize) -> Value {
    let mut execs = 0u64;
    let mut inputs = 0u64;
    let mut devs: Vec<Value> = Vec::new();
    let s1 = STREAM_SIZES[i1];
    for (i2, &s2) in STREAM_SIZES.iter().enumerate() {
        let mut bytes: Vec<u8> = Vec::new();
        let mut expected: Vec<String> = Vec::new();
        let mut marks: Vec<usize> = vec![0];
        let mut push = |f: F, bytes: &mut Vec<u8>, expected: &mut Vec<String>, marks: &mut Vec<usize>, mark: bool| {
            expected.push(frame_id(&f));
            bytes.extend(serialize_to_vec(&f).unwrap_or_default());
            if mark {
                marks.push(bytes.len());
            }
        };
        let payload = |n: usize, seed: u8| -> Vec<u8> { (0..n).map(|i| (i as u8).wrapping_mul(31).wrapping_add(seed)).collect() };
        push(F::BulkString(Some(Arc::new(payload(s1, 3)))), &mut bytes, &mut expected, &mut marks, true);
        marks.push(bytes.len() / 2);
        for i in 0..1200i64 {
            push(F::Integer(1000 + i), &mut bytes, &mut expected, &mut marks, i < 2 || i == 600 || i >= 1198);
        }
        let before2 = bytes.len();
        push(F::BulkString(Some(Arc::new(payload(s2, 7)))), &mut bytes, &mut expected, &mut marks, true);
        marks.push((before2 + bytes.len()) / 2);
        for i in 0..50i64 {
            push(F::Integer(-i), &mut bytes, &mut expected, &mut marks, i == 0 || i == 49);
        }
        inputs += 1;
        let mut feedings: Vec<(String, Vec<usize>)> = vec![("whole".into(), vec![])];
        for cs in [97usize, 512, 4096, 8192, 65536] {
            let cuts: Vec<usize> = (1..).map(|k| k * cs).take_while(|c| *c < bytes.len()).collect();
            feedings.push((format!("chunks of {}", cs), cuts));
        }
        let mut pts: BTreeSet<usize> = BTreeSet::new();
        for m in marks.iter() {
            for d in [-1i64, 0, 1] {
                let c = *m as i64 + d;
                if c > 0 && (c as usize) < bytes.len() {
                    pts.insert(c as usize);
                }
            }
        }
        for c in pts.iter() {
            feedings.push((format!("two pieces, cut at {}", c), vec![*c]));
        }
        // three pieces: the head of the first bulk alone, then everything up to the middle of the second, then the rest
        if s1 > 2 {
            feedings.push(("three pieces".into(), vec![s1 / 2, (before2 + bytes.len()) / 2]));
        }
        for (name, cuts) in feedings {
            execs += 1;
            let chunks = split(&bytes, &cuts);
            let got = std::panic::catch_unwind(|| {
                let mut p = RespParser::new();
                let mut out: Vec<String> = Vec::new();
                for c in chunks.iter() {
                    p.feed(c);
                    loop {
                        match p.parse() {
                            Ok(Some(f)) => out.push(frame_id(&f)),
                            Ok(None) => break,
                            Err(e) => {
                                out.push(format!("E:{}", e));
                                return out;
                            }
                        }
                        if out.len() > 5000 {
                            return out;
                        }
                    }
                }
                out
            });
            let problem = match &got {
                Err(_) => Some("panic".to_string()),
                Ok(g) if *g == expected => None,
                Ok(g) => Some(if g.iter().any(|x| x.starts_with("E:")) { "error-on-a-valid-stream".to_string() } else if g.len() < expected.len() { "frames-lost".to_string() } else if g.len() > expected.len() { "frames-from-nowhere".to_string() } else { "frames-differ".to_string() }),
            };
            if let Some(pr) = problem {
                if devs.len() < 200 {
                    devs.push(json!({"sig": format!("C20|STREAM|{}|{}", pr, if name.starts_with("two pieces") { "two pieces" } else { name.as_str() }), "first_bulk": s1, "second_bulk": s2, "feeding": name, "cuts": cuts.iter().take(8).collect::<Vec<_>>(),
                        "stream_bytes": bytes.len(), "frames_expected": expected.len(), "frames_got": got.as_ref().map(|g| g.len()).unwrap_or(0), "i": [i1, i2]}));
                }
            }
        }
    }
    json!({"inputs": inputs, "executions": execs, "distinct_observations": 0, "devs": devs})
}

// ------------------------------------------------------------------ totality / no reservation by declared length

fn totality_case(input: &[u8], io: &mut WorkerIo, idx: usize) -> Value {
    io.announce_case(json!({"totality": idx, "input": crate::resp::show_bytes(input)}));
    crate::MAX_REQ.store(0, Ordering::SeqCst);
    let inp = input.to_vec();
    let r = std::thread::Builder::new().stack_size(8 << 20).spawn(move || {
        std::panic::catch_unwind(|| {
            let a = match parse_resp_frame(&inp) {
                Ok(Some(_)) => "frame",
                Ok(None) => "need-more",
                Err(_) => "error",
            };
            let mut p = RespParser::new();
            p.feed(&inp);
            let b = match p.parse() {
                Ok(Some(_)) => "frame",
                Ok(None) => "need-more",
                Err(_) => "error",
            };
            (a, b)
        })
    }).unwrap().join();
    let max_req = crate::MAX_REQ.load(Ordering::SeqCst);
    let limit = 64 * input.len() + 65536;
    match r {
        Ok(Ok((a, b))) => json!({"outcome": format!("{}/{}", a, b), "max_alloc": max_req, "limit": limit, "over": max_req > limit}),
        Ok(Err(_)) => json!({"outcome": "panic", "max_alloc": max_req, "limit": limit, "over": max_req > limit}),
        Err(_) => json!({"outcome": "thread-died", "max_alloc": max_req, "limit": limit, "over": false}),
    }
}

pub fn totality_inputs() -> Vec<(String, Vec<u8>)> {
    let mut v: Vec<(String, Vec<u8>)> = Vec::new();
    for t in [b'$', b'*', b'%', b'~'] {
        for (name, n) in [("2^31-1", "2147483647"), ("2^31", "2147483648"), ("2^63-1", "9223372036854775807"), ("10^18", "1000000000000000000"), ("10^9", "1000000000"), ("2^63", "9223372036854775808"), ("10^20", "100000000000000000000"), ("-2", "-2")] {
            let mut b = vec![t];
            b.extend_from_slice(n.as_bytes());
            b.extend_from_slice(b"\r\n");
            v.push((format!("declared-length {}{}", t as char, name), b.clone()));
            // nested inside a small array
            let mut nested = b"*2\r\n:1\r\n".to_vec();
            nested.extend_from_slice(&b);
            v.push((format!("declared-length nested {}{}", t as char, name), nested));
        }
    }
    for depth in [10usize, 1000, 100_000, 1_000_000] {
        for t in [b'*', b'~'] {
            let mut b = Vec::new();
            for _ in 0..depth {
                b.extend_from_slice(&[t, b'1', b'\r', b'\n']);
            }
            v.push((format!("nesting {} x{}", t as char, depth), b));
        }
    }
    // nesting through every child position of every container type (a seeded change stopped counting the depth
    // for map values only): each unit opens a container and stops where the named child is expected
    let units: [(&str, &[u8]); 8] = [
        ("array[0]", b"*1\r\n"),
        ("array[1]", b"*2\r\n:1\r\n"),
        ("array[2]", b"*3\r\n:1\r\n$1\r\nx\r\n"),
        ("set[0]", b"~1\r\n"),
        ("set[1]", b"~2\r\n:1\r\n"),
        ("map-key", b"%1\r\n"),
        ("map-value", b"%1\r\n+k\r\n"),
        ("map-second-value", b"%2\r\n+a\r\n+b\r\n+k\r\n"),
    ];
    for (name, u) in units.iter() {
        for depth in [10usize, 200, 1000, 100_000, 1_000_000] {
            let mut b = Vec::with_capacity(depth * u.len());
            for _ in 0..depth {
                b.extend_from_slice(u);
            }
            v.push((format!("nesting through {} x{}", name, depth), b));
        }
    }
    for (na, ua) in units.iter() {
        for (nb, ub) in units.iter() {
            if na == nb {
                continue;
            }
            let depth = 200_000usize;
            let mut b = Vec::with_capacity(depth * (ua.len() + ub.len()) / 2);
            for i in 0..depth {
                b.extend_from_slice(if i % 2 == 0 { ua } else { ub });
            }
            v.push((format!("nesting alternating {} / {} x{}", na, nb, depth), b));
        }
    }
    // complete frames around the nesting bound, through each position (the leaf and the remaining children follow)
    for (name, open, rest) in [("array[0]", &b"*1\r\n"[..], &b""[..]), ("array[1]", b"*2\r\n:1\r\n", b""), ("array[0] of 2", b"*2\r\n", b":1\r\n"), ("set[0]", b"~1\r\n", b""), ("map-key", b"%1\r\n", b":1\r\n"), ("map-value", b"%1\r\n+k\r\n", b"")] {
        for depth in [64usize, 127, 128, 129, 130, 300] {
            let mut b = Vec::new();
            for _ in 0..depth {
                b.extend_from_slice(open);
            }
            b.extend_from_slice(b":7\r\n");
            for _ in 0..depth {
                b.extend_from_slice(rest);
            }
            v.push((format!("complete nesting through {} x{}", name, depth), b));
        }
    }
    v
}

// ------------------------------------------------------------------ worker / parent

pub fn handle(_tier: &str, task: &Value, io: &mut WorkerIo) -> (Value, bool) {
    if let Some(n) = task.get("roundtrip") {
        return (roundtrip_sweep(n.as_u64().unwrap_or(3) as usize), false);
    }
    if let Some(s) = task.get("strings") {
        return (strings_sweep(s["first"].as_u64().unwrap_or(b'+' as u64) as u8, s["maxlen"].as_u64().unwrap_or(3) as usize), false);
    }
    if let Some(i) = task.get("streams") {
        return (streams_sweep(i.as_u64().unwrap_or(0) as usize), false);
    }
    if let Some(s) = task.get("mutations") {
        return (mutations_sweep(s["part"].as_u64().unwrap_or(0) as usize, s["parts"].as_u64().unwrap_or(1) as usize, s["nodes"].as_u64().unwrap_or(2) as usize, s["cuts"].as_u64().unwrap_or(2) as usize), false);
    }
    if let Some(i) = task.get("totality") {
        let idx = i.as_u64().unwrap_or(0) as usize;
        let inputs = totality_inputs();
        let (name, input) = &inputs[idx];
        let mut r = totality_case(input, io, idx);
        r["name"] = json!(name);
        return (r, false);
    }
    if let Some(r) = task.get("replay") {
        if let Some(i) = r["case"]["i"].as_array() {
            // a long-stream case: run the streams of its first size again and show what concerns the pair
            let (i1, i2) = (i[0].as_u64().unwrap_or(0) as usize, i[1].as_u64().unwrap_or(0));
            let v = streams_sweep(i1);
            let devs: Vec<Value> = v["devs"].as_array().cloned().unwrap_or_default().into_iter().filter(|d| d["i"][1].as_u64() == Some(i2)).collect();
            return (json!({"first_bulk": STREAM_SIZES[i1], "second_bulk": STREAM_SIZES[i2 as usize % STREAM_SIZES.len()], "deviations_now": devs}), false);
        }
        if let Some(hx) = r["input_hex"].as_str() {
            let input: Vec<u8> = (0..hx.len() / 2).map(|i| u8::from_str_radix(&hx[2 * i..2 * i + 2], 16).unwrap_or(0)).collect();
            let whole = observe(&[&input]);
            let mut out = json!({"input": crate::resp::show_bytes(&input), "whole": format!("{:?}", whole)});
            if let Some(c) = r["cuts"].as_array() {
                let cuts: Vec<usize> = c.iter().filter_map(|x| x.as_u64().map(|y| y as usize)).collect();
                out["chunked"] = json!(format!("{:?}", observe(&split(&input, &cuts))));
                out["cuts"] = json!(cuts);
            }
            return (out, false);
        }
        if let Some(i) = r["totality_index"].as_u64() {
            let inputs = totality_inputs();
            let (name, input) = &inputs[i as usize];
            let mut v = totality_case(input, io, i as usize);
            v["name"] = json!(name);
            return (v, false);
        }
    }
    (json!({"error": "unknown task"}), false)
}

pub fn parent(tier: &str) -> i32 {
    let mut report = RunReport::new("C20", tier, "model_checking");
    let pool = Pool::new("C20", tier, super::e1common::nworkers());
    let thorough = tier == "thorough";
    // (1) round trip
    let mut tasks = vec![json!({"roundtrip": if thorough { 4 } else { 3 }})];
    // (2) all byte strings, partitioned by first byte
    let maxlen = if thorough { 5 } else { 4 };
    for &f in ALPHA.iter() {
        tasks.push(json!({"strings": {"first": f, "maxlen": maxlen}}));
    }
    // (3) prefixes and substitutions of encodings
    let parts = 16;
    for p in 0..parts {
        tasks.push(json!({"mutations": {"part": p, "parts": parts, "nodes": if thorough { 3 } else { 2 }, "cuts": if thorough { 3 } else { 2 }}}));
    }
    for i in 0..STREAM_SIZES.len() {
        tasks.push(json!({"streams": i}));
    }
    let ntot = totality_inputs().len();
    for i in 0..ntot {
        tasks.push(json!({"totality": i}));
    }
    let out = pool.map(tasks.clone(), 0);
    let mut states = 0u64; // distinct inputs
    let mut transitions = 0u64; // parser executions
    let mut trees_n = 0u64;
    let mut distinct_obs = 0u64;
    let mut samples: Vec<Value> = Vec::new();
    let mut totality_outcomes: Vec<Value> = Vec::new();
    let names = totality_inputs();
    for (t, o) in tasks.iter().zip(out.iter()) {
        match o {
            Outcome::Done(v) => {
                if t.get("roundtrip").is_some() {
                    trees_n = v["trees"].as_u64().unwrap_or(0);
                    states += trees_n;
                    transitions += v["evaluations"].as_u64().unwrap_or(0);
                    for d in v["devs"].as_array().cloned().unwrap_or_default() {
                        report.deviations.push(Deviation { property: "C20".into(), sig: format!("C20|ROUNDTRIP|{}", d["class"].as_str().unwrap_or("")), replay: json!({"kind": "roundtrip", "case": d}) });
                    }
                    for s in v["samples"].as_array().cloned().unwrap_or_default() {
                        samples.push(json!({"roundtrip": s}));
                    }
                } else if t.get("totality").is_some() {
                    let idx = t["totality"].as_u64().unwrap_or(0);
                    totality_outcomes.push(json!({"input": v["name"], "outcome": v["outcome"], "max_alloc": v["max_alloc"]}));
                    states += 1;
                    transitions += 2;
                    let outcome = v["outcome"].as_str().unwrap_or("");
                    let name = v["name"].as_str().unwrap_or("").to_string();
                    if outcome == "panic" || outcome == "thread-died" {
                        report.deviations.push(Deviation { property: "C20".into(), sig: format!("C20|TOTALITY|{}|{}", outcome, name), replay: json!({"kind": "totality", "totality_index": idx, "result": v}) });
                    }
                    if v["over"].as_bool() == Some(true) {
                        report.deviations.push(Deviation { property: "C20".into(), sig: format!("C20|RESERVATION|{}", name), replay: json!({"kind": "totality", "totality_index": idx, "result": v}) });
                    }
                } else {
                    states += v["inputs"].as_u64().unwrap_or(0);
                    transitions += v["executions"].as_u64().unwrap_or(0);
                    distinct_obs += v["distinct_observations"].as_u64().unwrap_or(0);
                    for d in v["devs"].as_array().cloned().unwrap_or_default() {
                        report.deviations.push(Deviation { property: "C20".into(), sig: d["sig"].as_str().unwrap_or("").to_string(), replay: json!({"kind": "chunking", "input_hex": d["input_hex"], "cuts": d["cuts"], "case": d}) });
                    }
                }
            }
            Outcome::Died { status, case } => {
                if let Some(i) = t.get("totality").and_then(|x| x.as_u64()) {
                    let name = names[i as usize].0.clone();
                    totality_outcomes.push(json!({"input": name, "outcome": format!("process died: {}", status)}));
                    states += 1;
                    report.deviations.push(Deviation { property: "C20".into(), sig: format!("C20|TOTALITY|process-died|{}", name), replay: json!({"kind": "totality", "totality_index": i, "status": status}) });
                } else {
                    report.machinery_errors.push(format!("worker died in task {}: {} {:?}", t, status, case));
                }
            }
        }
    }
    samples.push(json!({"chunking_input": "*1\\r\\n$4\\r\\nPING\\r\\n", "fed_as": ["*1\\r\\n$4", "\\r\\nPI", "NG\\r\\n"]}));
    report.coverage = json!({
        "states": states.max(1), "transitions": transitions.max(1), "traces_validated_against_impl": transitions,
        "samples": samples, "exhaustive": true,
        "frame_trees": trees_n, "byte_string_max_len": maxlen, "alphabet": String::from_utf8_lossy(ALPHA).replace('\r', "\\r").replace('\n', "\\n"),
        "distinct_observations": distinct_obs, "totality_inputs": totality_outcomes,
        "explanation": "states = distinct inputs (frame trees / byte strings / mutated encodings / hostile headers); transitions = executions of the real parser (one per chunking); every input of the stated finite spaces is enumerated: all frame trees up to the node bound, all strings over the protocol alphabet up to the length bound with all their chunkings, every prefix and single-byte substitution of the encoding corpus with all chunkings (<= 12 bytes) or all chunkings with a bounded number of cuts plus the all-single-bytes chunking",
    });
    report.assumptions = vec![
        "simple strings / errors containing CR or LF are not representable in RESP and are excluded from 'any RESP value'; the internal NoResponse marker is not a RESP value".into(),
        "the unconsumed remainder is observed through what a sentinel frame fed afterwards yields".into(),
        "allocation bound: largest single allocation request <= 64 x bytes fed + 64 KiB, measured by the checker's counting global allocator".into(),
    ];
    report.finish()
}
