//! Per-property drivers. Each has a parent side (enumerate tasks, merge, report) and a worker side
//! (execute tasks against the real code).

use crate::pool;
use serde_json::{json, Value};

pub mod smoke;

pub fn parent_main(prop: &str, tier: &str) -> i32 {
    match prop {
        "SMOKE" => smoke::parent(tier),
        _ => {
            eprintln!("unknown property {}", prop);
            2
        }
    }
}

pub fn worker_main(prop: &str, tier: &str, _slot: usize) {
    match prop {
        "SMOKE" => pool::worker_loop(|t, io| smoke::handle(tier, t, io)),
        _ => {}
    }
}

pub fn replay_main(path: &str) -> i32 {
    let txt = match std::fs::read_to_string(path) {
        Ok(t) => t,
        Err(e) => {
            eprintln!("cannot read {}: {}", path, e);
            return 2;
        }
    };
    let v: Value = match serde_json::from_str(&txt) {
        Ok(v) => v,
        Err(e) => {
            eprintln!("bad replay file: {}", e);
            return 2;
        }
    };
    let prop = v["property"].as_str().unwrap_or("").to_string();
    let p = pool::Pool::new(&prop, "quick", 1);
    let out = p.map(vec![json!({"replay": v["replay"].clone()})], 0);
    match &out[0] {
        pool::Outcome::Done(r) => {
            println!("{}", serde_json::to_string_pretty(r).unwrap());
            0
        }
        pool::Outcome::Died { status, case } => {
            println!("worker died during replay: {} (case {:?})", status, case);
            0
        }
    }
}
