//! Per-property drivers. Each has a parent side (enumerate tasks, merge, report) and a worker side
//! (execute tasks against the real code).

use crate::explore::e1::World;
use crate::pool;
use serde_json::{json, Value};

pub mod bytesfam;
pub mod c01;
pub mod c02;
pub mod c03;
pub mod c04;
pub mod c05;
pub mod c06;
pub mod c07;
pub mod c08;
pub mod c09;
pub mod c10;
pub mod c11;
pub mod c12;
pub mod cmdtable;
pub mod c13;
pub mod c14;
pub mod c15;
pub mod c16;
pub mod c17;
pub mod c18;
pub mod c19;
pub mod c20;
pub mod e1common;
pub mod smoke;

pub fn parent_main(prop: &str, tier: &str) -> i32 {
    match prop {
        "SMOKE" => smoke::parent(tier),
        "C01" => c01::parent(tier),
        "C02" => c02::parent(tier),
        "C03" => c03::parent(tier),
        "C04" => c04::parent(tier),
        "C20" => c20::parent(tier),
        "C15" => c15::parent(tier),
        "C05" => c05::parent(tier),
        "C17" => c17::parent(tier),
        "C13" => c13::parent(tier),
        "C09" => c09::parent(tier),
        "C10" => c10::parent(tier),
        "C11" => c11::parent(tier),
        "C12" => c12::parent(tier),
        "C08" => c08::parent(tier),
        "C18" => c18::parent(tier),
        "C14" => c14::parent(tier),
        "C07" => c07::parent(tier),
        "C19" => c19::parent(tier),
        "C06" => c06::parent(tier),
        "C16" => c16::parent(tier),
        _ => {
            eprintln!("unknown property {}", prop);
            2
        }
    }
}

pub fn worker_main(prop: &str, tier: &str, _slot: usize) {
    match prop {
        "SMOKE" => pool::worker_loop(|t, io| smoke::handle(tier, t, io)),
        "C01" => {
            let mut h = c01::handle_factory();
            pool::worker_loop(|t, io| h(tier, t, io))
        }
        "C02" => {
            let mut h = c02::handle_factory();
            pool::worker_loop(|t, io| h(tier, t, io))
        }
        "C03" => {
            let mut h = c03::handle_factory();
            pool::worker_loop(|t, io| h(tier, t, io))
        }
        "C04" => {
            let mut h = c04::handle_factory();
            pool::worker_loop(|t, io| h(tier, t, io))
        }
        "C20" => pool::worker_loop(|t, io| c20::handle(tier, t, io)),
        "C05" => {
            let mut h = c05::handle_factory();
            pool::worker_loop(|t, io| h(tier, t, io))
        }
        "C06" => {
            let mut h = c06::handle_factory();
            pool::worker_loop(|t, io| h(tier, t, io))
        }
        "C07" => {
            let mut h = c07::handle_factory();
            pool::worker_loop(|t, io| h(tier, t, io))
        }
        "C14" => {
            let mut h = c14::handle_factory();
            pool::worker_loop(|t, io| h(tier, t, io))
        }
        "C18" => {
            let mut h = c18::handle_factory();
            pool::worker_loop(|t, io| h(tier, t, io))
        }
        "C08" => {
            let mut h = c08::handle_factory();
            pool::worker_loop(|t, io| h(tier, t, io))
        }
        "C12" => {
            let mut h = c12::handle_factory();
            pool::worker_loop(|t, io| h(tier, t, io))
        }
        "C11" => {
            let mut h = c11::handle_factory();
            pool::worker_loop(|t, io| h(tier, t, io))
        }
        "C10" => {
            let mut h = c10::handle_factory();
            pool::worker_loop(|t, io| h(tier, t, io))
        }
        "C09" => {
            let mut h = c09::handle_factory();
            pool::worker_loop(|t, io| h(tier, t, io))
        }
        "C13" => {
            let mut h = c13::handle_factory();
            pool::worker_loop(|t, io| h(tier, t, io))
        }
        "C17" => {
            let mut h = c17::handle_factory();
            pool::worker_loop(|t, io| h(tier, t, io))
        }
        "C19" => {
            let mut h = c19::handle_factory();
            pool::worker_loop(|t, io| h(tier, t, io))
        }
        "C15" => {
            let mut h = c15::handle_factory();
            pool::worker_loop(|t, io| h(tier, t, io))
        }
        "C16" => {
            let mut h = c16::handle_factory();
            pool::worker_loop(|t, io| h(tier, t, io))
        }
        _ => {}
    }
}

/// replay of an E1 history without the explorer: every step's observation, then the probes
pub fn e1common_replay(make: fn(&str) -> Option<Box<dyn World>>, r: &Value) -> Value {
    let spec = r["spec"].as_str().unwrap_or("");
    let hist: Vec<usize> = r["history"].as_array().map(|a| a.iter().map(|x| x.as_u64().unwrap_or(0) as usize).collect()).unwrap_or_default();
    let mut w = match make(spec) {
        Some(w) => w,
        None => return json!({"error": format!("unknown spec {}", spec)}),
    };
    let mut steps = Vec::new();
    if let Err(e) = w.reset() {
        return json!({"error": e});
    }
    let mut ok = true;
    for a in hist.iter() {
        match w.apply(*a) {
            Ok(s) => {
                steps.push(json!({"action": w.describe(*a), "observed": s.obs, "agrees_with_model": s.ok, "deviation": s.dev.map(|d| json!({"sig": d.0, "detail": d.1}))}));
                if !s.ok {
                    ok = false;
                    break;
                }
            }
            Err(e) => {
                steps.push(json!({"action": w.describe(*a), "machinery_error": e}));
                ok = false;
                break;
            }
        }
    }
    let mut probe_devs = Vec::new();
    if ok {
        if let Ok(p) = w.probe(&hist) {
            for (s, d) in p.devs {
                probe_devs.push(json!({"sig": s, "detail": d}));
            }
        }
    }
    json!({"spec": spec, "steps": steps, "probe_deviations": probe_devs})
}

pub fn replay_main(path: &str) -> i32 {
    let txt = match std::fs::read_to_string(path) {
        Ok(t) => t,
        Err(e) => {
            eprintln!("cannot read {}: {}", path, e);
            return 2;
        }
    };
    let v: Value = match serde_json::from_str(&txt) {
        Ok(v) => v,
        Err(e) => {
            eprintln!("bad replay file: {}", e);
            return 2;
        }
    };
    let prop = v["property"].as_str().unwrap_or("").to_string();
    let p = pool::Pool::new(&prop, "quick", 1);
    let out = p.map(vec![json!({"replay": v["replay"].clone()})], 0);
    match &out[0] {
        pool::Outcome::Done(r) => {
            println!("{}", serde_json::to_string_pretty(r).unwrap());
            0
        }
        pool::Outcome::Died { status, case } => {
            println!("worker died during replay: {} (case {:?})", status, case);
            0
        }
    }
}
