//! C07 — MULTI/EXEC runs the queued commands atomically, in order, or not at all.
//! (a) E1 over the transaction state machine with three connections (two transactors, one subscriber that
//! observes when a queued PUBLISH is delivered); (b) E3: all event-loop round schedules of a transfer
//! transaction against concurrent readers and a writer.

use super::c05::Harness;
use super::e1common::{self, DataProp, SpecRun};
use crate::explore::e1::World;
use crate::explore::multiworld::{mcmd, MAct, MultiSpec, MultiWorld};
use crate::gate::StepResult;
use crate::model::Bytes;
use crate::pool::{Outcome, Pool, WorkerIo};
use crate::report::{Deviation, RunReport};
use crate::resp::{self, R};
use crate::srv::{Client, SrvOpts};
use serde_json::{json, Value};
use std::collections::BTreeSet;

fn sv(v: &[&str]) -> Vec<Bytes> {
    v.iter().map(|x| x.as_bytes().to_vec()).collect()
}

fn acts() -> Vec<MAct> {
    vec![
        mcmd(0, &["MULTI"]), mcmd(0, &["EXEC"]), mcmd(0, &["DISCARD"]), mcmd(0, &["SET", "a", "1"]), mcmd(0, &["INCR", "a"]), mcmd(0, &["INCR", "s"]), mcmd(0, &["LPUSH", "l", "x"]),
        mcmd(0, &["GET", "a"]), mcmd(0, &["SELECT", "1"]), mcmd(0, &["PUBLISH", "ch", "m"]), MAct::Close(0),
        mcmd(1, &["MULTI"]), mcmd(1, &["EXEC"]), mcmd(1, &["SET", "a", "9"]), mcmd(1, &["SET", "s", "abc"]), mcmd(1, &["GET", "a"]),
        mcmd(2, &["SUBSCRIBE", "ch"]),
    ]
}

/// command names in lower and mixed case on the transaction path: MULTI / EXEC / DISCARD themselves and the one queued
/// command EXEC treats specially (a seeded byte-exact comparison made a queued `select` a no-op)
fn case_acts() -> Vec<MAct> {
    vec![
        mcmd(0, &["multi"]), mcmd(0, &["Exec"]), mcmd(0, &["discard"]), mcmd(0, &["MULTI"]), mcmd(0, &["EXEC"]),
        mcmd(0, &["Watch", "a"]), mcmd(0, &["select", "1"]), mcmd(0, &["Select", "2"]), mcmd(0, &["SELECT", "0"]), mcmd(0, &["set", "a", "1"]), mcmd(0, &["Incr", "a"]), mcmd(0, &["get", "a"]),
    ]
}

fn make_world(spec: &str) -> Option<Box<dyn World>> {
    if spec == "c07-case" {
        return Some(Box::new(MultiWorld::new(MultiSpec {
            prop: "C07".into(), nconns: 1, acts: case_acts(),
            probes: vec![sv(&["GET", "a"]), sv(&["DBSIZE"])],
            uses_time: false, dump: true, srv_opts: SrvOpts::default(),
        })));
    }
    let stride = match spec {
        "c07-tx" => 1,
        "c07-tx-sameshard" => 16,
        _ => return None,
    };
    Some(Box::new(MultiWorld::new(MultiSpec {
        prop: "C07".into(), nconns: 3, acts: acts(),
        probes: vec![sv(&["GET", "a"]), sv(&["GET", "s"]), sv(&["LRANGE", "l", "0", "-1"]), sv(&["DBSIZE"])],
        uses_time: false, dump: true, srv_opts: SrvOpts { conn_stride: stride, ..SrvOpts::default() },
    })))
}

// ------------------------------------------------------------------ (b) isolation under all round schedules

#[derive(Clone)]
struct Role {
    name: &'static str,
    chunks: Vec<Vec<u8>>,
    max_per_round: usize,
}

fn roles(variant: usize) -> Vec<Role> {
    let thorough = crate::THOROUGH.load(std::sync::atomic::Ordering::SeqCst);
    let c = |v: &[&str]| resp::cmd(v);
    let t_chunks: Vec<Vec<u8>> = match variant {
        // one command per chunk
        0 => vec![c(&["MULTI"]), c(&["DECRBY", "a", "1"]), c(&["INCRBY", "b", "1"]), c(&["GET", "c"]), c(&["GET", "c"]), c(&["EXEC"])],
        // fragmented mid-command: the EXEC frame and one queued command are split
        1 => {
            let mut all = Vec::new();
            for p in [c(&["MULTI"]), c(&["DECRBY", "a", "1"]), c(&["INCRBY", "b", "1"]), c(&["GET", "c"]), c(&["GET", "c"]), c(&["EXEC"])] {
                all.extend(p);
            }
            let n = all.len();
            vec![all[..9].to_vec(), all[9..n / 2].to_vec(), all[n / 2..n - 5].to_vec(), all[n - 5..].to_vec()]
        }
        // a script doing the same transfer
        _ => vec![c(&["EVAL", "redis.call('DECRBY','a',1) local x=redis.call('GET','c') redis.call('INCRBY','b',1) local y=redis.call('GET','c') return {x,y}", "0"])],
    };
    vec![
        Role { name: "T", chunks: t_chunks, max_per_round: 2 },
        // (the quick tier gives the reader of the six-chunk transaction two reads instead of three: 3.5 times fewer schedules)
        Role { name: "R", chunks: if thorough || variant != 0 { vec![c(&["MGET", "a", "b"]), c(&["MGET", "a", "b"]), c(&["MGET", "a", "b"])] } else { vec![c(&["MGET", "a", "b"]), c(&["MGET", "a", "b"])] }, max_per_round: 1 },
        Role { name: "W", chunks: vec![c(&["INCR", "c"]), c(&["INCR", "c"])], max_per_round: 1 },
    ]
}

/// all round schedules: each round delivers to each role 0..max of its next chunks (not all zero)
fn schedules(roles: &[Role]) -> Vec<Vec<Vec<usize>>> {
    let mut out = Vec::new();
    fn rec(roles: &[Role], pos: &mut Vec<usize>, cur: &mut Vec<Vec<usize>>, out: &mut Vec<Vec<Vec<usize>>>) {
        if pos.iter().zip(roles.iter()).all(|(p, r)| *p == r.chunks.len()) {
            out.push(cur.clone());
            return;
        }
        let n = roles.len();
        let mut choice = vec![0usize; n];
        loop {
            // next choice
            let mut k = 0;
            loop {
                if k == n {
                    return;
                }
                let max = roles[k].max_per_round.min(roles[k].chunks.len() - pos[k]);
                if choice[k] < max {
                    choice[k] += 1;
                    break;
                }
                choice[k] = 0;
                k += 1;
            }
            if choice.iter().all(|c| *c == 0) {
                continue;
            }
            for i in 0..n {
                pos[i] += choice[i];
            }
            cur.push(choice.clone());
            rec(roles, pos, cur, out);
            cur.pop();
            for i in 0..n {
                pos[i] -= choice[i];
            }
        }
    }
    let mut pos = vec![0; roles.len()];
    let mut cur = Vec::new();
    rec(roles, &mut pos, &mut cur, &mut out);
    out
}

fn run_schedule(h: &mut Harness, variant: usize, order: &[usize], sched: &[Vec<usize>]) -> Result<(Vec<String>, Value), String> {
    h.ensure()?;
    h.aux_call(&["FLUSHALL"])?;
    h.aux_call(&["MSET", "a", "10", "b", "20", "c", "0"])?;
    let rs = roles(variant);
    // connection creation order decides which role the loop visits first
    let mut clients: Vec<Option<Client>> = (0..rs.len()).map(|_| None).collect();
    for &ri in order {
        clients[ri] = Some(h.srv.as_ref().unwrap().connect().map_err(|e| format!("{:?}", e))?);
    }
    let mut pos = vec![0usize; rs.len()];
    let mut frames: Vec<Vec<R>> = (0..rs.len()).map(|_| Vec::new()).collect();
    let poll = |clients: &mut Vec<Option<Client>>, frames: &mut Vec<Vec<R>>| -> Result<(), String> {
        for (i, c) in clients.iter_mut().enumerate() {
            let c = c.as_mut().unwrap();
            c.poll();
            loop {
                match c.take_frame() {
                    Ok(Some(f)) => frames[i].push(f),
                    Ok(None) => break,
                    Err(e) => return Err(format!("garbage: {}", e)),
                }
            }
        }
        Ok(())
    };
    for round in sched {
        for (ri, n) in round.iter().enumerate() {
            for _ in 0..*n {
                let chunk = rs[ri].chunks[pos[ri]].clone();
                clients[ri].as_mut().unwrap().send(&chunk);
                pos[ri] += 1;
            }
        }
        match h.srv.as_ref().unwrap().step() {
            StepResult::Arrived => {}
            StepResult::Died => return Err("server-exited".into()),
            StepResult::Parked => return Err("parked".into()),
        }
        poll(&mut clients, &mut frames)?;
    }
    for _ in 0..3 {
        let _ = h.srv.as_ref().unwrap().step();
        poll(&mut clients, &mut frames)?;
    }
    let mut problems = Vec::new();
    // readers: a + b constant
    for f in frames[1].iter() {
        match f {
            R::Arr(v) if v.len() == 2 => {
                let n = |r: &R| -> i64 { if let R::Bulk(b) = r { String::from_utf8_lossy(b).parse().unwrap_or(-999) } else { -999 } };
                if n(&v[0]) + n(&v[1]) != 30 {
                    problems.push("reader-saw-intermediate-state".to_string());
                }
            }
            _ => problems.push("reader-bad-reply".to_string()),
        }
    }
    if frames[1].len() != rs[1].chunks.len() {
        problems.push("reader-reply-count".to_string());
    }
    // the transaction's two reads of c are equal
    let exec_reply = frames[0].last().cloned();
    match (&exec_reply, variant) {
        (Some(R::Arr(v)), 0) | (Some(R::Arr(v)), 1) if v.len() == 4 => {
            if v[2] != v[3] {
                problems.push("writer-interleaved-inside-EXEC".to_string());
            }
            if v[0] != R::Int(9) || v[1] != R::Int(21) {
                problems.push("transaction-slot-replies".to_string());
            }
        }
        (Some(R::Arr(v)), 2) if v.len() == 2 => {
            if v[0] != v[1] {
                problems.push("writer-interleaved-inside-script".to_string());
            }
        }
        _ => problems.push("transaction-reply-shape".to_string()),
    }
    let expected_t_frames = match variant {
        0 | 1 => 6,
        _ => 1,
    };
    if frames[0].len() != expected_t_frames {
        problems.push("transaction-reply-count".to_string());
    }
    // final state = some serial order
    let fin = h.aux_call(&["MGET", "a", "b", "c"])?;
    if fin != R::Arr(vec![R::Bulk(b"9".to_vec()), R::Bulk(b"21".to_vec()), R::Bulk(b"2".to_vec())]) {
        problems.push("final-state-not-serial".to_string());
    }
    for c in clients.iter_mut() {
        c.as_mut().unwrap().discard();
    }
    let _ = h.srv.as_ref().unwrap().steps(2);
    problems.sort();
    problems.dedup();
    let detail = json!({"variant": variant, "connection_order": order.iter().map(|i| rs[*i].name).collect::<Vec<_>>(), "rounds": sched,
        "T": frames[0].iter().map(resp::show).collect::<Vec<_>>(), "R": frames[1].iter().map(resp::show).collect::<Vec<_>>(), "W": frames[2].iter().map(resp::show).collect::<Vec<_>>(), "final": resp::show(&fin)});
    Ok((problems, detail))
}

// ------------------------------------------------------------------ (c) transactions that push to a key other clients are blocked on

/// queued command lists; `q` is the key the waiters block on, `o` another list
fn blocked_bodies() -> Vec<Vec<Vec<&'static str>>> {
    vec![
        vec![vec!["RPUSH", "q", "a"], vec!["RPUSH", "q", "b"], vec!["LLEN", "q"], vec!["LRANGE", "q", "0", "-1"]],
        vec![vec!["LPUSH", "q", "a"], vec!["LPOP", "q"]],
        vec![vec!["RPUSH", "q", "a", "b"], vec!["LLEN", "q"], vec!["DEL", "q"], vec!["LLEN", "q"]],
        vec![vec!["RPUSH", "q", "a"], vec!["RPUSH", "o", "x"], vec!["LLEN", "q"], vec!["LLEN", "o"]],
        vec![vec!["LPUSH", "q", "a"], vec!["RPUSH", "q", "b"], vec!["RPOP", "q"], vec!["LLEN", "q"]],
        vec![vec!["RPUSH", "q", "a"], vec!["EVAL", "return redis.call('LLEN','q')", "0"], vec!["LPOP", "q"]],
        vec![vec!["RPUSH", "q", "a"], vec!["RENAME", "q", "o"], vec!["LLEN", "o"], vec!["EXISTS", "q"]],
    ]
}

fn blocked_waiters() -> Vec<Vec<Vec<&'static str>>> {
    vec![
        vec![vec!["BLPOP", "q", "0"]],
        vec![vec!["BRPOP", "q", "0"]],
        vec![vec!["BLPOP", "q", "0"], vec!["BRPOP", "q", "0"]],
        vec![vec!["BLPOP", "o", "q", "0"]],
        vec![vec!["BLPOP", "q", "5"]],
        vec![vec!["BLPOP", "q", "0"], vec!["BLPOP", "o", "0"]],
    ]
}

/// run one body with the given waiters; returns (EXEC reply, elements served to waiters, final q, final o)
fn run_blocked(h: &mut Harness, body: &[Vec<&'static str>], waiters: &[Vec<&'static str>], one_write: bool) -> Result<(R, Vec<String>, R, R), String> {
    h.ensure()?;
    h.aux_call(&["FLUSHALL"])?;
    let mut ws: Vec<Client> = Vec::new();
    for w in waiters {
        let mut c = h.srv.as_ref().unwrap().connect().map_err(|e| format!("{:?}", e))?;
        c.send(&resp::cmd(w));
        let _ = h.srv.as_ref().unwrap().steps(2);
        ws.push(c);
    }
    let mut t = h.srv.as_ref().unwrap().connect().map_err(|e| format!("{:?}", e))?;
    let mut reqs: Vec<Vec<u8>> = vec![resp::cmd(&["MULTI"])];
    for c in body {
        reqs.push(resp::cmd(c));
    }
    reqs.push(resp::cmd(&["EXEC"]));
    let mut frames: Vec<R> = Vec::new();
    let take = |t: &mut Client, frames: &mut Vec<R>| -> Result<(), String> {
        t.poll();
        loop {
            match t.take_frame() {
                Ok(Some(f)) => frames.push(f),
                Ok(None) => return Ok(()),
                Err(e) => return Err(format!("garbage: {}", e)),
            }
        }
    };
    if one_write {
        t.send(&reqs.concat());
        let _ = h.srv.as_ref().unwrap().step();
        take(&mut t, &mut frames)?;
    } else {
        for r in reqs.iter() {
            t.send(r);
            let _ = h.srv.as_ref().unwrap().step();
            take(&mut t, &mut frames)?;
        }
    }
    for _ in 0..6 {
        let _ = h.srv.as_ref().unwrap().step();
        take(&mut t, &mut frames)?;
    }
    if frames.len() != reqs.len() {
        return Err(format!("transaction got {} replies for {} requests", frames.len(), reqs.len()));
    }
    let exec = frames.last().cloned().unwrap_or(R::Nil);
    let mut served: Vec<String> = Vec::new();
    for w in ws.iter_mut() {
        w.poll();
        while let Ok(Some(f)) = w.take_frame() {
            if let R::Arr(v) = &f {
                if v.len() == 2 {
                    served.push(format!("{}:{}", resp::show(&v[0]), resp::show(&v[1])));
                }
            }
        }
        w.discard();
    }
    t.discard();
    let _ = h.srv.as_ref().unwrap().steps(3);
    let q = h.aux_call(&["LRANGE", "q", "0", "-1"])?;
    let o = h.aux_call(&["LRANGE", "o", "0", "-1"])?;
    Ok((exec, served, q, o))
}

fn blocked_family() -> Value {
    thread_local! { static HB: std::cell::RefCell<Option<Harness>> = const { std::cell::RefCell::new(None) }; }
    HB.with(|hh| {
        let mut hh = hh.borrow_mut();
        if hh.is_none() {
            *hh = Some(Harness::new(SrvOpts::default()));
        }
        let h = hh.as_mut().unwrap();
        let mut recs = Vec::new();
        let mut errors = Vec::new();
        let mut n = 0u64;
        let elems = |r: &R| -> Vec<String> { r.as_arr().map(|a| a.iter().map(resp::show).collect()).unwrap_or_default() };
        for (bi, body) in blocked_bodies().iter().enumerate() {
            for one_write in [true, false] {
                // the reference: the same transaction with nobody waiting
                let reference = match run_blocked(h, body, &[], one_write) {
                    Ok(r) => r,
                    Err(e) => {
                        errors.push(format!("body {} reference: {}", bi, e));
                        continue;
                    }
                };
                for (wi, waiters) in blocked_waiters().iter().enumerate() {
                    n += 1;
                    match run_blocked(h, body, waiters, one_write) {
                        Ok((exec, served, q, o)) => {
                            let mut problems: Vec<&str> = Vec::new();
                            if exec != reference.0 {
                                problems.push("a-blocked-client-was-served-in-the-middle-of-EXEC");
                            }
                            // what the waiters got plus what is left is what the transaction alone leaves behind
                            let mut have: Vec<String> = elems(&q).into_iter().map(|e| format!("\"q\":{}", e)).chain(elems(&o).into_iter().map(|e| format!("\"o\":{}", e))).chain(served.iter().cloned()).collect();
                            let mut want: Vec<String> = elems(&reference.2).into_iter().map(|e| format!("\"q\":{}", e)).chain(elems(&reference.3).into_iter().map(|e| format!("\"o\":{}", e))).collect();
                            have.sort();
                            want.sort();
                            if have != want {
                                problems.push("elements-after-EXEC-and-wake-ups-differ-from-the-transaction-alone");
                            }
                            for p in problems {
                                recs.push(json!({"problem": p, "body": body.iter().map(|c| c.join(" ")).collect::<Vec<_>>(), "waiters": waiters.iter().map(|c| c.join(" ")).collect::<Vec<_>>(), "one_write": one_write,
                                    "exec": resp::show(&exec), "exec_without_waiters": resp::show(&reference.0), "served": served, "q": resp::show(&q), "o": resp::show(&o), "class": format!("body{} waiters{}", bi, wi)}));
                            }
                        }
                        Err(e) => errors.push(format!("body {} waiters {}: {}", bi, wi, e)),
                    }
                }
            }
        }
        // blocking calls queued in the transaction itself: inside EXEC they never wait (nothing to pop answers nil at
        // once), EXEC answers completely, the client is not left blocked or registered, and a later push stays in the list
        // (a seeded change passed the real connection id into EXEC's commands: the queued BLPOP blocked its own client
        // in the middle of EXEC)
        let calls: Vec<Vec<&str>> = vec![vec!["BLPOP", "q", "0"], vec!["BRPOP", "q", "0"], vec!["BLPOP", "q", "5"], vec!["BLPOP", "o", "q", "0"], vec!["BRPOP", "q", "0.5"]];
        let states: Vec<(&str, Vec<&str>)> = vec![("missing", vec![]), ("one element", vec!["RPUSH", "q", "e1"]), ("two elements", vec!["RPUSH", "q", "e1", "e2"]), ("a string", vec!["SET", "q", "str"])];
        for (ci, call) in calls.iter().enumerate() {
            for (sname, seed) in states.iter() {
                for shape in 0..3usize {
                    for one_write in [true, false] {
                        n += 1;
                        let mut run = || -> Result<Option<String>, String> {
                            h.ensure()?;
                            h.aux_call(&["FLUSHALL"])?;
                            if !seed.is_empty() {
                                h.aux_call(seed)?;
                            }
                            let mut body: Vec<Vec<&str>> = Vec::new();
                            if shape == 2 {
                                body.push(vec!["RPUSH", "o", "z"]);
                            }
                            let slot = body.len();
                            body.push(call.clone());
                            if shape >= 1 {
                                body.push(vec!["SET", "a", "1"]);
                                body.push(vec!["LLEN", "q"]);
                            }
                            let mut reqs: Vec<Vec<u8>> = vec![resp::cmd(&["MULTI"])];
                            reqs.extend(body.iter().map(|c| resp::cmd(c)));
                            reqs.push(resp::cmd(&["EXEC"]));
                            let mut t = h.srv.as_ref().unwrap().connect().map_err(|e| format!("{:?}", e))?;
                            if one_write {
                                t.send(&reqs.concat());
                            }
                            let mut frames: Vec<R> = Vec::new();
                            let mut garbage = None;
                            for i in 0..reqs.len() + 6 {
                                if !one_write && i < reqs.len() {
                                    t.send(&reqs[i]);
                                }
                                let _ = h.srv.as_ref().unwrap().step();
                                t.poll();
                                loop {
                                    match t.take_frame() {
                                        Ok(Some(f)) => frames.push(f),
                                        Ok(None) => break,
                                        Err(e) => {
                                            garbage = Some(e);
                                            break;
                                        }
                                    }
                                }
                            }
                            let id = t.id;
                            let row_blocked = (h.srv.as_ref().unwrap().h.connections)().iter().any(|r| r.id == id && r.state == "blocked");
                            let (waiters, _, _) = h.srv.as_ref().unwrap().h.blocking.verif_snapshot();
                            let registered = waiters.iter().any(|w| w.conn_id == id);
                            let mut verdict: Option<String> = None;
                            if garbage.is_some() || !t.buf.is_empty() {
                                verdict = Some("EXEC-reply-incomplete-or-malformed".into());
                            } else if frames.len() != reqs.len() {
                                verdict = Some(format!("{}-replies-for-{}-requests", frames.len(), reqs.len()));
                            } else if row_blocked || registered {
                                verdict = Some("client-left-blocked-by-its-own-EXEC".into());
                            } else {
                                // expected slot of the blocking call
                                let o_has = shape == 2;
                                let keys: Vec<&str> = call[1..call.len() - 1].to_vec();
                                let right = call[0] == "BRPOP";
                                let mut want: Option<R> = Some(R::NilArr);
                                for k in keys.iter() {
                                    if *k == "o" {
                                        if o_has {
                                            want = Some(R::Arr(vec![R::Bulk(b"o".to_vec()), R::Bulk(b"z".to_vec())]));
                                            break;
                                        }
                                    } else if *sname == "a string" {
                                        want = None; // an error
                                        break;
                                    } else if *sname != "missing" {
                                        let e = if right && *sname == "two elements" { "e2" } else { "e1" };
                                        want = Some(R::Arr(vec![R::Bulk(b"q".to_vec()), R::Bulk(e.as_bytes().to_vec())]));
                                        break;
                                    }
                                }
                                match frames.last() {
                                    Some(R::Arr(v)) if v.len() == body.len() => {
                                        let got = &v[slot];
                                        let fine = match &want {
                                            None => got.is_err(),
                                            Some(w) => crate::model::same(w, got),
                                        };
                                        if !fine {
                                            verdict = Some(format!("blocking-call-in-EXEC-answered-{}", resp::class(got)));
                                        }
                                    }
                                    Some(other) => verdict = Some(format!("EXEC-answered-{}", resp::class(other))),
                                    None => {}
                                }
                            }
                            if verdict.is_none() {
                                let before = h.aux_call(&["LLEN", "q"]).ok();
                                if *sname != "a string" {
                                    h.aux_call(&["RPUSH", "q", "later"])?;
                                    let _ = h.srv.as_ref().unwrap().steps(3);
                                    let after = h.aux_call(&["LLEN", "q"])?;
                                    if let (Some(R::Int(b0)), R::Int(a0)) = (before, after) {
                                        if a0 != b0 + 1 {
                                            verdict = Some("a-later-push-was-swallowed".into());
                                        }
                                    }
                                }
                                if verdict.is_none() {
                                    let pong = h.srv.as_ref().unwrap().call(&mut t, &["PING"]).map(|r| r == R::Simple(b"PONG".to_vec())).unwrap_or(false);
                                    if !pong {
                                        verdict = Some("connection-out-of-step-after-EXEC".into());
                                    }
                                }
                            }
                            t.discard();
                            let _ = h.srv.as_ref().unwrap().steps(3);
                            Ok(verdict)
                        };
                        match run() {
                            Ok(Some(p)) => recs.push(json!({"problem": p, "body": format!("{} queued in MULTI ({}; q is {})", call.join(" "), ["alone", "followed by SET a 1, LLEN q", "after RPUSH o z, followed by SET a 1, LLEN q"][shape], sname), "one_write": one_write, "class": format!("queued-blocking-call{} {}", ci, sname)})),
                            Ok(None) => {}
                            Err(e) => {
                                errors.push(format!("queued blocking call {} {}: {}", call.join(" "), sname, e));
                                *hh = Some(Harness::new(SrvOpts::default()));
                                return json!({"recs": recs, "errors": errors, "n": n});
                            }
                        }
                    }
                }
            }
        }
        // long transactions: N queued INCRs (N around the powers of two and the loop's batch sizes, up to 5000) sent in one
        // write; EXEC answers N integers 1..N and the counter ends at N; the same queue ended by DISCARD leaves nothing
        for &len in [1usize, 31, 32, 33, 99, 100, 101, 127, 128, 129, 255, 256, 257, 1000, 1023, 1024, 1025, 5000].iter() {
            for discard in [false, true] {
                n += 1;
                let mut run = || -> Result<Option<String>, String> {
                    h.ensure()?;
                    h.aux_call(&["FLUSHALL"])?;
                    let mut bytes = resp::cmd(&["MULTI"]);
                    for _ in 0..len {
                        bytes.extend(resp::cmd(&["INCR", "a"]));
                    }
                    bytes.extend(resp::cmd(&[if discard { "DISCARD" } else { "EXEC" }]));
                    let mut t = h.srv.as_ref().unwrap().connect().map_err(|e| format!("{:?}", e))?;
                    h.srv.as_ref().unwrap().send_all(&mut t, &bytes).map_err(|e| format!("send: {:?}", e))?;
                    let (frames, err) = h.collect(&mut t, len + 2, 12);
                    t.discard();
                    let a = h.aux_call(&["GET", "a"])?;
                    if let Some(e) = err {
                        return Ok(Some(format!("error-{}", e.split(':').next().unwrap_or(""))));
                    }
                    if frames.len() != len + 2 {
                        return Ok(Some(format!("{}-replies-for-{}-requests", frames.len(), len + 2)));
                    }
                    if frames[1..=len].iter().any(|f| *f != R::Simple(b"QUEUED".to_vec())) {
                        return Ok(Some("not-every-command-was-queued".into()));
                    }
                    if discard {
                        if frames[len + 1] != R::ok() || !matches!(a, R::Nil) {
                            return Ok(Some("DISCARD-left-something-behind".into()));
                        }
                    } else {
                        let fine = match &frames[len + 1] {
                            R::Arr(v) => v.len() == len && v.iter().enumerate().all(|(i, x)| *x == R::Int(i as i64 + 1)),
                            _ => false,
                        };
                        if !fine {
                            return Ok(Some(format!("EXEC-answered-{}", resp::class(&frames[len + 1]))));
                        }
                        if a != R::Bulk(len.to_string().into_bytes()) {
                            return Ok(Some("counter-differs-from-the-number-of-queued-commands".into()));
                        }
                    }
                    Ok(None)
                };
                match run() {
                    Ok(Some(p)) => recs.push(json!({"problem": p, "body": format!("MULTI, {} x INCR a, {}", len, if discard { "DISCARD" } else { "EXEC" }), "one_write": true, "class": format!("long-transaction {}", len)})),
                    Ok(None) => {}
                    Err(e) => errors.push(format!("long transaction {}: {}", len, e)),
                }
            }
        }
        json!({"recs": recs, "errors": errors, "n": n})
    })
}



// ------------------------------------------------------------------ (e) all or nothing while the environment refuses commands

/// The transfer transaction arrives one command per loop iteration while another connection pauses and unpauses the
/// clients in every combination of the five gaps (before MULTI ... after EXEC): whatever is refused or accepted, the
/// transfer happens completely or not at all, and EXEC's array has one slot per command that was answered QUEUED
/// (a seeded reordering applied the pause check before the queueing: a command refused during the pause was missing
/// from the transaction, EXEC ran the rest).
fn pause_family(io: &mut WorkerIo) -> Value {
    thread_local! { static HP: std::cell::RefCell<Option<Harness>> = const { std::cell::RefCell::new(None) }; }
    HP.with(|hh| {
        let mut hh = hh.borrow_mut();
        if hh.is_none() {
            *hh = Some(Harness::new(SrvOpts::default()));
        }
        let h = hh.as_mut().unwrap();
        let mut recs = Vec::new();
        let mut errors = Vec::new();
        let mut n = 0u64;
        let env: [Option<Vec<&str>>; 3] = [None, Some(vec!["CLIENT", "PAUSE", "100000"]), Some(vec!["CLIENT", "UNPAUSE"])];
        let tx: Vec<Vec<&str>> = vec![vec!["MULTI"], vec!["DECRBY", "a", "1"], vec!["INCRBY", "b", "1"], vec!["EXEC"]];
        for code in 0..3usize.pow(5) {
            let mut gaps = [0usize; 5];
            let mut x = code;
            for g in gaps.iter_mut() {
                *g = x % 3;
                x /= 3;
            }
            n += 1;
            io.announce_case(json!({"pause_family": code}));
            let mut run = || -> Result<Option<Value>, String> {
                h.ensure()?;
                let _ = h.aux_call(&["CLIENT", "UNPAUSE"]);
                h.aux_call(&["FLUSHALL"])?;
                h.aux_call(&["MSET", "a", "10", "b", "20"])?;
                let srv = h.srv.as_ref().unwrap();
                let mut t = srv.connect().map_err(|e| format!("{:?}", e))?;
                let mut e = srv.connect().map_err(|e| format!("{:?}", e))?;
                let mut t_frames: Vec<R> = Vec::new();
                let mut steps_desc: Vec<String> = Vec::new();
                for i in 0..5 {
                    if let Some(c) = &env[gaps[i]] {
                        e.send(&resp::cmd(c));
                        let _ = srv.steps(2);
                        e.poll();
                        while let Ok(Some(_)) = e.take_frame() {}
                        steps_desc.push(format!("(other connection) {}", c.join(" ")));
                    }
                    if i < tx.len() {
                        t.send(&resp::cmd(&tx[i]));
                        let _ = srv.steps(2);
                        t.poll();
                        while let Ok(Some(f)) = t.take_frame() {
                            steps_desc.push(format!("{} -> {}", tx[i].join(" "), resp::show(&f)));
                            t_frames.push(f);
                        }
                    }
                }
                t.discard();
                e.discard();
                let _ = h.srv.as_ref().unwrap().steps(2);
                let _ = h.aux_call(&["CLIENT", "UNPAUSE"]);
                let fin = h.aux_call(&["MGET", "a", "b"])?;
                let queued = t_frames.iter().filter(|f| **f == R::Simple(b"QUEUED".to_vec())).count();
                let mut problems: Vec<&str> = Vec::new();
                let both = R::Arr(vec![R::Bulk(b"9".to_vec()), R::Bulk(b"21".to_vec())]);
                let none = R::Arr(vec![R::Bulk(b"10".to_vec()), R::Bulk(b"20".to_vec())]);
                if fin != both && fin != none {
                    problems.push("half-of-the-transaction-was-executed");
                }
                if let Some(R::Arr(v)) = t_frames.last() {
                    if v.len() != queued {
                        problems.push("EXEC-array-does-not-have-one-slot-per-queued-command");
                    }
                }
                if problems.is_empty() {
                    return Ok(None);
                }
                Ok(Some(json!({"problems": problems, "steps": steps_desc, "final": resp::show(&fin)})))
            };
            match run() {
                Ok(None) => {}
                Ok(Some(v)) => {
                    for p in v["problems"].as_array().cloned().unwrap_or_default() {
                        recs.push(json!({"problem": p, "steps": v["steps"], "final": v["final"], "code": code}));
                    }
                }
                Err(e) => errors.push(format!("pause family {}: {}", code, e)),
            }
        }
        json!({"recs": recs, "errors": errors, "n": n})
    })
}

// ------------------------------------------------------------------ (d) a queued command does what the direct command does

/// For every alphabet of the data-type searches and every history up to the depth: each command of the menu is run
/// directly and, on a fresh replay of the same history, as MULTI / <command> / EXEC; the element of the EXEC reply
/// must equal the direct reply and the raw dataset afterwards must be the same (EXEC executes the queue on a path
/// of its own, with a dummy connection id; a seeded change on that path showed only for a blocking pop).
fn exec_differential(spec: &str, depth: usize, part: u64, parts: u64, io: &mut WorkerIo) -> Value {
    use super::c12::{absolute_far_ids, clip, normalise, rel, world_for};
    let b = |s: &str| s.as_bytes().to_vec();
    let mut w = match world_for(spec) {
        Some(w) => w,
        None => return json!({"errors": [format!("unknown spec {}", spec)]}),
    };
    let n = w.n_actions();
    let mut recs = Vec::new();
    let mut errors = Vec::new();
    let mut cases = 0u64;
    let mut nontrivial = 0u64;
    let mut hists: Vec<Vec<usize>> = vec![vec![]];
    for d in 1..=depth {
        let prev: Vec<Vec<usize>> = hists.iter().filter(|h| h.len() == d - 1).cloned().collect();
        for h in prev {
            for a in 0..n {
                let mut x = h.clone();
                x.push(a);
                hists.push(x);
            }
        }
    }
    let mut seen: BTreeSet<u128> = BTreeSet::new();
    let mut index = 0u64;
    let mut replay = |w: &mut Box<dyn World>, h: &[usize]| -> Result<(), String> {
        w.reset()?;
        for &a in h {
            let _ = w.apply(a)?;
        }
        Ok(())
    };
    for h in hists.iter() {
        if let Err(e) = replay(&mut w, h) {
            errors.push(e);
            continue;
        }
        if !seen.insert(w.fingerprint().unwrap_or(0)) {
            continue;
        }
        let menu = w.menu_here();
        for cmd in menu.iter() {
            index += 1;
            if index % parts != part {
                continue;
            }
            let name = String::from_utf8_lossy(&cmd[0]).to_uppercase();
            if matches!(name.as_str(), "MULTI" | "EXEC" | "DISCARD" | "WATCH" | "UNWATCH" | "BLPOP" | "BRPOP" | "SCRIPT" | "EVALSHA") {
                continue;
            }
            if cases % 64 == 0 {
                io.announce_case(json!({"spec": spec, "history": h, "command": resp::show_cmd(cmd)}));
            }
            cases += 1;
            // direct
            if let Err(e) = replay(&mut w, h) {
                errors.push(e);
                continue;
            }
            let d_reply = match w.raw_call(cmd) {
                Ok(r) => r,
                Err(_) => continue, // no reply to the direct command: C05's subject
            };
            let d_epoch = w.epoch_ms();
            let d_state = absolute_far_ids(&w.raw_state(), d_epoch);
            // queued
            if let Err(e) = replay(&mut w, h) {
                errors.push(e);
                continue;
            }
            let steps: Vec<String> = h.iter().map(|a| w.describe(*a)).collect();
            let r1 = w.raw_call(&[b("MULTI")]);
            let r2 = w.raw_call(cmd);
            let r3 = w.raw_call(&[b("EXEC")]);
            let q_epoch = w.epoch_ms();
            let q_state = absolute_far_ids(&w.raw_state(), q_epoch);
            let mut problem: Option<String> = None;
            match (&r1, &r2, &r3) {
                (Ok(m), Ok(q), Ok(x)) => {
                    if *m != R::ok() {
                        problem = Some("MULTI-refused".into());
                    } else if *q == R::Simple(b"QUEUED".to_vec()) {
                        match x {
                            R::Arr(v) if v.len() == 1 => {
                                let want = normalise(&name, &rel(&d_reply, d_epoch));
                                let got = normalise(&name, &rel(&v[0], q_epoch));
                                let same = if d_reply.is_err() { v[0].is_err() } else { crate::model::same(&want, &got) };
                                if !same {
                                    problem = Some(format!("reply-differs(direct={} queued={})", resp::class(&d_reply), resp::class(&v[0])));
                                }
                            }
                            other => problem = Some(format!("EXEC-answered-{}", resp::class(other))),
                        }
                    } else if q.is_err() {
                        // refused when it was queued: then it must be refused when sent directly, too
                        if !d_reply.is_err() {
                            problem = Some("refused-at-queue-time-but-the-direct-command-succeeds".into());
                        }
                    } else {
                        problem = Some(format!("queue-reply-{}", resp::class(q)));
                    }
                }
                _ => problem = Some("no-reply-on-the-transaction-path".into()),
            }
            if !d_reply.is_err() {
                nontrivial += 1;
            }
            let random_effect = name == "SPOP" && match &d_reply {
                R::Bulk(_) => true,
                R::Arr(v) => !v.is_empty(),
                _ => false,
            };
            if problem.is_none() && q_state != d_state && !random_effect {
                problem = Some("dataset-differs".into());
            }
            if let Some(pr) = problem {
                recs.push(json!({"spec": spec, "history": h, "steps": steps, "command": resp::show_cmd(cmd), "class": name, "problem": pr,
                    "detail": {"direct": resp::show(&d_reply), "queue_reply": r2.as_ref().map(resp::show).unwrap_or_else(|e| e.clone()), "exec_reply": r3.as_ref().map(resp::show).unwrap_or_else(|e| e.clone()),
                        "dataset_after_direct": clip(&d_state), "dataset_after_exec": clip(&q_state)}}));
            }
        }
    }
    json!({"recs": recs, "errors": errors, "cases": cases, "nontrivial": nontrivial, "states": seen.len()})
}

fn extra_worker(_tier: &str, task: &Value, _io: &mut WorkerIo) -> Option<Value> {
    if task.get("pausefam").is_some() || task.get("replay").map(|r| r["kind"] == "pausefam").unwrap_or(false) {
        return Some(pause_family(_io));
    }
    if let Some(t) = task.get("execdiff").or_else(|| task.get("replay").and_then(|r| r.get("execdiff"))) {
        return Some(exec_differential(t["spec"].as_str().unwrap_or(""), t["depth"].as_u64().unwrap_or(1) as usize, t["part"].as_u64().unwrap_or(0), t["parts"].as_u64().unwrap_or(1), _io));
    }
    if task.get("blocked").is_some() || task.get("replay").map(|r| r["kind"] == "blocked").unwrap_or(false) {
        return Some(blocked_family());
    }
    thread_local! { static H: std::cell::RefCell<Option<Harness>> = const { std::cell::RefCell::new(None) }; }
    let run = |variant: usize, order: Vec<usize>, a: usize, b: usize| -> Value {
        H.with(|hh| {
            let mut hh = hh.borrow_mut();
            if hh.is_none() {
                *hh = Some(Harness::new(SrvOpts::default()));
            }
            let h = hh.as_mut().unwrap();
            let all = schedules(&roles(variant));
            let mut recs = Vec::new();
            let mut errors = Vec::new();
            let mut outcomes: BTreeSet<u64> = BTreeSet::new();
            let mut n = 0u64;
            for i in a..b.min(all.len()) {
                match run_schedule(h, variant, &order, &all[i]) {
                    Ok((p, d)) => {
                        n += 1;
                        outcomes.insert(crate::report::fnv(format!("{}{}{}", d["T"], d["R"], d["W"]).as_bytes()));
                        if !p.is_empty() || i % 4001 == 0 {
                            recs.push(json!({"i": i, "problems": p, "detail": d}));
                        }
                    }
                    Err(e) => errors.push(format!("schedule {}: {}", i, e)),
                }
            }
            json!({"recs": recs, "errors": errors, "n": n, "outcomes": outcomes.iter().cloned().collect::<Vec<_>>()})
        })
    };
    if let Some(s) = task.get("isolation") {
        let variant = s["variant"].as_u64().unwrap_or(0) as usize;
        let order: Vec<usize> = s["order"].as_array().map(|a| a.iter().map(|x| x.as_u64().unwrap_or(0) as usize).collect()).unwrap_or_else(|| vec![0, 1, 2]);
        return Some(run(variant, order, s["range"][0].as_u64().unwrap_or(0) as usize, s["range"][1].as_u64().unwrap_or(0) as usize));
    }
    if let Some(r) = task.get("replay") {
        if r["kind"].as_str() == Some("isolation") {
            let variant = r["variant"].as_u64().unwrap_or(0) as usize;
            let order: Vec<usize> = r["order"].as_array().map(|a| a.iter().map(|x| x.as_u64().unwrap_or(0) as usize).collect()).unwrap_or_else(|| vec![0, 1, 2]);
            let i = r["index"].as_u64().unwrap_or(0) as usize;
            return Some(run(variant, order, i, i + 1));
        }
    }
    None
}

fn extra_parent(pool: &Pool, tier: &str, report: &mut RunReport) -> Value {
    let thorough = tier == "thorough";
    let orders: Vec<Vec<usize>> = if thorough { vec![vec![0, 1, 2], vec![0, 2, 1], vec![1, 0, 2], vec![1, 2, 0], vec![2, 0, 1], vec![2, 1, 0]] } else { vec![vec![0, 1, 2], vec![2, 1, 0]] };
    let mut tasks = Vec::new();
    let mut meta = Vec::new();
    let mut total_sched = 0usize;
    for variant in 0..3usize {
        let n = schedules(&roles(variant)).len();
        total_sched += n * orders.len();
        for o in orders.iter() {
            let chunk = (n / 8).max(50);
            let mut i = 0;
            while i < n {
                tasks.push(json!({"isolation": {"variant": variant, "order": o, "range": [i, (i + chunk).min(n)]}}));
                meta.push((variant, o.clone()));
                i += chunk;
            }
        }
    }
    // (c) the blocked-waiter family: one task
    let mut blocked_n = 0u64;
    match &pool.map(vec![json!({"blocked": true})], 0)[0] {
        Outcome::Done(v) => {
            for e in v["errors"].as_array().cloned().unwrap_or_default() {
                report.machinery_errors.push(format!("{}", e));
            }
            blocked_n = v["n"].as_u64().unwrap_or(0);
            for r in v["recs"].as_array().cloned().unwrap_or_default() {
                report.deviations.push(Deviation { property: "C07".into(), sig: format!("C07|BLOCKED-WAITERS|{}|{}", r["class"].as_str().unwrap_or(""), r["problem"].as_str().unwrap_or("")), replay: json!({"kind": "blocked", "detail": r}) });
            }
        }
        Outcome::Died { status, case } => report.machinery_errors.push(format!("blocked-waiter worker died: {} {:?}", status, case)),
    }
    println!("  c07-blocked-waiters: scenarios={}", blocked_n);
    // (e) the pause family: one task
    let mut pause_n = 0u64;
    match &pool.map(vec![json!({"pausefam": true})], 0)[0] {
        Outcome::Done(v) => {
            for e in v["errors"].as_array().cloned().unwrap_or_default() {
                report.machinery_errors.push(format!("{}", e));
            }
            pause_n = v["n"].as_u64().unwrap_or(0);
            for r in v["recs"].as_array().cloned().unwrap_or_default() {
                report.deviations.push(Deviation { property: "C07".into(), sig: format!("C07|PAUSE|{}", r["problem"].as_str().unwrap_or("")), replay: json!({"kind": "pausefam", "detail": r}) });
            }
        }
        Outcome::Died { status, case } => report.machinery_errors.push(format!("pause family worker died: {} {:?}", status, case)),
    }
    println!("  c07-pause: sequences={}", pause_n);
    // (d) direct vs queued, over the data-type alphabets
    let mut ed_tasks = Vec::new();
    let specs: Vec<&str> = if thorough { super::c12::SPECS.to_vec() } else { super::c12::SPECS[..8].to_vec() };
    for spec in specs.iter() {
        let deep = thorough && matches!(*spec, "c03-mixed" | "c01-core" | "c15-stream" | "c16-core" | "c03-list" | "c03-set" | "c03-hash" | "c04-cmds");
        let (depth, parts) = if deep { (2u64, 32u64) } else if thorough { (1, 8) } else { (1, 4) };
        for part in 0..parts {
            ed_tasks.push(json!({"execdiff": {"spec": spec, "depth": depth, "part": part, "parts": parts}}));
        }
    }
    let mut ed_cases = 0u64;
    let mut ed_nontrivial = 0u64;
    for (t, o) in ed_tasks.iter().zip(pool.map(ed_tasks.clone(), 0).iter()) {
        match o {
            Outcome::Done(v) => {
                for e in v["errors"].as_array().cloned().unwrap_or_default() {
                    report.machinery_errors.push(format!("{}", e));
                }
                ed_cases += v["cases"].as_u64().unwrap_or(0);
                ed_nontrivial += v["nontrivial"].as_u64().unwrap_or(0);
                for r in v["recs"].as_array().cloned().unwrap_or_default() {
                    report.deviations.push(Deviation { property: "C07".into(), sig: format!("C07|QUEUED-VS-DIRECT|{}|{}", r["class"].as_str().unwrap_or(""), r["problem"].as_str().unwrap_or("")), replay: json!({"kind": "execdiff", "execdiff": t["execdiff"], "detail": r}) });
                }
            }
            Outcome::Died { status, case } => report.deviations.push(Deviation { property: "C07".into(), sig: "C07|QUEUED-VS-DIRECT|process-died".into(), replay: json!({"kind": "execdiff", "execdiff": t["execdiff"], "status": status, "case": case}) }),
        }
    }
    println!("  c07-queued-vs-direct: cases={} (direct command succeeds in {})", ed_cases, ed_nontrivial);
    if ed_cases == 0 {
        report.machinery_errors.push("vacuity: no queued-vs-direct case was run".into());
    }
    let out = pool.map(tasks, 0);
    let mut n = 0u64;
    let mut outcomes: BTreeSet<u64> = BTreeSet::new();
    let mut samples = Vec::new();
    for ((variant, order), o) in meta.iter().zip(out.iter()) {
        match o {
            Outcome::Done(v) => {
                for e in v["errors"].as_array().cloned().unwrap_or_default() {
                    report.machinery_errors.push(format!("{}", e));
                }
                n += v["n"].as_u64().unwrap_or(0);
                for x in v["outcomes"].as_array().cloned().unwrap_or_default() {
                    if let Some(y) = x.as_u64() {
                        outcomes.insert(y);
                    }
                }
                for r in v["recs"].as_array().cloned().unwrap_or_default() {
                    let problems: Vec<String> = r["problems"].as_array().map(|a| a.iter().map(|s| s.as_str().unwrap_or("").to_string()).collect()).unwrap_or_default();
                    if problems.is_empty() {
                        if samples.len() < 2 {
                            samples.push(r["detail"].clone());
                        }
                        continue;
                    }
                    for p in problems {
                        report.deviations.push(Deviation { property: "C07".into(), sig: format!("C07|ISOLATION|variant{}|{}", variant, p), replay: json!({"kind": "isolation", "variant": variant, "order": order, "index": r["i"], "detail": r["detail"]}) });
                    }
                }
            }
            Outcome::Died { status, case } => report.machinery_errors.push(format!("isolation worker died: {} {:?}", status, case)),
        }
    }
    println!("  c07-isolation: schedules={} (of {}) distinct reply patterns={}", n, total_sched, outcomes.len());
    if outcomes.len() < 2 {
        report.machinery_errors.push("vacuity: all isolation schedules produced the same replies (nothing interleaved)".into());
    }
    json!({"pause_family": {"sequences": pause_n, "rule": "MULTI / DECRBY a 1 / INCRBY b 1 / EXEC, one command per loop iteration, with another connection sending nothing / CLIENT PAUSE / CLIENT UNPAUSE in each of the five gaps (3^5 combinations): a and b end as (9, 21) or (10, 20), EXEC's array has one slot per command answered QUEUED"},
        "queued_vs_direct": {"cases": ed_cases, "direct_command_succeeds_in": ed_nontrivial, "rule": "every command of the C01/C03/C04/C15/C16 alphabets (thorough: also C02's and the full ones) at every state reached by histories up to depth 1 (thorough 2 on eight alphabets): the command directly vs MULTI, the command, EXEC on a fresh replay: the element of the EXEC reply equals the direct reply (same normalisation as C12), a command refused when queued also fails directly, the raw dataset afterwards is the same"},
        "blocked_waiter_scenarios": {"executions": blocked_n, "rule": "7 transaction bodies that push to a key x 6 sets of clients blocked on it (BLPOP, BRPOP, both, two keys, timed) x {one write, one command per iteration}: the EXEC reply equals that of the same transaction with nobody waiting, and what the waiters got plus what is left equals what the transaction alone leaves behind"},
        "isolation_schedules": {"executions": n, "variants": ["one command per chunk", "fragmented mid-command", "script"], "connection_orders": orders.len(), "distinct_reply_patterns": outcomes.len(), "samples": samples}})
}

fn prop() -> DataProp {
    DataProp {
        id: "C07",
        specs: vec![SpecRun { spec: "c07-tx", depth_quick: 5, depth_thorough: 7, budget_quick_s: 25.0, budget_thorough_s: 1500.0 },
            SpecRun { spec: "c07-tx-sameshard", depth_quick: 3, depth_thorough: 5, budget_quick_s: 15.0, budget_thorough_s: 900.0 },
            SpecRun { spec: "c07-case", depth_quick: 5, depth_thorough: 7, budget_quick_s: 10.0, budget_thorough_s: 600.0 }],
        make_world,
        assumptions: {
            let mut a = e1common::std_assumptions();
            a.push("queue-time errors (unknown command / wrong arity inside MULTI -> EXECABORT) are outside the statement and the alphabet".into());
            a
        },
    }
}

pub fn parent(tier: &str) -> i32 {
    e1common::data_parent(&prop(), tier, Some(&extra_parent))
}

pub fn handle_factory() -> impl FnMut(&str, &Value, &mut WorkerIo) -> (Value, bool) {
    e1common::data_handle_factory(make_world, Some(extra_worker))
}
