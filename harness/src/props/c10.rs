//! C10 — the dump on disk is always a complete, loadable, per-key-consistent snapshot.
//! Three exhaustive enumerations on the real code:
//!  (A) write faults and crash points: every raw write of a save as the failing write (once / from then on),
//!      through SAVE and BGSAVE, with and without a previous dump; the save thread paused at every write and
//!      around the rename, the file on disk inspected at every pause;
//!  (B) schedules: the real save thread stepped through its per-key read points (hooks) with every placement
//!      of client commands / clock movement from a menu in between (bound 1, thorough 2), also started by the
//!      real auto-save monitor and with a second writer (SAVE) in the middle;
//!  (C) read faults: every prefix and every single-byte substitution of valid dumps loaded with the real loader
//!      under a counting allocator.

use crate::gate;
use crate::gate::StepResult;
use crate::pool::{Outcome, Pool, WorkerIo};
use crate::report::{Deviation, RunReport};
use crate::resp::{self, R};
use crate::srv::{Client, Srv, SrvOpts};
use crate::vtime;
use ferrous::storage::{RdbConfig, RdbEngine};
use ferrous::verif_hooks as vh;
use ferrous::StorageEngine;
use serde_json::{json, Value};
use std::collections::{BTreeMap, BTreeSet, HashMap};
use std::path::{Path, PathBuf};
use std::sync::atomic::Ordering;
use std::sync::Arc;
use std::time::Duration;

type Bytes = Vec<u8>;
const MS: u64 = 1_000_000;

fn b(s: &str) -> Bytes {
    s.as_bytes().to_vec()
}

// ------------------------------------------------------------------ snapshots of an engine

/// (db, key as printed) -> (value as printed, deadline in absolute virtual ms)
pub type Snap = BTreeMap<(usize, String), (String, Option<i64>)>;

/// read-only snapshot of everything stored (keys whose deadline has passed count as absent)
pub fn snap(storage: &StorageEngine) -> Snap {
    let now = vtime::mono_ns() as i128;
    let mut out = Snap::new();
    for db in 0..16usize {
        let raw = storage.verif_raw_dump(db, 0);
        for line in raw.lines() {
            if !line.starts_with("  ") || line.starts_with("  orphan-index") {
                continue;
            }
            let body = &line[2..];
            let (key, rest) = match body.split_once(" = ") {
                Some(x) => x,
                None => continue,
            };
            let (val, tail) = match rest.rsplit_once(" exp=") {
                Some(x) => x,
                None => continue,
            };
            let exp = tail.split(" idx=").next().unwrap_or("-");
            let mut val = val.to_string();
            if val.starts_with("stream[") {
                // entries only: the last generated id and consumer groups are not part of the statement
                if let Some(p) = val.find("] last=") {
                    val.truncate(p + 1);
                }
            }
            let deadline = if exp == "-" {
                None
            } else {
                match exp.parse::<i128>() {
                    Ok(rel) => {
                        if rel < 0 {
                            continue; // expired, only not collected yet
                        }
                        Some(((now + rel) / 1_000_000) as i64)
                    }
                    Err(_) => None,
                }
            };
            out.insert((db, key.to_string()), (val, deadline));
        }
    }
    out
}

fn dl_eq(a: &Option<i64>, b: &Option<i64>) -> bool {
    match (a, b) {
        (None, None) => true,
        (Some(x), Some(y)) => (x - y).abs() <= 2,
        _ => false,
    }
}

fn show_state(s: Option<&(String, Option<i64>)>) -> String {
    match s {
        None => "absent".to_string(),
        Some((v, d)) => {
            let mut v = v.clone();
            if v.len() > 120 {
                v.truncate(120);
                v.push_str("...");
            }
            format!("{} ttl={}", v, if d.is_some() { "yes" } else { "no" })
        }
    }
}

/// per-key consistency of a loaded dump with the states observed during the save
pub fn consistent(loaded: &Snap, snaps: &[Snap]) -> Vec<(String, Value)> {
    let mut problems = Vec::new();
    for (key, (val, dl)) in loaded.iter() {
        let exact = snaps.iter().any(|s| s.get(key).map(|(v, d)| v == val && dl_eq(d, dl)).unwrap_or(false));
        if exact {
            continue;
        }
        let value_seen = snaps.iter().any(|s| s.get(key).map(|(v, _)| v == val).unwrap_or(false));
        let key_seen = snaps.iter().any(|s| s.contains_key(key));
        let what = if value_seen {
            "value-and-ttl-from-different-instants"
        } else if key_seen {
            "value-the-key-never-had"
        } else {
            "key-that-did-not-exist-during-the-save"
        };
        let states: Vec<String> = snaps.iter().map(|s| show_state(s.get(key))).collect();
        problems.push((what.to_string(), json!({"key": format!("db{} {}", key.0, key.1), "in_dump": show_state(Some(&(val.clone(), *dl))), "states_during_the_save": states})));
    }
    if let Some(first) = snaps.first() {
        for key in first.keys() {
            // (an emptied stream cannot be restored at all: C09's known finding, not a matter of the save)
            if snaps.iter().any(|s| s.get(key).map(|(v, _)| v == "stream[]").unwrap_or(false)) {
                continue;
            }
            // a state with a deadline that has passed by now is legitimately dropped by the loader
            let now_ms = (vtime::mono_ns() / MS) as i64;
            if snaps.iter().any(|s| s.get(key).and_then(|(_, d)| *d).map(|d| d <= now_ms + 2).unwrap_or(false)) {
                continue;
            }
            if snaps.iter().all(|s| s.contains_key(key)) && !loaded.contains_key(key) {
                problems.push(("key-present-throughout-the-save-missing-from-the-dump".to_string(), json!({"key": format!("db{} {}", key.0, key.1)})));
            }
        }
    }
    problems
}

// ------------------------------------------------------------------ loading a file with the real loader

pub struct Loader {
    scratch: Arc<StorageEngine>,
}

impl Loader {
    pub fn new() -> Loader {
        Loader { scratch: StorageEngine::new() }
    }
    /// load `path` into the (emptied) scratch engine with `RdbEngine::load`; Err = the loader's error or panic
    pub fn load(&self, path: &Path) -> Result<Snap, String> {
        self.load_only(path).map(|_| snap(&self.scratch))
    }
    /// the loader alone (returns the largest single allocation request made while it ran)
    pub fn load_only(&self, path: &Path) -> Result<usize, String> {
        for db in 0..16 {
            let _ = self.scratch.flush_db(db);
        }
        let cfg = RdbConfig {
            dir: path.parent().map(|p| p.to_string_lossy().to_string()).unwrap_or_else(|| ".".into()),
            filename: path.file_name().map(|f| f.to_string_lossy().to_string()).unwrap_or_default(),
            ..RdbConfig::default()
        };
        let eng = RdbEngine::new(cfg);
        let scratch = self.scratch.clone();
        crate::MAX_REQ.store(0, Ordering::SeqCst);
        let r = std::panic::catch_unwind(std::panic::AssertUnwindSafe(|| eng.load(&scratch)));
        let max_req = crate::MAX_REQ.load(Ordering::SeqCst);
        match r {
            Ok(Ok(())) => Ok(max_req),
            Ok(Err(e)) => Err(format!("error: {}", e)),
            Err(p) => {
                let msg = if let Some(s) = p.downcast_ref::<&str>() { s.to_string() } else if let Some(s) = p.downcast_ref::<String>() { s.clone() } else { "panic".to_string() };
                Err(format!("panic: {}", msg))
            }
        }
    }
}

fn read_file(p: &Path) -> Option<Vec<u8>> {
    std::fs::read(p).ok()
}

// ------------------------------------------------------------------ common harness

struct H {
    srv: Option<Srv>,
    c: Option<Client>,
    loader: Loader,
    opts: SrvOpts,
    restarts: usize,
}

impl H {
    fn new(opts: SrvOpts) -> H {
        vtime::enable();
        H { srv: None, c: None, loader: Loader::new(), opts, restarts: 0 }
    }
    fn quiesce_hooks() {
        gate::set_park_points(&[]);
        gate::set_park_background_only(false);
        gate::set_fail_write_at(None);
        gate::set_fail_writes_from(None);
        if !gate::parked().is_empty() {
            gate::release_all();
            let _ = vtime::settle();
        }
    }
    fn ensure(&mut self) -> Result<(), String> {
        Self::quiesce_hooks();
        if self.srv.as_ref().map(|s| s.is_dead()).unwrap_or(true) {
            self.c = None;
            self.srv = None;
            self.srv = Some(Srv::start(&self.opts));
            self.restarts += 1;
        }
        if self.c.as_ref().map(|c| !c.is_open()).unwrap_or(true) {
            self.c = Some(self.srv.as_ref().unwrap().connect().map_err(|e| format!("connect: {:?}", e))?);
        }
        Ok(())
    }
    fn drop_server(&mut self) {
        Self::quiesce_hooks();
        if let Some(c) = self.c.as_mut() {
            c.discard();
        }
        self.c = None;
        self.srv = None;
    }
    fn call(&mut self, args: &[Bytes]) -> Result<R, String> {
        let srv = self.srv.as_ref().unwrap();
        let c = self.c.as_mut().unwrap();
        srv.call(c, args).map_err(|e| format!("{}: {:?}", resp::show_cmd(args), e))
    }
    fn calls(&mut self, args: &[&str]) -> Result<R, String> {
        let v: Vec<Bytes> = args.iter().map(|s| b(s)).collect();
        self.call(&v)
    }
    fn must_ok(&mut self, args: &[&str]) -> Result<(), String> {
        let r = self.calls(args)?;
        if r.is_err() {
            return Err(format!("{} -> {}", args.join(" "), resp::show(&r)));
        }
        Ok(())
    }
    fn dump_path(&self) -> PathBuf {
        self.srv.as_ref().unwrap().dir.join("dump.rdb")
    }
    fn live(&self) -> Snap {
        snap(&self.srv.as_ref().unwrap().h.storage)
    }
    /// wait until no background save is under way (flag clear, every save thread that began has ended)
    fn wait_idle(&self) -> Result<(), String> {
        let start = vtime::real_now_ns();
        loop {
            let in_progress = self.srv.as_ref().and_then(|s| s.h.rdb.as_ref().map(|r| r.is_bgsave_in_progress())).unwrap_or(false);
            if !in_progress && gate::counter(vh::BGSAVE_BEGIN) == gate::counter(vh::BGSAVE_END) {
                break;
            }
            vtime::real_sleep_us(20);
            if vtime::real_now_ns() - start > 80_000_000_000 {
                return Err("a background save did not end".into());
            }
        }
        vtime::settle().map_err(|_| "settle timeout after the background save".to_string())
    }
    /// wait until the background save thread has passed BGSAVE_END `n` times in total and is gone
    fn wait_bgsave_done(&self, n: u64) -> Result<(), String> {
        // (a second, much longer wait before this becomes a verdict: a loaded machine may starve the thread for seconds)
        if !gate::wait_counter(vh::BGSAVE_END, n, 10_000) && !gate::wait_counter(vh::BGSAVE_END, n, 70_000) {
            return Err("background save did not end".into());
        }
        vtime::settle().map_err(|_| "settle timeout after the background save".to_string())
    }
}


// ------------------------------------------------------------------ (D) completed saves of datasets at the length-encoding boundaries

const SIZE_KINDS: [&str; 9] = ["string value", "key name", "list count", "set count", "hash count", "zset count", "list element length", "hash field and value length", "stream value length"];

fn boundary_sizes(thorough: bool) -> Vec<usize> {
    if thorough { vec![1, 62, 63, 64, 65, 255, 256, 16382, 16383, 16384, 16385, 65535, 65536, 65537] } else { vec![1, 63, 64, 16383, 16384, 16385, 65536] }
}

/// A save that completes must leave a dump that loads completely and equals the dataset, whatever sizes the strings,
/// names and collections have: the writer switches between three length forms at 64 and 16384 (a seeded off-by-one in
/// the writer's 14-bit form produced an unloadable dump for exactly 16384 while every other size was fine).
fn run_sizes(h: &mut H, mode: &str, kind: usize, size: usize) -> Result<Vec<Value>, String> {
    h.ensure()?;
    let mut problems = Vec::new();
    h.must_ok(&["FLUSHALL"])?;
    // bystanders in several shards and another database: they must all come back too
    for k in ["a", "b", "k", "k2", "ab", "zz"] {
        h.must_ok(&["SET", k, "bystander"])?;
    }
    h.must_ok(&["SELECT", "3"])?;
    h.must_ok(&["RPUSH", "other-db", "x", "y"])?;
    h.must_ok(&["SELECT", "0"])?;
    let big = "x".repeat(size);
    let many = |prefix: &str| -> Vec<String> { (0..size).map(|i| format!("{}{}", prefix, i)).collect() };
    let send_many = |h: &mut H, head: &[&str], items: Vec<String>, per: usize| -> Result<(), String> {
        for chunk in items.chunks(1024 * per) {
            let mut a: Vec<Bytes> = head.iter().map(|x| b(x)).collect();
            a.extend(chunk.iter().map(|x| b(x)));
            let bytes = resp::cmd(&a);
            let srv = h.srv.as_ref().unwrap();
            let c = h.c.as_mut().unwrap();
            srv.send_all(c, &bytes).map_err(|e| format!("{} ...: {:?}", head.join(" "), e))?;
            let r = srv.await_reply(c, 400 + bytes.len() / 1024).map_err(|e| format!("{} ... ({} bytes): {:?}", head.join(" "), bytes.len(), e))?;
            if r.is_err() {
                return Err(format!("{} ... -> {}", head.join(" "), resp::show(&r)));
            }
        }
        Ok(())
    };
    match SIZE_KINDS[kind] {
        "string value" => h.must_ok(&["SET", "subject", &big])?,
        "key name" => h.must_ok(&["SET", &big, "v"])?,
        "list count" => send_many(h, &["RPUSH", "subject"], many("e"), 1)?,
        "set count" => send_many(h, &["SADD", "subject"], many("m"), 1)?,
        "hash count" => send_many(h, &["HSET", "subject"], (0..size).flat_map(|i| vec![format!("f{}", i), format!("v{}", i)]).collect(), 2)?,
        "zset count" => send_many(h, &["ZADD", "subject"], (0..size).flat_map(|i| vec![format!("{}", i), format!("m{}", i)]).collect(), 2)?,
        "list element length" => h.must_ok(&["RPUSH", "subject", "first", &big, "last"])?,
        "hash field and value length" => h.must_ok(&["HSET", "subject", &big, &big, "f", "v"])?,
        _ => h.must_ok(&["XADD", "subject", "1-1", "f", &big])?,
    }
    let ctx = json!({"mode": mode, "kind": SIZE_KINDS[kind], "size": size});
    let ends = gate::counter(vh::BGSAVE_END);
    let reply = h.calls(&[mode])?;
    if reply.is_err() {
        problems.push(json!({"problem": "save-refused", "ctx": ctx, "reply": resp::show(&reply)}));
        return Ok(problems);
    }
    if mode == "BGSAVE" && h.wait_bgsave_done(ends + 1).is_err() {
        problems.push(json!({"problem": "background-save-never-ended", "ctx": ctx}));
        h.drop_server();
        return Ok(problems);
    }
    match h.loader.load(&h.dump_path()) {
        Ok(loaded) => {
            let live = h.live();
            if !same_dataset(&loaded, &live) {
                let missing = live.keys().filter(|k| !loaded.contains_key(*k)).count();
                problems.push(json!({"problem": "completed-dump-differs-from-the-dataset", "ctx": ctx, "keys_live": live.len(), "keys_loaded": loaded.len(), "keys_missing": missing}));
            }
        }
        Err(e) => problems.push(json!({"problem": "completed-dump-does-not-load", "ctx": ctx, "error": e})),
    }
    Ok(problems)
}


// ------------------------------------------------------------------ (F) saves of a dataset with uncollected remains in it

/// `n` keys whose deadline has passed but which nobody has looked at and no sweeper pass has collected lie among 64
/// permanent keys of all six types (so that every shard holds both kinds) when the save starts. The completed dump must
/// hold every permanent key (a seeded key listing stopped at the first such remains it met in a shard: everything behind
/// it in the shard's iteration order was left out of a dump that the save reported as successful).
fn run_remains(h: &mut H, mode: &str, n: usize, layout: usize) -> Result<Vec<Value>, String> {
    h.ensure()?;
    let mut problems = Vec::new();
    h.must_ok(&["FLUSHALL"])?;
    // no sweeper pass between the writes below and the save
    if let Some(w) = vtime::next_wake() {
        if w < vtime::mono_ns() + 600 * MS {
            vtime::advance_to(w + 1).map_err(|_| "settle timeout letting the sweeper run".to_string())?;
        }
    }
    let permanent = |h: &mut H, i: usize| -> Result<(), String> {
        let k = format!("p{}", i);
        match i % 6 {
            0 => h.must_ok(&["SET", &k, "v"]),
            1 => h.must_ok(&["RPUSH", &k, "a", "b"]),
            2 => h.must_ok(&["SADD", &k, "m"]),
            3 => h.must_ok(&["HSET", &k, "f", "v"]),
            4 => h.must_ok(&["ZADD", &k, "1", "m"]),
            _ => h.must_ok(&["XADD", &k, "1-1", "f", "v"]),
        }
    };
    let remains = |h: &mut H, i: usize| -> Result<(), String> { h.must_ok(&["SET", &format!("e{}", i), "v", "PX", "50"]) };
    match layout {
        0 => {
            for i in 0..n { remains(h, i)?; }
            for i in 0..64 { permanent(h, i)?; }
        }
        1 => {
            for i in 0..64 { permanent(h, i)?; }
            for i in 0..n { remains(h, i)?; }
        }
        _ => {
            for i in 0..64.max(n) {
                if i < 64 { permanent(h, i)?; }
                if i < n { remains(h, i)?; }
            }
        }
    }
    h.must_ok(&["SELECT", "3"])?;
    h.must_ok(&["SET", "e0", "v", "PX", "50"])?;
    h.must_ok(&["SET", "p0", "other database"])?;
    h.must_ok(&["SELECT", "0"])?;
    vtime::tick(150 * MS).map_err(|_| "settle timeout during tick".to_string())?;
    let written = ["before the permanent keys", "after them", "interleaved"][layout];
    let ctx = json!({"mode": mode, "remains": n, "written": written});
    let ends = gate::counter(vh::BGSAVE_END);
    let reply = h.calls(&[mode])?;
    if reply.is_err() {
        problems.push(json!({"problem": "save-refused", "ctx": ctx, "reply": resp::show(&reply)}));
        return Ok(problems);
    }
    if mode == "BGSAVE" && h.wait_bgsave_done(ends + 1).is_err() {
        problems.push(json!({"problem": "background-save-never-ended", "ctx": ctx}));
        h.drop_server();
        return Ok(problems);
    }
    match h.loader.load(&h.dump_path()) {
        Ok(loaded) => {
            let live = h.live();
            if live.len() != 65 {
                return Err(format!("the live dataset has {} keys, 65 expected", live.len()));
            }
            if !same_dataset(&loaded, &live) {
                let missing: Vec<String> = live.keys().filter(|k| !loaded.contains_key(*k)).map(|k| format!("db{} {}", k.0, k.1)).collect();
                let extra: Vec<String> = loaded.keys().filter(|k| !live.contains_key(*k)).map(|k| format!("db{} {}", k.0, k.1)).take(5).collect();
                problems.push(json!({"problem": if !missing.is_empty() { "completed-dump-lacks-permanent-keys" } else { "completed-dump-differs-from-the-dataset" }, "ctx": ctx, "keys_live": live.len(), "keys_loaded": loaded.len(),
                    "missing": missing.len(), "first_missing": missing.iter().take(5).cloned().collect::<Vec<_>>(), "not_in_the_dataset": extra}));
            }
        }
        Err(e) => problems.push(json!({"problem": "completed-dump-does-not-load", "ctx": ctx, "error": e})),
    }
    Ok(problems)
}


// ------------------------------------------------------------------ (E) the operating system refuses the write

fn set_fsize_limit(n: Option<u64>) {
    unsafe {
        libc::signal(libc::SIGXFSZ, libc::SIG_IGN);
        let mut cur: libc::rlimit = std::mem::zeroed();
        libc::getrlimit(libc::RLIMIT_FSIZE, &mut cur);
        cur.rlim_cur = match n {
            Some(x) => x as libc::rlim_t,
            None => cur.rlim_max,
        };
        libc::setrlimit(libc::RLIMIT_FSIZE, &cur);
    }
}

/// The failing write is the kernel's: the process's file size limit is set to n bytes for every n from 0 to the size of
/// the dump, so that the write(2) that crosses it fails with EFBIG - wherever the code buffers, and including the very
/// last flush (family A fails the writer's own raw-write call, above the buffering; a seeded change that left the last
/// flush to the buffer's destructor, which swallows errors, answered OK and renamed a truncated file over the good dump).
fn run_os_faults(h: &mut H, mode: &str) -> Result<Value, String> {
    h.drop_server();
    h.ensure()?;
    let mut problems: Vec<Value> = Vec::new();
    let mut points = 0u64;
    let mut which = 0usize;
    build_dataset(h, which)?;
    h.must_ok(&["SAVE"])?;
    let mut n = 0u64;
    loop {
        which = 1 - which;
        build_dataset(h, which)?;
        let prev = read_file(&h.dump_path());
        // size of the dump this dataset produces: from an unlimited save into the same place, then put the old one back
        h.must_ok(&["SAVE"])?;
        let full = read_file(&h.dump_path()).map(|b| b.len() as u64).unwrap_or(0);
        if let Some(p) = &prev {
            std::fs::write(h.dump_path(), p).map_err(|e| format!("restore previous dump: {}", e))?;
        }
        if n >= full {
            break;
        }
        let ends = gate::counter(vh::BGSAVE_END);
        set_fsize_limit(Some(n));
        let reply = h.calls(&[mode]);
        let mut ended = true;
        if mode == "BGSAVE" && reply.as_ref().map(|r| !r.is_err()).unwrap_or(false) {
            ended = h.wait_bgsave_done(ends + 1).is_ok();
        }
        set_fsize_limit(None);
        let reply = reply?;
        points += 1;
        let ctx = json!({"mode": mode, "file_size_limit": n, "dump_size": full, "dataset": which});
        if !ended {
            problems.push(json!({"problem": "background-save-with-a-refused-write-never-ended", "ctx": ctx}));
            h.drop_server();
            break;
        }
        if mode == "SAVE" && !reply.is_err() {
            problems.push(json!({"problem": "save-answered-ok-although-the-system-refused-a-write", "ctx": ctx, "reply": resp::show(&reply)}));
        }
        let now = read_file(&h.dump_path());
        if now != prev {
            problems.push(json!({"problem": "failed-save-touched-the-previous-dump", "ctx": ctx, "before_len": prev.as_ref().map(|p| p.len()), "after_len": now.as_ref().map(|p| p.len())}));
            // put the good dump back so that the next point starts from the same situation
            if let Some(p) = &prev {
                let _ = std::fs::write(h.dump_path(), p);
            }
        }
        // a later save works and its dump is the dataset
        let ends = gate::counter(vh::BGSAVE_END);
        let r2 = h.calls(&[mode])?;
        if r2.is_err() {
            problems.push(json!({"problem": "save-refused-after-a-failed-save", "ctx": ctx, "reply": resp::show(&r2)}));
            h.drop_server();
            h.ensure()?;
            build_dataset(h, which)?;
            h.must_ok(&["SAVE"])?;
        } else {
            if mode == "BGSAVE" {
                h.wait_bgsave_done(ends + 1)?;
            }
            match h.loader.load(&h.dump_path()) {
                Ok(loaded) => {
                    if !same_dataset(&loaded, &h.live()) {
                        problems.push(json!({"problem": "dump-after-the-retry-differs-from-the-dataset", "ctx": ctx}));
                    }
                }
                Err(e) => problems.push(json!({"problem": "dump-after-the-retry-does-not-load", "ctx": ctx, "error": e})),
            }
        }
        n += 1;
        if n > 20_000 {
            return Err("dump larger than 20000 bytes in the small-dataset family".into());
        }
    }
    Ok(json!({"points": points, "problems": problems}))
}

// ------------------------------------------------------------------ (A) write faults and crash points

fn dataset_cmds(which: usize) -> Vec<Vec<&'static str>> {
    if which == 0 {
        vec![
            vec!["SET", "s", "v1"], vec!["RPUSH", "l", "a", "b"], vec!["SADD", "se", "a"], vec!["HSET", "h", "f", "v"], vec!["ZADD", "z", "1.5", "m"],
            vec!["XADD", "st", "1-1", "f", "v"], vec!["SET", "t", "ttl", "PX", "100000"], vec!["SELECT", "1"], vec!["SET", "s", "other"], vec!["SELECT", "0"],
        ]
    } else {
        vec![
            vec!["SET", "s", "v2-longer"], vec!["RPUSH", "l", "a", "b", "c"], vec!["SADD", "se", "a", "b"], vec!["ZADD", "z", "2", "m", "3", "n"], vec!["SET", "n", "new"],
            vec!["XADD", "st", "1-1", "f", "v"], vec!["XADD", "st", "2-1", "g", "w"], vec!["RPUSH", "t", "x"], vec!["PEXPIRE", "t", "50000"], vec!["SELECT", "2"], vec!["HSET", "q", "f", "v"], vec!["SELECT", "0"],
        ]
    }
}

fn build_dataset(h: &mut H, which: usize) -> Result<(), String> {
    h.must_ok(&["FLUSHALL"])?;
    for c in dataset_cmds(which) {
        h.must_ok(&c)?;
    }
    Ok(())
}

fn same_dataset(loaded: &Snap, live: &Snap) -> bool {
    loaded.len() == live.len() && loaded.iter().all(|(k, (v, d))| live.get(k).map(|(v2, d2)| v == v2 && dl_eq(d, d2)).unwrap_or(false))
}

/// all n: SAVE/BGSAVE with raw write n failing (once, or from n on): error, previous dump untouched, next save works
fn run_faults(h: &mut H, mode: &str, persistent: bool, prev_present: bool) -> Result<Value, String> {
    h.drop_server();
    h.ensure()?;
    let mut problems: Vec<Value> = Vec::new();
    let mut which = 0usize;
    build_dataset(h, which)?;
    h.must_ok(&["SAVE"])?;
    let mut n = 0u64;
    let mut points = 0u64;
    let mut bgsave_ends = gate::counter(vh::BGSAVE_END);
    loop {
        which = 1 - which;
        build_dataset(h, which)?;
        if !prev_present {
            let _ = std::fs::remove_file(h.dump_path());
        }
        let prev = read_file(&h.dump_path());
        gate::reset_counters();
        bgsave_ends = 0;
        if persistent {
            gate::set_fail_writes_from(Some(n));
        } else {
            gate::set_fail_write_at(Some(n));
        }
        let reply = h.calls(&[mode])?;
        if mode == "BGSAVE" {
            if reply.is_err() {
                gate::set_fail_write_at(None);
                gate::set_fail_writes_from(None);
                return Err(format!("BGSAVE refused: {}", resp::show(&reply)));
            }
            bgsave_ends += 1;
            if h.wait_bgsave_done(bgsave_ends).is_err() {
                // nothing is parked and the clock is ours: the save thread is gone without reaching its end
                gate::set_fail_write_at(None);
                gate::set_fail_writes_from(None);
                problems.push(json!({"problem": "background-save-with-a-failed-write-never-ended", "ctx": {"mode": mode, "failing_write": n, "persistent": persistent}}));
                h.drop_server();
                // every further point would wait for the same timeout: one verdict is enough
                points += 1;
                break;
            }
        }
        let writes = gate::WRITE_COUNT.load(Ordering::SeqCst);
        gate::set_fail_write_at(None);
        gate::set_fail_writes_from(None);
        let failed = writes > n; // write n was reached, so it failed
        if !failed {
            // n is past the last write of this save: the save went through untouched, enumeration complete
            break;
        }
        points += 1;
        let ctx = json!({"mode": mode, "failing_write": n, "persistent": persistent, "previous_dump": prev_present, "dataset": which});
        if mode == "SAVE" && !reply.is_err() {
            problems.push(json!({"problem": "save-with-a-failed-write-answered-ok", "ctx": ctx, "reply": resp::show(&reply)}));
        }
        let now = read_file(&h.dump_path());
        if now != prev {
            problems.push(json!({"problem": if prev.is_some() { "failed-save-touched-the-previous-dump" } else { "failed-save-left-a-dump-behind" }, "ctx": ctx,
                "before_len": prev.as_ref().map(|p| p.len()), "after_len": now.as_ref().map(|p| p.len())}));
        }
        // a later save works (for BGSAVE this also shows that the in-progress flag was cleared)
        let r2 = h.calls(&[mode])?;
        if mode == "BGSAVE" {
            if r2.is_err() {
                problems.push(json!({"problem": "bgsave-refused-after-a-failed-background-save", "ctx": ctx, "reply": resp::show(&r2)}));
                // nothing else can be checked for this n; go on with a fresh server
                h.drop_server();
                h.ensure()?;
                build_dataset(h, which)?;
                h.must_ok(&["SAVE"])?;
                n += 1;
                continue;
            }
            bgsave_ends += 1;
            h.wait_bgsave_done(bgsave_ends)?;
        } else if r2 != R::ok() {
            problems.push(json!({"problem": "save-after-a-failed-save-refused", "ctx": ctx, "reply": resp::show(&r2)}));
        }
        match h.loader.load(&h.dump_path()) {
            Ok(loaded) => {
                if !same_dataset(&loaded, &h.live()) {
                    problems.push(json!({"problem": "dump-after-the-retry-differs-from-the-dataset", "ctx": ctx}));
                }
            }
            Err(e) => problems.push(json!({"problem": "dump-after-the-retry-does-not-load", "ctx": ctx, "error": e})),
        }
        n += 1;
        if n > 5000 {
            return Err("more than 5000 writes in a small save".into());
        }
    }
    let _ = bgsave_ends;
    Ok(json!({"points": points, "problems": problems}))
}

/// the save paused at every raw write and around the rename: what is on disk at each pause
fn run_crashpoints(h: &mut H, mode: &str, prev_present: bool) -> Result<Value, String> {
    h.drop_server();
    h.ensure()?;
    let mut problems: Vec<Value> = Vec::new();
    build_dataset(h, 0)?;
    h.must_ok(&["SAVE"])?;
    build_dataset(h, 1)?;
    if !prev_present {
        let _ = std::fs::remove_file(h.dump_path());
    }
    let prev = read_file(&h.dump_path());
    let live = h.live();
    gate::reset_counters();
    gate::set_park_points(&[vh::RDB_WRITE, vh::RDB_RENAME_BEFORE, vh::RDB_RENAME_AFTER]);
    let mut pauses = 0u64;
    let mut renamed = false;
    let check = |h: &H, renamed: bool, point: u32, arg: u64, problems: &mut Vec<Value>| {
        let ctx = json!({"mode": mode, "pause": format!("{}", point_name(point)), "arg": arg, "previous_dump": prev_present});
        let now = read_file(&h.dump_path());
        if !renamed {
            if now != prev {
                problems.push(json!({"problem": "dump-changed-before-the-rename", "ctx": ctx}));
            }
        } else {
            match h.loader.load(&h.dump_path()) {
                Ok(l) => {
                    if !same_dataset(&l, &live) {
                        problems.push(json!({"problem": "dump-after-the-rename-differs-from-the-dataset", "ctx": ctx}));
                    }
                }
                Err(e) => problems.push(json!({"problem": "dump-after-the-rename-does-not-load", "ctx": ctx, "error": e})),
            }
        }
    };
    if mode == "BGSAVE" {
        let r = h.calls(&["BGSAVE"])?;
        if r.is_err() {
            return Err(format!("BGSAVE refused: {}", resp::show(&r)));
        }
        loop {
            match gate::wait_parked_background(3000) {
                Some(p) => {
                    if p.point == vh::RDB_RENAME_AFTER {
                        renamed = true;
                    }
                    pauses += 1;
                    check(h, renamed, p.point, p.arg, &mut problems);
                    gate::release(p.tid);
                    // give the thread the chance to reach its next pause or its end
                    if gate::counter(vh::BGSAVE_END) >= 1 {
                        break;
                    }
                }
                None => {
                    if gate::counter(vh::BGSAVE_END) >= 1 {
                        break;
                    }
                    return Err("background save neither paused nor ended".into());
                }
            }
        }
        h.wait_bgsave_done(1)?;
    } else {
        // SAVE runs on the event-loop thread: it parks there
        let bytes = resp::cmd(&["SAVE"]);
        h.c.as_mut().unwrap().send(&bytes);
        let mut st = h.srv.as_ref().unwrap().step();
        let mut guard = 0;
        loop {
            guard += 1;
            if guard > 20_000 {
                return Err("SAVE did not finish".into());
            }
            match st {
                StepResult::Parked => {
                    let p = match gate::parked().into_iter().find(|p| p.on_server_thread) {
                        Some(p) => p,
                        None => return Err("parked without a parked thread".into()),
                    };
                    if p.point == vh::RDB_RENAME_AFTER {
                        renamed = true;
                    }
                    pauses += 1;
                    check(h, renamed, p.point, p.arg, &mut problems);
                    gate::release(p.tid);
                    st = h.srv.as_ref().unwrap().gate.wait_at_top();
                }
                StepResult::Arrived => {
                    let c = h.c.as_mut().unwrap();
                    c.poll();
                    match c.take_frame() {
                        Ok(Some(f)) => {
                            if f != R::ok() {
                                problems.push(json!({"problem": "undisturbed-save-refused", "reply": resp::show(&f)}));
                            }
                            break;
                        }
                        Ok(None) => st = h.srv.as_ref().unwrap().step(),
                        Err(e) => return Err(format!("garbage: {}", e)),
                    }
                }
                StepResult::Died => return Err("server died during SAVE".into()),
            }
        }
    }
    gate::set_park_points(&[]);
    match h.loader.load(&h.dump_path()) {
        Ok(l) => {
            if !same_dataset(&l, &live) {
                problems.push(json!({"problem": "final-dump-differs-from-the-dataset", "ctx": {"mode": mode}}));
            }
        }
        Err(e) => problems.push(json!({"problem": "final-dump-does-not-load", "ctx": {"mode": mode}, "error": e})),
    }
    Ok(json!({"points": pauses, "problems": problems}))
}

fn point_name(p: u32) -> &'static str {
    match p {
        x if x == vh::BGSAVE_BEGIN => "bgsave-begin",
        x if x == vh::RDB_KEY_GET => "before-get",
        x if x == vh::RDB_KEY_TTL => "between-get-and-ttl",
        x if x == vh::RDB_KEY_WRITE => "before-write",
        x if x == vh::RDB_ZSET_MID => "zset-between-len-and-items",
        x if x == vh::RDB_WRITE => "raw-write",
        x if x == vh::RDB_RENAME_BEFORE => "before-rename",
        x if x == vh::RDB_RENAME_AFTER => "after-rename",
        x if x == vh::BGSAVE_END => "bgsave-end",
        _ => "other",
    }
}

// ------------------------------------------------------------------ (B) schedules

#[derive(Clone, Debug)]
enum Item {
    Cmds(Vec<Vec<&'static str>>),
    /// advance the clock to 1 ms past k's deadline (lazy expiry only)
    TickPast,
    /// advance the clock by one second (sweeper pass, auto-save monitor)
    TickSecond,
}

fn item_name(i: &Item) -> String {
    match i {
        Item::Cmds(c) => c.iter().map(|x| x.join(" ")).collect::<Vec<_>>().join(" ; "),
        Item::TickPast => "clock -> deadline(k)+1ms".into(),
        Item::TickSecond => "clock +1s (sweeper pass)".into(),
    }
}

/// abstract class of an item for signatures
fn item_class(i: &Item) -> String {
    match i {
        Item::Cmds(c) => c.iter().map(|x| x[0]).collect::<Vec<_>>().join("+"),
        Item::TickPast => "tick-past-deadline".into(),
        Item::TickSecond => "tick-1s".into(),
    }
}

const STYPES: [&str; 6] = ["string", "list", "set", "hash", "zset", "stream"];
const TTLS: [&str; 3] = ["none", "long", "short"];

fn initial(ty: &str) -> Vec<Vec<&'static str>> {
    let mut v = match ty {
        "string" => vec![vec!["SET", "k", "v1"]],
        "list" => vec![vec!["RPUSH", "k", "a", "b"]],
        "set" => vec![vec!["SADD", "k", "a", "b"]],
        "hash" => vec![vec!["HSET", "k", "f", "v", "g", "w"]],
        "zset" => vec![vec!["ZADD", "k", "1", "a", "2", "b"]],
        _ => vec![vec!["XADD", "k", "1-1", "f", "v"], vec!["XADD", "k", "2-1", "f", "v"]],
    };
    v.push(vec!["SET", "o1", "x"]);
    v.push(vec!["RPUSH", "o2", "y"]);
    v
}

fn menu(ty: &str, ttl: &str) -> Vec<Item> {
    let c = |v: Vec<Vec<&'static str>>| Item::Cmds(v);
    let mut m: Vec<Item> = match ty {
        "string" => vec![c(vec![vec!["APPEND", "k", "x"]]), c(vec![vec!["SET", "k", "v2"]]), c(vec![vec!["SET", "k", "v3", "EX", "100"]]), c(vec![vec!["DEL", "k"], vec!["RPUSH", "k", "x"]]), c(vec![vec!["INCR", "k"]])],
        "list" => vec![c(vec![vec!["RPUSH", "k", "c"]]), c(vec![vec!["LSET", "k", "0", "z"]]), c(vec![vec!["LPOP", "k"]]), c(vec![vec!["LPOP", "k"], vec!["LPOP", "k"]]), c(vec![vec!["DEL", "k"], vec!["SET", "k", "str"]]), c(vec![vec!["DEL", "k"], vec!["RPUSH", "k", "q"]])],
        "set" => vec![c(vec![vec!["SADD", "k", "c"]]), c(vec![vec!["SREM", "k", "a"]]), c(vec![vec!["SREM", "k", "a", "b"]]), c(vec![vec!["DEL", "k"], vec!["SET", "k", "str"]]), c(vec![vec!["DEL", "k"], vec!["SADD", "k", "q"]])],
        "hash" => vec![c(vec![vec!["HSET", "k", "h", "x"]]), c(vec![vec!["HSET", "k", "f", "v9"]]), c(vec![vec!["HDEL", "k", "f"]]), c(vec![vec!["HDEL", "k", "f", "g"]]), c(vec![vec!["DEL", "k"], vec!["SET", "k", "str"]]), c(vec![vec!["DEL", "k"], vec!["HSET", "k", "q", "q"]])],
        "zset" => vec![c(vec![vec!["ZADD", "k", "3", "c"]]), c(vec![vec!["ZADD", "k", "0", "c"]]), c(vec![vec!["ZADD", "k", "9", "a"]]), c(vec![vec!["ZREM", "k", "a"]]), c(vec![vec!["ZREM", "k", "b"]]), c(vec![vec!["ZREM", "k", "a", "b"]]), c(vec![vec!["ZREM", "k", "a"], vec!["ZADD", "k", "5", "n"]]), c(vec![vec!["DEL", "k"], vec!["SET", "k", "str"]]), c(vec![vec!["DEL", "k"], vec!["ZADD", "k", "7", "q"]])],
        _ => vec![c(vec![vec!["XADD", "k", "3-1", "f", "v"]]), c(vec![vec!["XDEL", "k", "1-1"]]), c(vec![vec!["XDEL", "k", "1-1", "2-1"]]), c(vec![vec!["XTRIM", "k", "MAXLEN", "1"]]), c(vec![vec!["DEL", "k"], vec!["SET", "k", "str"]]), c(vec![vec!["DEL", "k"], vec!["XADD", "k", "9-9", "q", "q"]])],
    };
    m.push(c(vec![vec!["DEL", "k"]]));
    m.push(c(vec![vec!["EXPIRE", "k", "100"]]));
    m.push(c(vec![vec!["PERSIST", "k"]]));
    m.push(c(vec![vec!["RENAME", "k", "k2"]]));
    m.push(c(vec![vec!["RENAME", "o1", "k"]]));
    m.push(c(vec![vec!["SET", "fresh", "1"]]));
    m.push(c(vec![vec!["FLUSHALL"]]));
    m.push(Item::TickSecond);
    if ttl == "short" {
        m.push(Item::TickPast);
    }
    m
}

/// schedule = list of (pause index, menu item index); enumeration order: bound 0, bound 1, bound 2 (i <= j)
fn schedules(nmenu: usize, npauses: usize, bound: usize) -> Vec<Vec<(usize, usize)>> {
    let mut out = vec![vec![]];
    if bound >= 1 {
        for p in 0..npauses {
            for m in 0..nmenu {
                out.push(vec![(p, m)]);
            }
        }
    }
    if bound >= 2 {
        for p1 in 0..npauses {
            for p2 in p1..npauses {
                for m1 in 0..nmenu {
                    for m2 in 0..nmenu {
                        out.push(vec![(p1, m1), (p2, m2)]);
                    }
                }
            }
        }
    }
    out
}

struct SchedOut {
    problems: Vec<(String, Value)>,
    pauses: Vec<String>,
    steps: Vec<String>,
}

/// how the save under test is started
#[derive(Clone, Copy, PartialEq, Debug)]
enum Starter {
    Bgsave,
    AutoSave,
}

fn setup_sched(h: &mut H, ty: &str, ttl: &str, big: bool) -> Result<(), String> {
    h.ensure()?;
    h.wait_idle()?;
    vtime::align_epoch().map_err(|_| "settle timeout".to_string())?;
    h.must_ok(&["FLUSHALL"])?;
    for c in initial(ty) {
        h.must_ok(&c)?;
    }
    if big {
        // more than the writer's buffer, so that the temp file is written to before the save ends
        let v: String = std::iter::repeat('B').take(20_000).collect();
        let args: Vec<Bytes> = vec![b("SET"), b("big"), v.into_bytes()];
        let r = h.call(&args)?;
        if r.is_err() {
            return Err("SET big refused".into());
        }
    }
    match ttl {
        "long" => h.must_ok(&["PEXPIRE", "k", "100000"])?,
        "short" => h.must_ok(&["PEXPIRE", "k", "50"])?,
        _ => {}
    }
    h.wait_idle()?;
    h.must_ok(&["SAVE"])?;
    Ok(())
}

fn run_item(h: &mut H, it: &Item, steps: &mut Vec<String>) -> Result<(), String> {
    match it {
        Item::Cmds(cmds) => {
            for c in cmds {
                let r = h.calls(c)?;
                steps.push(format!("{} -> {}", c.join(" "), resp::class(&r)));
            }
        }
        Item::TickPast => {
            let dl = h.live().get(&(0, format!("{:?}", b("k")))).and_then(|x| x.1);
            if let Some(d) = dl {
                let target = (d as u64 + 1) * MS;
                if target > vtime::mono_ns() {
                    vtime::advance_to(target).map_err(|_| "settle timeout".to_string())?;
                }
                steps.push("clock -> deadline(k)+1ms".into());
            } else {
                steps.push("clock -> deadline(k)+1ms (no deadline: nothing)".into());
            }
        }
        Item::TickSecond => {
            vtime::tick(1_000 * MS).map_err(|_| "settle timeout".to_string())?;
            steps.push("clock +1s".into());
        }
    }
    Ok(())
}

const SCHED_POINTS: [u32; 8] = [vh::BGSAVE_BEGIN, vh::RDB_KEY_GET, vh::RDB_KEY_TTL, vh::RDB_KEY_WRITE, vh::RDB_ZSET_MID, vh::RDB_RENAME_BEFORE, vh::RDB_RENAME_AFTER, vh::BGSAVE_END];

/// one schedule against the real save thread
fn run_schedule(h: &mut H, ty: &str, ttl: &str, starter: Starter, big: bool, menu: &[Item], sched: &[(usize, usize)]) -> Result<SchedOut, String> {
    setup_sched(h, ty, ttl, big)?;
    let prev = read_file(&h.dump_path());
    let mut problems: Vec<(String, Value)> = Vec::new();
    let mut steps: Vec<String> = Vec::new();
    let mut pauses: Vec<String> = Vec::new();
    gate::reset_counters();
    gate::set_park_background_only(true);
    gate::set_park_points(&SCHED_POINTS);
    match starter {
        Starter::Bgsave => {
            let r = h.calls(&["BGSAVE"])?;
            if r.is_err() {
                return Err(format!("BGSAVE refused: {}", resp::show(&r)));
            }
        }
        Starter::AutoSave => {
            // one change, then the monitor's next look (rule: 1 change in 1 second)
            h.must_ok(&["SET", "trigger", "1"])?;
            let mut started = false;
            for _ in 0..4 {
                vtime::tick(1_000 * MS).map_err(|_| "settle timeout".to_string())?;
                if gate::wait_parked_background(50).is_some() {
                    started = true;
                    break;
                }
            }
            if !started {
                return Err("the auto-save monitor did not start a save within 4 s".into());
            }
        }
    }
    let mut snaps: Vec<Snap> = Vec::new();
    let mut idx = 0usize;
    let mut two_writers = false;
    loop {
        let p = match gate::wait_parked_background(5000) {
            Some(p) => p,
            None => {
                if gate::counter(vh::BGSAVE_END) >= 1 {
                    break;
                }
                return Err(format!("background save neither paused nor ended after pause {}", idx));
            }
        };
        pauses.push(point_name(p.point).to_string());
        if idx == 0 {
            snaps.push(h.live());
        }
        for (pos, m) in sched.iter() {
            if *pos == idx {
                steps.push(format!("[at pause {} = {}]", idx, point_name(p.point)));
                if let Item::Cmds(c) = &menu[*m] {
                    if c.iter().any(|x| x[0] == "SAVE") {
                        two_writers = true;
                    }
                }
                run_item(h, &menu[*m], &mut steps)?;
                snaps.push(h.live());
            }
        }
        // "at every instant": what is on disk right now
        let now = read_file(&h.dump_path());
        if now != prev {
            match &now {
                None => problems.push(("dump-vanished-during-the-save".into(), json!({"pause": idx, "point": point_name(p.point)}))),
                Some(_) => {
                    if p.point != vh::RDB_RENAME_AFTER && p.point != vh::BGSAVE_END && !two_writers {
                        problems.push(("dump-changed-before-the-rename".into(), json!({"pause": idx, "point": point_name(p.point)})));
                    }
                    match h.loader.load(&h.dump_path()) {
                        Ok(l) => {
                            for (pr, d) in consistent(&l, &snaps) {
                                problems.push((format!("mid-save-{}", pr), json!({"pause": idx, "point": point_name(p.point), "detail": d})));
                            }
                        }
                        Err(e) => problems.push(("dump-on-disk-does-not-load-during-the-save".into(), json!({"pause": idx, "point": point_name(p.point), "error": e}))),
                    }
                }
            }
        }
        let last = p.point == vh::BGSAVE_END;
        gate::release(p.tid);
        idx += 1;
        if last {
            break;
        }
        if idx > 200 {
            return Err("more than 200 pauses".into());
        }
    }
    // a save started by an item placed at the last pause (or by the monitor) runs to its end unobserved
    gate::set_park_points(&[]);
    gate::set_park_background_only(false);
    gate::release_all();
    h.wait_idle()?;
    // the final dump
    match h.loader.load(&h.dump_path()) {
        Ok(l) => problems.extend(consistent(&l, &snaps)),
        Err(e) => problems.push(("final-dump-does-not-load".into(), json!({"error": e}))),
    }
    // the in-progress flag is cleared: another background save is accepted
    let r = h.calls(&["BGSAVE"])?;
    if r.is_err() {
        problems.push(("bgsave-refused-after-the-save-ended".into(), json!({"reply": resp::show(&r)})));
    } else {
        h.wait_idle()?;
    }
    Ok(SchedOut { problems, pauses, steps })
}

/// a synchronous SAVE parked on the event-loop thread at its per-key points, the clock moved in between
fn run_sync_save_clock(h: &mut H, ty: &str, pause_at: usize, item: &Item) -> Result<SchedOut, String> {
    setup_sched(h, ty, "short", false)?;
    let mut problems: Vec<(String, Value)> = Vec::new();
    let mut steps: Vec<String> = Vec::new();
    let mut pauses: Vec<String> = Vec::new();
    let mut snaps: Vec<Snap> = vec![h.live()];
    gate::reset_counters();
    gate::set_park_background_only(false);
    gate::set_park_points(&[vh::RDB_KEY_GET, vh::RDB_KEY_TTL, vh::RDB_KEY_WRITE, vh::RDB_ZSET_MID]);
    h.c.as_mut().unwrap().send(&resp::cmd(&["SAVE"]));
    let mut st = h.srv.as_ref().unwrap().step();
    let mut idx = 0usize;
    let mut guard = 0;
    loop {
        guard += 1;
        if guard > 2000 {
            return Err("SAVE did not finish".into());
        }
        match st {
            StepResult::Parked => {
                let p = match gate::parked().into_iter().find(|p| p.on_server_thread) {
                    Some(p) => p,
                    None => return Err("parked without a parked thread".into()),
                };
                pauses.push(point_name(p.point).to_string());
                if idx == pause_at {
                    steps.push(format!("[at pause {} = {}]", idx, point_name(p.point)));
                    run_item(h, item, &mut steps)?;
                    snaps.push(h.live());
                }
                idx += 1;
                gate::release(p.tid);
                st = h.srv.as_ref().unwrap().gate.wait_at_top();
            }
            StepResult::Arrived => {
                let c = h.c.as_mut().unwrap();
                c.poll();
                match c.take_frame() {
                    Ok(Some(f)) => {
                        if f != R::ok() {
                            problems.push(("save-refused".into(), json!({"reply": resp::show(&f)})));
                        }
                        break;
                    }
                    Ok(None) => st = h.srv.as_ref().unwrap().step(),
                    Err(e) => return Err(format!("garbage: {}", e)),
                }
            }
            StepResult::Died => return Err("server died during SAVE".into()),
        }
    }
    gate::set_park_points(&[]);
    match h.loader.load(&h.dump_path()) {
        Ok(l) => problems.extend(consistent(&l, &snaps)),
        Err(e) => problems.push(("final-dump-does-not-load".into(), json!({"error": e}))),
    }
    Ok(SchedOut { problems, pauses, steps })
}

fn sched_space(ty: &str, ttl: &str, family: &str, thorough: bool) -> (Vec<Item>, usize, Vec<Vec<(usize, usize)>>) {
    // pauses of a three-key save: begin, 3 x (get, ttl, write) [+ zset mid], before/after rename, end
    let npauses = 1 + 9 + if ty == "zset" { 1 } else { 0 } + 3;
    match family {
        "bgsave" => {
            let m = menu(ty, ttl);
            let s = schedules(m.len(), npauses, if thorough { 2 } else { 1 });
            (m, npauses, s)
        }
        "autosave" => {
            // the save started by the monitor thread; the "trigger" key adds three pauses
            let m = menu(ty, ttl);
            let s = schedules(m.len(), npauses + 3, 1);
            (m, npauses + 3, s)
        }
        "two-writers" => {
            // a change of k's length, then a synchronous SAVE, both at the same pause of the background save
            // (the 20 KB bystander adds three pauses)
            let grow: Vec<Vec<&'static str>> = match ty {
                "string" => vec![vec!["SET", "k", "a-much-longer-value-than-before"]],
                "list" => vec![vec!["RPUSH", "k", "a-much-longer-element-than-before"]],
                "set" => vec![vec!["SADD", "k", "a-much-longer-member-than-before"]],
                "hash" => vec![vec!["HSET", "k", "another-field", "a-much-longer-value-than-before"]],
                "zset" => vec![vec!["ZADD", "k", "3", "a-much-longer-member-than-before"]],
                _ => vec![vec!["XADD", "k", "3-1", "f", "a-much-longer-value-than-before"]],
            };
            let mut with_save = grow.clone();
            with_save.push(vec!["SAVE"]);
            let mut del_save = vec![vec!["DEL", "big"]];
            del_save.push(vec!["SAVE"]);
            let m = vec![Item::Cmds(vec![vec!["SAVE"]]), Item::Cmds(with_save), Item::Cmds(del_save), Item::Cmds(vec![vec!["BGSAVE"]]), Item::Cmds(grow)];
            let s = schedules(m.len(), npauses + 3, if thorough { 2 } else { 1 });
            (m, npauses + 3, s)
        }
        _ => (vec![], 0, vec![]),
    }
}

// ------------------------------------------------------------------ (C) read faults

fn base_dump(name: &str, dir: &Path) -> Result<Vec<u8>, String> {
    let st = StorageEngine::new();
    let e = |r: ferrous::error::Result<()>| r.map_err(|e| format!("{}", e));
    match name {
        "small-all-types" => {
            e(st.set_string(0, b("s"), b("v")))?;
            st.rpush(0, b("l"), vec![b("a"), b("b")]).map_err(|e| format!("{}", e))?;
            st.sadd(0, b("se"), vec![b("a")]).map_err(|e| format!("{}", e))?;
            st.hset(0, b("h"), vec![(b("f"), b("v"))]).map_err(|e| format!("{}", e))?;
            st.zadd(0, b("z"), b("m"), 1.5).map_err(|e| format!("{}", e))?;
            let mut f = HashMap::new();
            f.insert(b("f"), b("v"));
            st.xadd_with_id(0, b("st"), ferrous::storage::stream::StreamId::new(1, 1), f).map_err(|e| format!("{}", e))?;
            e(st.set_string(0, b("t"), b("x")))?;
            st.expire(0, b"t", Duration::from_secs(100)).map_err(|e| format!("{}", e))?;
            e(st.set_string(3, b("s2"), b("w")))?;
        }
        "len14" => {
            e(st.set_string(0, b("s70"), vec![b'x'; 70]))?;
            st.rpush(0, b("l70"), (0..70).map(|i| vec![b'a' + (i % 26) as u8]).collect()).map_err(|e| format!("{}", e))?;
            st.zadd(0, b("z"), vec![b'm'; 64], -0.5).map_err(|e| format!("{}", e))?;
        }
        "len32" => {
            e(st.set_string(0, b("big"), vec![b'y'; 16400]))?;
            st.sadd(0, b("se"), vec![b("a")]).map_err(|e| format!("{}", e))?;
        }
        _ => return Err(format!("unknown base dump {}", name)),
    }
    let cfg = RdbConfig { dir: dir.to_string_lossy().to_string(), filename: format!("base-{}.rdb", name), ..RdbConfig::default() };
    let eng = RdbEngine::new(cfg);
    eng.save(&st).map_err(|e| format!("save of the base dump: {}", e))?;
    read_file(&dir.join(format!("base-{}.rdb", name))).ok_or_else(|| "base dump not written".to_string())
}

const QUICK_SUBS: [u8; 22] = [0x00, 0x01, 0x02, 0x03, 0x04, 0x05, 0x3f, 0x40, 0x41, 0x7f, 0x80, 0x81, 0xbf, 0xc0, 0xc1, 0xf9, 0xfa, 0xfb, 0xfc, 0xfd, 0xfe, 0xff];

/// mutation i of a base dump of length n: first the n prefixes (lengths 0..n-1), then substitutions
fn read_mutations(n: usize, name: &str, thorough: bool) -> Vec<(usize, Option<u8>)> {
    let mut out: Vec<(usize, Option<u8>)> = Vec::new();
    let positions: Vec<usize> = if name == "len32" {
        // headers and trailers byte by byte, the 16 KiB payload sparsely
        (0..n).filter(|p| *p < 96 || *p + 64 >= n || p % 509 == 0).collect()
    } else {
        (0..n).collect()
    };
    for &p in positions.iter() {
        out.push((p, None)); // prefix of length p
    }
    for &p in positions.iter() {
        if thorough {
            for v in 0..=255u8 {
                out.push((p, Some(v)));
            }
        } else {
            for &v in QUICK_SUBS.iter() {
                out.push((p, Some(v)));
            }
        }
    }
    out
}

fn run_read_case(loader: &Loader, dir: &Path, base: &[u8], baseline: usize, m: (usize, Option<u8>)) -> Option<(String, Value)> {
    let bytes: Vec<u8> = match m.1 {
        None => base[..m.0].to_vec(),
        Some(v) => {
            if base[m.0] == v {
                return None;
            }
            let mut x = base.to_vec();
            x[m.0] = v;
            x
        }
    };
    let path = dir.join("case.rdb");
    if std::fs::write(&path, &bytes).is_err() {
        return Some(("machinery".into(), json!({"error": "cannot write the case file"})));
    }
    let t0 = vtime::real_now_ns();
    let r = loader.load_only(&path);
    let dt = vtime::real_now_ns() - t0;
    let max_req = crate::MAX_REQ.load(Ordering::SeqCst);
    // `baseline` = largest single allocation while loading the undamaged file (fixed-size structures of the engine)
    let limit = 4 * bytes.len() + (64 << 10) + baseline;
    let what = match m.1 {
        None => format!("prefix of {} bytes", m.0),
        Some(v) => format!("byte {} ({:#04x}) -> {:#04x}", m.0, base[m.0], v),
    };
    if let Err(e) = &r {
        if e.starts_with("panic") {
            return Some(("loader-panics".into(), json!({"mutation": what, "error": e})));
        }
    }
    if max_req > limit {
        return Some(("allocation-sized-by-a-corrupt-length-field".into(), json!({"mutation": what, "largest_single_allocation": max_req, "file_bytes": bytes.len(), "limit": limit, "outcome": r.as_ref().map(|_| "ok".to_string()).unwrap_or_else(|e| e.clone())})));
    }
    if dt > 3_000_000_000 {
        return Some(("load-takes-more-than-3s".into(), json!({"mutation": what, "seconds": dt as f64 / 1e9})));
    }
    None
}

// ------------------------------------------------------------------ worker / parent

pub fn handle_factory() -> impl FnMut(&str, &Value, &mut WorkerIo) -> (Value, bool) {
    let mut h: Option<H> = None;
    let mut hauto: Option<H> = None;
    move |tier: &str, task: &Value, io: &mut WorkerIo| {
        let task = if let Some(r) = task.get("replay") { r["task"].clone() } else { task.clone() };
        let thorough = task["thorough"].as_bool().unwrap_or(tier == "thorough");
        let kind = task["kind"].as_str().unwrap_or("").to_string();
        io.announce_case(task.clone());
        if h.is_none() {
            h = Some(H::new(SrvOpts::default()));
        }
        match kind.as_str() {
            "faults" => {
                let hh = h.as_mut().unwrap();
                let r = run_faults(hh, task["mode"].as_str().unwrap_or("SAVE"), task["persistent"].as_bool().unwrap_or(false), task["prev"].as_bool().unwrap_or(true));
                hh.drop_server();
                (match r {
                    Ok(v) => v,
                    Err(e) => json!({"error": e}),
                }, false)
            }
            "sizes" => {
                let hh = h.as_mut().unwrap();
                let mode = task["mode"].as_str().unwrap_or("SAVE").to_string();
                let kindi = task["size_kind"].as_u64().unwrap_or(0) as usize;
                let mut problems = Vec::new();
                let mut cases = 0u64;
                let mut error: Option<String> = None;
                for size in boundary_sizes(thorough) {
                    cases += 1;
                    match run_sizes(hh, &mode, kindi, size) {
                        Ok(p) => problems.extend(p),
                        Err(e) => {
                            error = Some(e);
                            break;
                        }
                    }
                }
                hh.drop_server();
                (match error {
                    Some(e) => json!({"error": e}),
                    None => json!({"cases": cases, "problems": problems}),
                }, false)
            }
            "remains" => {
                let hh = h.as_mut().unwrap();
                let mode = task["mode"].as_str().unwrap_or("SAVE").to_string();
                let mut problems = Vec::new();
                let mut cases = 0u64;
                let mut error: Option<String> = None;
                'outer: for n in [1usize, 16, 64] {
                    for layout in 0..3usize {
                        cases += 1;
                        match run_remains(hh, &mode, n, layout) {
                            Ok(p) => problems.extend(p),
                            Err(e) => {
                                error = Some(e);
                                break 'outer;
                            }
                        }
                    }
                }
                hh.drop_server();
                (match error {
                    Some(e) => json!({"error": e}),
                    None => json!({"cases": cases, "problems": problems}),
                }, false)
            }
            "osfaults" => {
                let hh = h.as_mut().unwrap();
                let r = run_os_faults(hh, task["mode"].as_str().unwrap_or("SAVE"));
                set_fsize_limit(None);
                hh.drop_server();
                (match r {
                    Ok(v) => v,
                    Err(e) => json!({"error": e}),
                }, true)
            }
            "crashpoints" => {
                let hh = h.as_mut().unwrap();
                let r = run_crashpoints(hh, task["mode"].as_str().unwrap_or("SAVE"), task["prev"].as_bool().unwrap_or(true));
                hh.drop_server();
                (match r {
                    Ok(v) => v,
                    Err(e) => json!({"error": e}),
                }, false)
            }
            "sched" => {
                let ty = task["type"].as_str().unwrap_or("string").to_string();
                let ttl = task["ttl"].as_str().unwrap_or("none").to_string();
                let family = task["family"].as_str().unwrap_or("bgsave").to_string();
                let (menu, _np, scheds) = sched_space(&ty, &ttl, &family, thorough);
                let (a, bnd) = (task["range"][0].as_u64().unwrap_or(0) as usize, task["range"][1].as_u64().unwrap_or(u64::MAX).min(scheds.len() as u64) as usize);
                let hh: &mut H = if family == "autosave" {
                    if hauto.is_none() {
                        hauto = Some(H::new(SrvOpts { auto_save: true, save_rules: vec![(1, 1)], ..SrvOpts::default() }));
                    }
                    hauto.as_mut().unwrap()
                } else {
                    h.as_mut().unwrap()
                };
                let mut recs = Vec::new();
                let mut errors = Vec::new();
                let mut n = 0u64;
                let mut pause_total = 0u64;
                let mut shapes: BTreeSet<String> = BTreeSet::new();
                for i in a..bnd {
                    let s = &scheds[i];
                    let starter = if family == "autosave" { Starter::AutoSave } else { Starter::Bgsave };
                    let mut attempt = run_schedule(hh, &ty, &ttl, starter, family == "two-writers", &menu, s);
                    if matches!(&attempt, Err(e) if e.contains("did not end") || e.contains("neither paused nor ended")) {
                        // "the save thread never arrived" rests on a real-time wait: repeat the schedule on a fresh server
                        // with eight times the patience before it becomes a verdict (a loaded machine may starve a thread)
                        hh.drop_server();
                        gate::PATIENCE.store(8, Ordering::SeqCst);
                        let starter = if family == "autosave" { Starter::AutoSave } else { Starter::Bgsave };
                        attempt = run_schedule(hh, &ty, &ttl, starter, family == "two-writers", &menu, s);
                        gate::PATIENCE.store(1, Ordering::SeqCst);
                    }
                    match attempt {
                        Ok(out) => {
                            n += 1;
                            pause_total += out.pauses.len() as u64;
                            shapes.insert(out.pauses.join(","));
                            let items: Vec<String> = s.iter().map(|(p, m)| format!("pause {}: {}", p, item_name(&menu[*m]))).collect();
                            let classes: Vec<String> = s.iter().map(|(_, m)| item_class(&menu[*m])).collect();
                            for (p, d) in out.problems.iter() {
                                recs.push(json!({"i": i, "problem": p, "detail": d, "schedule": items, "classes": classes, "pauses": out.pauses, "steps": out.steps}));
                            }
                            if out.problems.is_empty() && i % 211 == 0 {
                                recs.push(json!({"i": i, "sample": true, "schedule": items, "pauses": out.pauses, "steps": out.steps}));
                            }
                        }
                        Err(e) => {
                            hh.drop_server();
                            if e.contains("did not end") || e.contains("neither paused nor ended") {
                                // nothing is parked and the clock is ours: the save thread is gone or its flag was left set
                                let items: Vec<String> = s.iter().map(|(p, m)| format!("pause {}: {}", p, item_name(&menu[*m]))).collect();
                                let classes: Vec<String> = s.iter().map(|(_, m)| item_class(&menu[*m])).collect();
                                recs.push(json!({"i": i, "problem": "background-save-never-ended-or-left-its-flag-set", "detail": {"error": e}, "schedule": items, "classes": classes, "pauses": [], "steps": []}));
                                break;
                            }
                            errors.push(format!("{} {} {} schedule {}: {}", family, ty, ttl, i, e));
                        }
                    }
                }
                let recycle = hh.restarts > 60;
                (json!({"recs": recs, "errors": errors, "n": n, "pauses": pause_total, "shapes": shapes.into_iter().collect::<Vec<_>>()}), recycle)
            }
            "syncclock" => {
                let hh = h.as_mut().unwrap();
                let mut recs = Vec::new();
                let mut errors = Vec::new();
                let mut n = 0u64;
                for ty in STYPES {
                    let np = 9 + if ty == "zset" { 1 } else { 0 };
                    for pause in 0..np {
                        for item in [Item::TickPast, Item::TickSecond] {
                            match run_sync_save_clock(hh, ty, pause, &item) {
                                Ok(out) => {
                                    n += 1;
                                    for (p, d) in out.problems.iter() {
                                        recs.push(json!({"problem": p, "detail": d, "type": ty, "schedule": [format!("pause {}: {}", pause, item_name(&item))], "classes": [item_class(&item)], "pauses": out.pauses, "steps": out.steps}));
                                    }
                                }
                                Err(e) => {
                                    errors.push(format!("syncclock {} pause {}: {}", ty, pause, e));
                                    hh.drop_server();
                                }
                            }
                        }
                    }
                }
                (json!({"recs": recs, "errors": errors, "n": n}), false)
            }
            "read" => {
                let hh = h.as_mut().unwrap();
                let name = task["dump"].as_str().unwrap_or("small-all-types").to_string();
                let dir = crate::srv::fresh_dir();
                let base = match base_dump(&name, &dir) {
                    Ok(bs) => bs,
                    Err(e) => return (json!({"error": e}), false),
                };
                // the undamaged file loads
                let baseline = match hh.loader.load_only(&dir.join(format!("base-{}.rdb", name))) {
                    Ok(m) => m,
                    Err(e) => return (json!({"error": format!("the undamaged base dump does not load: {}", e)}), false),
                };
                let muts = read_mutations(base.len(), &name, thorough);
                let (a, bnd) = (task["range"][0].as_u64().unwrap_or(0) as usize, task["range"][1].as_u64().unwrap_or(u64::MAX).min(muts.len() as u64) as usize);
                let mut recs = Vec::new();
                let mut n = 0u64;
                for i in a..bnd {
                    if i % 512 == 0 {
                        io.announce_case(json!({"kind": "read", "dump": name, "i": i, "mutation": format!("{:?}", muts[i])}));
                    }
                    n += 1;
                    if let Some((p, d)) = run_read_case(&hh.loader, &dir, &base, baseline, muts[i]) {
                        recs.push(json!({"i": i, "problem": p, "detail": d, "kind_of": if muts[i].1.is_some() { "substitution" } else { "prefix" }}));
                    }
                }
                let _ = std::fs::remove_dir_all(&dir);
                (json!({"recs": recs, "n": n, "base_len": base.len(), "total": muts.len(), "baseline_alloc": baseline}), false)
            }
            "readspace" => {
                // sizes of the mutation spaces (the dump bytes depend on nothing but the code)
                let dir = crate::srv::fresh_dir();
                let mut m = serde_json::Map::new();
                for name in ["small-all-types", "len14", "len32"] {
                    if let Ok(bs) = base_dump(name, &dir) {
                        m.insert(name.to_string(), json!({"len": bs.len(), "mutations": read_mutations(bs.len(), name, thorough).len()}));
                    }
                }
                let _ = std::fs::remove_dir_all(&dir);
                (Value::Object(m), false)
            }
            _ => (json!({"error": format!("unknown task kind {}", kind)}), false),
        }
    }
}

pub fn parent(tier: &str) -> i32 {
    let thorough = tier == "thorough";
    let mut report = RunReport::new("C10", tier, "fault_enumeration");
    let pool = Pool::new("C10", tier, super::e1common::nworkers());
    let mut tasks: Vec<Value> = Vec::new();
    // (A)
    for mode in ["SAVE", "BGSAVE"] {
        for persistent in [false, true] {
            for prev in [true, false] {
                tasks.push(json!({"kind": "faults", "mode": mode, "persistent": persistent, "prev": prev, "thorough": thorough}));
            }
        }
        for prev in [true, false] {
            tasks.push(json!({"kind": "crashpoints", "mode": mode, "prev": prev, "thorough": thorough}));
        }
    }
    // (B)
    for ty in STYPES {
        for ttl in TTLS {
            for family in ["bgsave", "autosave", "two-writers"] {
                if family != "bgsave" && ttl != "long" {
                    continue;
                }
                let (_m, _np, scheds) = sched_space(ty, ttl, family, thorough);
                let chunk = 120usize;
                let mut a = 0;
                while a < scheds.len() {
                    tasks.push(json!({"kind": "sched", "type": ty, "ttl": ttl, "family": family, "range": [a, (a + chunk).min(scheds.len())], "thorough": thorough}));
                    a += chunk;
                }
            }
        }
    }
    // (E)
    for mode in ["SAVE", "BGSAVE"] {
        tasks.push(json!({"kind": "osfaults", "mode": mode, "prev": true, "thorough": thorough}));
    }
    // (D)
    for mode in ["SAVE", "BGSAVE"] {
        for k in 0..SIZE_KINDS.len() {
            tasks.push(json!({"kind": "sizes", "mode": mode, "size_kind": k, "thorough": thorough}));
        }
    }
    // (F)
    for mode in ["SAVE", "BGSAVE"] {
        tasks.push(json!({"kind": "remains", "mode": mode, "thorough": thorough}));
    }
    tasks.push(json!({"kind": "syncclock", "thorough": thorough}));
    // (C): ask a worker for the sizes, then partition
    let mut read_space = json!({});
    match &pool.map(vec![json!({"kind": "readspace", "thorough": thorough})], 0)[0] {
        Outcome::Done(v) => {
            read_space = v.clone();
            for name in ["small-all-types", "len14", "len32"] {
                let total = v[name]["mutations"].as_u64().unwrap_or(0) as usize;
                if total == 0 {
                    report.machinery_errors.push(format!("no mutation space for {}", name));
                }
                let chunk = 4000usize;
                let mut a = 0;
                while a < total {
                    tasks.push(json!({"kind": "read", "dump": name, "range": [a, (a + chunk).min(total)], "thorough": thorough}));
                    a += chunk;
                }
            }
        }
        Outcome::Died { status, .. } => report.machinery_errors.push(format!("worker died: {}", status)),
    }
    let out = pool.map(tasks.clone(), 0);
    let mut fault_points = 0u64;
    let mut crash_pauses = 0u64;
    let mut schedules_run = 0u64;
    let mut sched_pauses = 0u64;
    let mut read_cases = 0u64;
    let mut size_cases = 0u64;
    let mut shapes: BTreeSet<String> = BTreeSet::new();
    let mut samples: Vec<Value> = Vec::new();
    let mut per_family: BTreeMap<String, u64> = BTreeMap::new();
    for (t, o) in tasks.iter().zip(out.into_iter()) {
        let kind = t["kind"].as_str().unwrap_or("");
        match o {
            Outcome::Done(v) => {
                if let Some(e) = v.get("error") {
                    report.machinery_errors.push(format!("{}: {}", t, e));
                    continue;
                }
                for e in v["errors"].as_array().cloned().unwrap_or_default() {
                    report.machinery_errors.push(format!("{}", e));
                }
                match kind {
                    "faults" | "crashpoints" | "osfaults" => {
                        let pts = v["points"].as_u64().unwrap_or(0);
                        if kind == "crashpoints" { crash_pauses += pts } else { fault_points += pts }
                        *per_family.entry(kind.to_string()).or_default() += pts;
                        if pts == 0 {
                            report.machinery_errors.push(format!("{}: no point explored", t));
                        }
                        for p in v["problems"].as_array().cloned().unwrap_or_default() {
                            report.deviations.push(Deviation {
                                property: "C10".into(),
                                sig: format!("C10|{}|{}|{}|{}", kind, t["mode"].as_str().unwrap_or(""), if t["prev"].as_bool().unwrap_or(true) { "previous-dump" } else { "no-previous-dump" }, p["problem"].as_str().unwrap_or("")),
                                replay: json!({"kind": kind, "task": t, "detail": p}),
                            });
                        }
                    }
                    "sched" | "syncclock" => {
                        schedules_run += v["n"].as_u64().unwrap_or(0);
                        sched_pauses += v["pauses"].as_u64().unwrap_or(0);
                        *per_family.entry(if kind == "sched" { format!("schedules:{}", t["family"].as_str().unwrap_or("")) } else { "schedules:sync-save-clock".to_string() }).or_default() += v["n"].as_u64().unwrap_or(0);
                        for s in v["shapes"].as_array().cloned().unwrap_or_default() {
                            shapes.insert(s.as_str().unwrap_or("").to_string());
                        }
                        for r in v["recs"].as_array().cloned().unwrap_or_default() {
                            if r["sample"].as_bool().unwrap_or(false) {
                                if samples.len() < 4 {
                                    samples.push(json!({"type": t["type"], "ttl": t["ttl"], "family": t["family"], "schedule": r["schedule"], "pauses": r["pauses"], "steps": r["steps"]}));
                                }
                                continue;
                            }
                            let classes: Vec<String> = r["classes"].as_array().map(|a| a.iter().map(|x| x.as_str().unwrap_or("").to_string()).collect()).unwrap_or_default();
                            let fam = if kind == "sched" { t["family"].as_str().unwrap_or("").to_string() } else { "sync-save-clock".to_string() };
                            let ty = if kind == "sched" { t["type"].as_str().unwrap_or("").to_string() } else { r["type"].as_str().unwrap_or("").to_string() };
                            report.deviations.push(Deviation {
                                property: "C10".into(),
                                sig: format!("C10|{}|{}|ttl={}|{}|{}", fam, ty, t["ttl"].as_str().unwrap_or("short"), classes.join(","), r["problem"].as_str().unwrap_or("")),
                                replay: json!({"kind": kind, "task": {"kind": kind, "type": t["type"], "ttl": t["ttl"], "family": t["family"], "range": [r["i"], r["i"].as_u64().map(|x| x + 1)], "thorough": thorough}, "schedule": r["schedule"], "pauses": r["pauses"], "steps": r["steps"], "detail": r["detail"]}),
                            });
                        }
                    }
                    "sizes" => {
                        let n = v["cases"].as_u64().unwrap_or(0);
                        size_cases += n;
                        *per_family.entry("completed-saves-at-length-boundaries".to_string()).or_default() += n;
                        if n == 0 {
                            report.machinery_errors.push(format!("{}: no case run", t));
                        }
                        for p in v["problems"].as_array().cloned().unwrap_or_default() {
                            report.deviations.push(Deviation {
                                property: "C10".into(),
                                sig: format!("C10|sizes|{}|{}|{}|{}", t["mode"].as_str().unwrap_or(""), p["ctx"]["kind"].as_str().unwrap_or(""), p["ctx"]["size"], p["problem"].as_str().unwrap_or("")),
                                replay: json!({"kind": "sizes", "task": t, "detail": p}),
                            });
                        }
                    }
                    "remains" => {
                        let n = v["cases"].as_u64().unwrap_or(0);
                        *per_family.entry("completed-saves-with-uncollected-remains".to_string()).or_default() += n;
                        if n == 0 {
                            report.machinery_errors.push(format!("{}: no case run", t));
                        }
                        for p in v["problems"].as_array().cloned().unwrap_or_default() {
                            report.deviations.push(Deviation {
                                property: "C10".into(),
                                sig: format!("C10|remains|{}|{}|{}", t["mode"].as_str().unwrap_or(""), p["ctx"]["written"].as_str().unwrap_or(""), p["problem"].as_str().unwrap_or("")),
                                replay: json!({"kind": "remains", "task": t, "detail": p}),
                            });
                        }
                    }
                    "read" => {
                        read_cases += v["n"].as_u64().unwrap_or(0);
                        *per_family.entry("read-faults".to_string()).or_default() += v["n"].as_u64().unwrap_or(0);
                        for r in v["recs"].as_array().cloned().unwrap_or_default() {
                            report.deviations.push(Deviation {
                                property: "C10".into(),
                                sig: format!("C10|read|{}|{}|{}", t["dump"].as_str().unwrap_or(""), r["kind_of"].as_str().unwrap_or(""), r["problem"].as_str().unwrap_or("")),
                                replay: json!({"kind": "read", "task": {"kind": "read", "dump": t["dump"], "range": [r["i"], r["i"].as_u64().map(|x| x + 1)], "thorough": thorough}, "detail": r["detail"]}),
                            });
                        }
                    }
                    _ => {}
                }
            }
            Outcome::Died { status, case } => {
                // a worker that dies while loading a damaged file is a verdict for that file, not a machinery failure
                let is_read = case.as_ref().map(|c| c["kind"] == "read").unwrap_or(false);
                if is_read {
                    report.deviations.push(Deviation {
                        property: "C10".into(),
                        sig: format!("C10|read|{}|any|process-died-while-loading", t["dump"].as_str().unwrap_or("")),
                        replay: json!({"kind": "read", "task": t, "status": status, "last_case": case}),
                    });
                } else {
                    report.machinery_errors.push(format!("worker died: {} {:?}", status, case));
                }
            }
        }
    }
    if samples.is_empty() {
        samples.push(json!({"note": "no sample"}));
    }
    let evaluations = fault_points + crash_pauses + schedules_run + read_cases + size_cases;
    println!("  c10: write-fault points={} crash-point pauses={} schedules={} (pauses {}, {} distinct pause sequences) damaged files={}", fault_points, crash_pauses, schedules_run, sched_pauses, shapes.len(), read_cases);
    report.coverage = json!({
        "evaluations": evaluations, "distinct_nontrivial": evaluations,
        "rule": "every case is distinct by construction (a different failing write / pause / schedule / damaged byte) and non-trivial (the fault was reached, the save thread paused, or the file differs from the valid dump). (A) for SAVE and BGSAVE x {fail once, fail from then on} x {previous dump present, absent}: every raw write n of the save as the failing write, alternating between two datasets: error reply (SAVE), dump byte-identical to before (or still absent), a following save of the same kind is accepted and its dump loads to the live dataset; the save paused at every raw write and before/after the rename with the file on disk compared at each pause. (B) the real save thread stepped through begin / per-key get, ttl, write / zset len-items / rename / end on a three-key dataset for 6 types x TTL {none, 100 s, 50 ms}: every placement of 0..1 (thorough 0..2) menu items (grow, change, shrink, empty, delete, replace by another type, re-create, EXPIRE, PERSIST, RENAME away / over, unrelated key, FLUSHALL, clock +1 s with sweeper pass, clock past the deadline) at every pause; the same with the save started by the real auto-save monitor thread; a second writer (SAVE, also after a change, and BGSAVE) at every pause with a 20 KB bystander; a synchronous SAVE parked on the event-loop thread with the clock moved at every per-key point. Oracle: at every pause the dump on disk is byte-identical to the previous one or loads completely and per-key consistently; the final dump loads, every key in it has a (value, TTL) pair the key had at one instant during the save (snapshots taken before the save and after every placed item), keys present throughout are in it, another BGSAVE is accepted afterwards. (C) every prefix and every single-byte substitution (quick: 22 values at the opcode/length bit patterns; thorough: all 255) of three valid dumps (all types and a TTL in two databases; 14-bit lengths; a 32-bit length, payload positions sparsely) loaded with RdbEngine::load: no panic, no process death, largest single allocation <= 4 x file size + 64 KiB + the largest one made while loading the undamaged file, < 3 s. (E) the process's file size limit set to every n from 0 to the size of the dump, so that the kernel refuses the write that crosses it (EFBIG), for SAVE and BGSAVE: same oracle as (A). (D) SAVE and BGSAVE without faults of datasets whose string value / key name / list, set, hash, zset element count / element, field, stream value length is 1, 63, 64, 16383, 16384, 16385, 65536 (thorough adds 62, 65, 255, 256, 16382, 65535, 65537), with bystander keys in several shards and another database: the completed dump loads and equals the live dataset.",
        "samples": samples, "exhaustive": true,
        "write_fault_points": fault_points, "crash_point_pauses": crash_pauses, "schedules": schedules_run, "schedule_pauses": sched_pauses,
        "distinct_pause_sequences": shapes.iter().cloned().collect::<Vec<_>>(), "damaged_files_loaded": read_cases, "completed_saves_at_length_boundaries": size_cases, "read_space": read_space, "per_family": per_family,
    });
    report.assumptions = vec![
        "a 'write' is a call of the RDB writer's raw write (the injection seam named by the property); the file system below it is real and not faulted; block-level reordering after power loss is not modelled".into(),
        "per-key states are read from the live engine through a read-only hook before the save and after every placed item; a key whose deadline has passed counts as absent".into(),
        "stream last-generated ids and consumer groups are not compared".into(),
        "time is virtual; the save thread is a real thread parked at hook points".into(),
    ];
    report.finish()
}
