//! Infrastructure smoke test (not a property): virtual time, gate, sweeper release, round trips.
use crate::pool::{self, WorkerIo};
use crate::resp::show;
use crate::srv::{Srv, SrvOpts};
use crate::vtime;
use serde_json::{json, Value};

pub fn parent(tier: &str) -> i32 {
    let p = pool::Pool::new("SMOKE", tier, 2);
    let out = p.map(vec![json!({"n": 1}), json!({"n": 2})], 0);
    for o in out {
        println!("{:?}", o);
    }
    0
}

pub fn handle(_tier: &str, _task: &Value, _io: &mut WorkerIo) -> (Value, bool) {
    vtime::enable();
    let srv = Srv::start(&SrvOpts::default());
    let mut log = Vec::new();
    let t0 = vtime::align_epoch().unwrap();
    let mut c = srv.connect().unwrap();
    log.push(format!("conn id {}", c.id));
    log.push(show(&srv.call(&mut c, &["SET", "t", "v", "PX", "100"]).unwrap()));
    vtime::tick(99_000_000).unwrap();
    log.push(format!("pttl@99 {}", show(&srv.call(&mut c, &["PTTL", "t"]).unwrap())));
    log.push(format!("get@99 {}", show(&srv.call(&mut c, &["GET", "t"]).unwrap())));
    vtime::tick(2_000_000).unwrap();
    log.push(format!("get@101 {}", show(&srv.call(&mut c, &["GET", "t"]).unwrap())));
    log.push(show(&srv.call(&mut c, &["SET", "s", "v", "PX", "100"]).unwrap()));
    log.push(show(&srv.call(&mut c, &["SET", "s", "v2"]).unwrap()));
    let before = crate::gate::counter(ferrous::verif_hooks::SWEEP_END);
    vtime::tick(1_000_000_000).unwrap();
    let after = crate::gate::counter(ferrous::verif_hooks::SWEEP_END);
    log.push(format!("sweeps {}->{}", before, after));
    log.push(format!("get s after sweep {}", show(&srv.call(&mut c, &["GET", "s"]).unwrap())));
    log.push(format!("raw: {}", srv.h.storage.verif_raw_dump(0, 0)));
    log.push(show(&srv.call(&mut c, &["SET", "a", "x", "EX", "100"]).unwrap()));
    for _ in 0..3 {
        vtime::real_sleep_us(3000);
        log.push(format!("pttl a {} mono {}", show(&srv.call(&mut c, &["PTTL", "a"]).unwrap()), vtime::mono_ns()));
    }
    // throughput
    let r0 = vtime::real_now_ns();
    for i in 0..20000 {
        let k = format!("k{}", i % 7);
        srv.call(&mut c, &["SET", &k, "x"]).unwrap();
    }
    let dt = (vtime::real_now_ns() - r0) as f64 / 1e9;
    log.push(format!("20000 round trips in {:.3}s, epoch {}", dt, t0));
    (json!(log), false)
}
