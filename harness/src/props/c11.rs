//! C11 — the append-only file is a faithful redo log.
//! A real server L with appendonly on and a plain twin F in the same worker. Exhaustive products and
//! histories over the write-command catalogue x key state x execution path (direct, MULTI/EXEC, EVAL, EVALSHA,
//! another database, a blocked client being served). After every step the bytes appended to the file must
//! decode into whole command frames and be accounted for; at the end of a case the whole file is re-executed on
//! the emptied twin and the API-level dumps of L and F are compared (values; TTL presence).

use super::c09::{api_dump, Dump};
use crate::pool::{Outcome, Pool, WorkerIo};
use crate::report::{Deviation, RunReport};
use crate::resp::{self, R};
use crate::srv::{Client, Srv, SrvOpts};
use crate::vtime;
use ferrous::storage::aof::FsyncPolicy;
use serde_json::{json, Value};
use std::collections::{BTreeMap, BTreeSet};

type Bytes = Vec<u8>;
const FORWARD: &str = "return redis.call(unpack(ARGV))";

fn b(s: &str) -> Bytes {
    s.as_bytes().to_vec()
}

/// the catalogue: (class, command). `k` is the key whose initial state varies, `k2` a second key.
pub fn catalogue() -> Vec<(&'static str, Vec<&'static str>)> {
    vec![
        ("SET", vec!["SET", "k", "v"]), ("SET EX", vec!["SET", "k", "v", "EX", "100"]), ("SET PX", vec!["SET", "k", "v", "PX", "100000"]), ("SET NX", vec!["SET", "k", "v", "NX"]), ("SET XX", vec!["SET", "k", "v", "XX"]),
        ("SETNX", vec!["SETNX", "k", "v"]), ("SETEX", vec!["SETEX", "k", "100", "v"]), ("PSETEX", vec!["PSETEX", "k", "100000", "v"]), ("MSET", vec!["MSET", "k", "v", "k2", "w"]),
        ("GETSET", vec!["GETSET", "k", "v"]), ("APPEND", vec!["APPEND", "k", "x"]), ("SETRANGE", vec!["SETRANGE", "k", "2", "zz"]),
        ("INCR", vec!["INCR", "k"]), ("DECR", vec!["DECR", "k"]), ("INCRBY", vec!["INCRBY", "k", "5"]), ("DECRBY", vec!["DECRBY", "k", "5"]),
        ("DEL", vec!["DEL", "k"]), ("DEL 2", vec!["DEL", "k", "k2"]), ("EXPIRE", vec!["EXPIRE", "k", "100"]), ("PEXPIRE", vec!["PEXPIRE", "k", "100000"]), ("PERSIST", vec!["PERSIST", "k"]),
        ("RENAME", vec!["RENAME", "k", "k2"]), ("RENAMENX", vec!["RENAMENX", "k", "k3"]), ("FLUSHDB", vec!["FLUSHDB"]), ("FLUSHALL", vec!["FLUSHALL"]),
        ("LPUSH", vec!["LPUSH", "k", "n"]), ("LPUSH 2", vec!["LPUSH", "k", "n", "m"]), ("RPUSH", vec!["RPUSH", "k", "n"]), ("LPOP", vec!["LPOP", "k"]), ("RPOP", vec!["RPOP", "k"]),
        ("LSET", vec!["LSET", "k", "0", "z"]), ("LTRIM", vec!["LTRIM", "k", "0", "0"]), ("LTRIM empty", vec!["LTRIM", "k", "5", "9"]), ("LREM", vec!["LREM", "k", "0", "a"]),
        ("BLPOP served at once", vec!["BLPOP", "k", "k2", "1"]), ("BRPOP served at once", vec!["BRPOP", "k2", "k", "1"]),
        ("SADD", vec!["SADD", "k", "a"]), ("SADD 2", vec!["SADD", "k", "x", "y"]), ("SREM", vec!["SREM", "k", "a"]), ("SREM all", vec!["SREM", "k", "a", "b", "c"]),
        ("SPOP", vec!["SPOP", "k"]), ("SPOP 2", vec!["SPOP", "k", "2"]), ("SPOP all", vec!["SPOP", "k", "10"]),
        ("HSET", vec!["HSET", "k", "f", "v"]), ("HSET new", vec!["HSET", "k", "n", "x"]), ("HMSET", vec!["HMSET", "k", "f", "v", "n", "x"]), ("HDEL", vec!["HDEL", "k", "f"]), ("HDEL all", vec!["HDEL", "k", "f", "g"]),
        ("HINCRBY", vec!["HINCRBY", "k", "f", "5"]), ("HINCRBY new", vec!["HINCRBY", "k", "n", "5"]),
        ("ZADD", vec!["ZADD", "k", "1", "a"]), ("ZADD new", vec!["ZADD", "k", "5", "n"]), ("ZREM", vec!["ZREM", "k", "a"]), ("ZREM all", vec!["ZREM", "k", "a", "b"]),
        ("ZINCRBY", vec!["ZINCRBY", "k", "2", "a"]), ("ZINCRBY new", vec!["ZINCRBY", "k", "2", "n"]), ("ZPOPMIN", vec!["ZPOPMIN", "k"]), ("ZPOPMAX", vec!["ZPOPMAX", "k"]), ("ZPOPMIN all", vec!["ZPOPMIN", "k", "5"]),
        ("XADD id", vec!["XADD", "k", "2-1", "f", "v"]), ("XADD auto", vec!["XADD", "k", "*", "f", "v"]), ("XTRIM", vec!["XTRIM", "k", "MAXLEN", "0"]), ("XDEL", vec!["XDEL", "k", "1-1"]),
        ("XGROUP CREATE MKSTREAM", vec!["XGROUP", "CREATE", "k", "g2", "0", "MKSTREAM"]), ("XGROUP DESTROY", vec!["XGROUP", "DESTROY", "k", "g"]),
        ("XREADGROUP", vec!["XREADGROUP", "GROUP", "g", "c", "COUNT", "1", "STREAMS", "k", ">"]), ("XACK", vec!["XACK", "k", "g", "1-1"]),
        ("EVAL write", vec!["EVAL", "redis.call('SET', KEYS[1], ARGV[1]) return 1", "1", "k2", "scripted"]),
        ("EVAL two writes", vec!["EVAL", "redis.call('RPUSH', KEYS[1], 'p') redis.call('INCR', KEYS[2]) return 1", "2", "sl", "sn"]),
        ("EVAL random", vec!["EVAL", "return redis.call('SPOP', KEYS[1])", "1", "k"]),
        ("EVAL read", vec!["EVAL", "return redis.call('EXISTS', KEYS[1])", "1", "k"]),
        // scripts are not rolled back: what they wrote before they failed stays, and must be in the log
        // (a seeded "a refused command changed nothing" shortcut dropped such EVALs from the log)
        ("EVAL write then error()", vec!["EVAL", "redis.call('SET', KEYS[1], 'half') error('boom')", "1", "k2"]),
        ("EVAL write then failing call", vec!["EVAL", "redis.call('SET', KEYS[1], 'half') redis.call('INCR', KEYS[1]) return 1", "1", "k2"]),
        ("EVAL write then wrong-type call on k", vec!["EVAL", "redis.call('RPUSH', KEYS[2], 'p') return redis.call('HINCRBY', KEYS[1], 'f', 1)", "2", "k", "sl"]),
        ("EVAL write then error table", vec!["EVAL", "redis.call('SADD', KEYS[1], 'm') return {err='refused by the script'}", "1", "k3"]),
        ("EVAL failing pcall then write", vec!["EVAL", "redis.pcall('INCR', KEYS[1]) redis.call('SET', KEYS[2], 'after') return 1", "2", "sl", "k2"]),
        ("EVAL error before any write", vec!["EVAL", "error('early') redis.call('SET', KEYS[1], 'never')", "1", "k2"]),
        ("GET", vec!["GET", "k"]), ("unknown", vec!["NOSUCHCMD", "k"]),
        // a rewrite request must leave the log a faithful one, and what is written after it must still be logged
        ("BGREWRITEAOF", vec!["BGREWRITEAOF"]),
    ]
}

pub fn states() -> Vec<(&'static str, Vec<Vec<&'static str>>)> {
    vec![
        ("missing", vec![]),
        ("string", vec![vec!["SET", "k", "10"]]),
        ("string+ttl", vec![vec!["SET", "k", "abc"], vec!["EXPIRE", "k", "1000"]]),
        ("list", vec![vec!["RPUSH", "k", "a", "b", "c"]]),
        ("set", vec![vec!["SADD", "k", "a", "b", "c"]]),
        ("hash", vec![vec!["HSET", "k", "f", "1", "g", "2"]]),
        ("zset", vec![vec!["ZADD", "k", "1", "a", "2", "b"]]),
        ("stream", vec![vec!["XADD", "k", "1-1", "f", "v"], vec!["XGROUP", "CREATE", "k", "g", "0-0"]]),
        ("list+k2", vec![vec!["RPUSH", "k", "a"], vec!["RPUSH", "k2", "z"]]),
    ]
}

/// ("evalsha-upper": the digest spelled in upper case - refused as unknown or executed, but if executed then logged;
/// a seeded change made the handler look the digest up case-insensitively while the logger kept the exact spelling)
pub const PATHS: [&str; 6] = ["direct", "exec", "eval", "evalsha", "db1", "evalsha-upper"];

struct Twin {
    l: Srv,
    f: Srv,
    cl: Client,
    cf: Client,
    aof: std::path::PathBuf,
    offset: usize,
    restarts: usize,
    sha: Option<Bytes>,
    blocked_on: Option<String>,
}

/// a command with a random outcome (as it would run now on L): its verbatim image in the log cannot replay
/// to the same outcome
fn random_now(cmd: &[Bytes], dump: &Dump, db: usize) -> bool {
    let name = String::from_utf8_lossy(&cmd[0]).to_uppercase();
    match name.as_str() {
        "SPOP" => {
            let n = dump.get(&(db, cmd.get(1).cloned().unwrap_or_default())).filter(|e| e.ty == "set").map(|e| e.val.first().map(|v| v.len()).unwrap_or(0)).unwrap_or(0);
            let count: usize = cmd.get(2).and_then(|c| String::from_utf8_lossy(c).parse().ok()).unwrap_or(1);
            n > count
        }
        "XADD" => cmd.get(2).map(|i| i == b"*").unwrap_or(false) && dump.get(&(db, cmd.get(1).cloned().unwrap_or_default())).map(|e| e.ty == "stream").unwrap_or(true),
        "EVAL" => String::from_utf8_lossy(&cmd[1]).contains("SPOP") && dump.get(&(db, b("k"))).filter(|e| e.ty == "set").map(|e| e.val.first().map(|v| v.len()).unwrap_or(0) > 1).unwrap_or(false),
        _ => false,
    }
}

fn same_dataset(a: &Dump, z: &Dump) -> Vec<(String, Value)> {
    let mut problems = Vec::new();
    let keys: BTreeSet<&(usize, Bytes)> = a.keys().chain(z.keys()).collect();
    for k in keys {
        let name = format!("db{} {}", k.0, resp::show_bytes(&k.1));
        match (a.get(k), z.get(k)) {
            (Some(x), None) => problems.push((format!("{}-key-missing-after-replay", x.ty), json!({"key": name, "live": show_val(&x.val)}))),
            (None, Some(y)) => problems.push((format!("{}-key-only-after-replay", y.ty), json!({"key": name, "replayed": show_val(&y.val)}))),
            (Some(x), Some(y)) => {
                if x.ty != y.ty {
                    problems.push((format!("type-{}-live-{}-after-replay", x.ty, y.ty), json!({"key": name})));
                } else if x.val != y.val {
                    problems.push((format!("{}-value-differs-after-replay", x.ty), json!({"key": name, "live": show_val(&x.val), "replayed": show_val(&y.val)})));
                } else if (x.pttl >= 0) != (y.pttl >= 0) {
                    problems.push((format!("ttl-{}-live-{}-after-replay", if x.pttl >= 0 { "present" } else { "absent" }, if y.pttl >= 0 { "present" } else { "absent" }), json!({"key": name})));
                }
            }
            (None, None) => {}
        }
    }
    problems
}

fn show_val(v: &[Vec<Bytes>]) -> String {
    let mut s = String::new();
    for row in v.iter().take(4) {
        s.push('[');
        for it in row.iter().take(8) {
            s.push_str(&resp::show_bytes(it));
            s.push(' ');
        }
        s.push(']');
    }
    s
}

impl Twin {
    fn new(policy: FsyncPolicy) -> Result<Twin, String> {
        vtime::enable();
        let l = Srv::start(&SrvOpts { aof: Some(policy), ..SrvOpts::default() });
        let f = Srv::start(&SrvOpts::default());
        let cl = l.connect().map_err(|e| format!("connect L: {:?}", e))?;
        let cf = f.connect().map_err(|e| format!("connect F: {:?}", e))?;
        let aof = l.dir.join("appendonly.aof");
        Ok(Twin { l, f, cl, cf, aof, offset: 0, restarts: 2, sha: None, blocked_on: None })
    }

    fn call_l(&mut self, args: &[Bytes]) -> Result<R, String> {
        self.l.call(&mut self.cl, args).map_err(|e| format!("L {}: {:?}", resp::show_cmd(args), e))
    }

    /// empty both datasets and the log
    fn reset(&mut self) -> Result<(), String> {
        if !self.cl.is_open() {
            self.cl = self.l.connect().map_err(|e| format!("connect L: {:?}", e))?;
        }
        self.call_l(&[b("SELECT"), b("0")])?;
        self.call_l(&[b("FLUSHALL")])?;
        // the file is opened in append mode and flushed after every command: truncating it is safe
        std::fs::OpenOptions::new().write(true).open(&self.aof).and_then(|f| f.set_len(0)).map_err(|e| format!("truncate: {}", e))?;
        self.offset = 0;
        Ok(())
    }

    /// bytes appended since the last look, decoded: (frames, leftover bytes, non-command frames)
    fn appended(&mut self) -> Result<(Vec<Vec<Bytes>>, usize, usize), String> {
        let all = std::fs::read(&self.aof).map_err(|e| format!("read aof: {}", e))?;
        if all.len() < self.offset {
            return Err("the log shrank".into());
        }
        let mut buf = &all[self.offset..];
        let mut frames = Vec::new();
        let mut bad = 0usize;
        loop {
            if buf.is_empty() {
                break;
            }
            match resp::decode(buf) {
                Ok(Some((f, n))) => {
                    match f.as_arr().map(|a| a.iter().map(|x| x.as_bytes().map(|b| b.to_vec())).collect::<Option<Vec<Bytes>>>()) {
                        Some(Some(parts)) if !parts.is_empty() => frames.push(parts),
                        _ => bad += 1,
                    }
                    buf = &buf[n..];
                }
                Ok(None) | Err(_) => break,
            }
        }
        let leftover = buf.len();
        self.offset = all.len();
        Ok((frames, leftover, bad))
    }

    /// re-execute the whole file on the emptied twin; returns the number of frames
    fn replay(&mut self) -> Result<usize, String> {
        let all = std::fs::read(&self.aof).map_err(|e| format!("read aof: {}", e))?;
        if !self.cf.is_open() {
            self.cf = self.f.connect().map_err(|e| format!("connect F: {:?}", e))?;
        }
        self.f.call(&mut self.cf, &[b("SELECT"), b("0")]).map_err(|e| format!("F select: {:?}", e))?;
        self.f.call(&mut self.cf, &[b("FLUSHALL")]).map_err(|e| format!("F flushall: {:?}", e))?;
        self.f.call(&mut self.cf, &[b("SCRIPT"), b("FLUSH")]).map_err(|e| format!("F script flush: {:?}", e))?;
        let mut buf = &all[..];
        let mut n = 0usize;
        while !buf.is_empty() {
            match resp::decode(buf) {
                Ok(Some((f, used))) => {
                    if let Some(Some(parts)) = f.as_arr().map(|a| a.iter().map(|x| x.as_bytes().map(|b| b.to_vec())).collect::<Option<Vec<Bytes>>>()) {
                        if !parts.is_empty() {
                            // replies are not judged: only the dataset that results
                            match self.f.call(&mut self.cf, &parts) {
                                Ok(_) => {}
                                Err(crate::srv::CallErr::NoReply) => {
                                    // the re-executed command waits (a blocking call logged verbatim): a verdict on the log
                                    self.cf.discard();
                                    let _ = self.f.steps(3);
                                    self.blocked_on = Some(resp::show_cmd(&parts));
                                    return Ok(n);
                                }
                                Err(e) => return Err(format!("F replay {}: {:?}", resp::show_cmd(&parts), e)),
                            }
                            n += 1;
                        }
                    }
                    buf = &buf[used..];
                }
                _ => break,
            }
        }
        Ok(n)
    }
}

struct CaseOut {
    problems: Vec<(String, Value)>,
    frames: usize,
    trace: Vec<String>,
    effect: bool,
}

/// the request bytes and the number of replies for a command sent through a path
fn via(path: &str, cmd: &[Bytes], sha: &Option<Bytes>) -> Vec<Vec<Bytes>> {
    match path {
        "exec" => vec![vec![b("MULTI")], cmd.to_vec(), vec![b("EXEC")]],
        "eval" => {
            let mut v = vec![b("EVAL"), b(FORWARD), b("0")];
            v.extend(cmd.iter().cloned());
            vec![v]
        }
        "evalsha" | "evalsha-upper" => {
            let digest = sha.clone().unwrap_or_default();
            let mut v = vec![b("EVALSHA"), if path == "evalsha-upper" { digest.to_ascii_uppercase() } else { digest }, b("0")];
            v.extend(cmd.iter().cloned());
            vec![v]
        }
        _ => vec![cmd.to_vec()],
    }
}

fn run_steps(t: &mut Twin, steps: &[(String, Vec<Bytes>)]) -> Result<CaseOut, String> {
    t.reset()?;
    let mut problems: Vec<(String, Value)> = Vec::new();
    let mut trace: Vec<String> = Vec::new();
    let mut total_frames = 0usize;
    let mut any_effect = false;
    let mut skip_compare = false;
    let mut db = 0usize;
    for (path, cmd) in steps.iter() {
        let name = String::from_utf8_lossy(&cmd[0]).to_uppercase();
        if path == "db1" && db != 1 {
            t.call_l(&[b("SELECT"), b("1")])?;
            db = 1;
        }
        if path != "db1" && db != 0 {
            t.call_l(&[b("SELECT"), b("0")])?;
            db = 0;
        }
        if path.starts_with("evalsha") && t.sha.is_none() {
            match t.call_l(&[b("SCRIPT"), b("LOAD"), b(FORWARD)])? {
                R::Bulk(s) => t.sha = Some(s),
                o => return Err(format!("SCRIPT LOAD -> {}", resp::show(&o))),
            }
        }
        let (_pre, _, _) = t.appended()?; // frames of SELECT / SCRIPT LOAD belong to no step
        let before = api_dump(&t.l, &mut t.cl)?;
        if db != 0 {
            t.call_l(&[b("SELECT"), b(&db.to_string())])?;
            let _ = t.appended()?;
        }
        let random = random_now(cmd, &before, db);
        let mut replies = Vec::new();
        for req in via(path, cmd, &t.sha.clone()) {
            let blocking = req[0].eq_ignore_ascii_case(b"BLPOP") || req[0].eq_ignore_ascii_case(b"BRPOP");
            if !blocking {
                replies.push(t.call_l(&req)?);
                continue;
            }
            // with nothing to pop the call waits for its timeout (1 s): let the virtual clock pass
            t.cl.send(&resp::cmd(&req));
            match t.l.await_reply(&mut t.cl, 6) {
                Ok(r) => replies.push(r),
                Err(crate::srv::CallErr::NoReply) => {
                    vtime::tick(1_500_000_000).map_err(|_| "settle timeout".to_string())?;
                    replies.push(t.l.await_reply(&mut t.cl, 8).map_err(|e| format!("L {} after its timeout: {:?}", resp::show_cmd(&req), e))?);
                }
                Err(e) => return Err(format!("L {}: {:?}", resp::show_cmd(&req), e)),
            }
        }
        let (frames, leftover, bad) = t.appended()?;
        let after = api_dump(&t.l, &mut t.cl)?;
        if db != 0 {
            t.call_l(&[b("SELECT"), b(&db.to_string())])?;
            let _ = t.appended()?;
        }
        // (values and TTL presence: the remaining time moves when a blocking call waits for its timeout)
        let strip = |d: &Dump| -> Vec<((usize, Bytes), String, Vec<Vec<Bytes>>, bool)> { d.iter().map(|(k, e)| (k.clone(), e.ty.clone(), e.val.clone(), e.pttl >= 0)).collect() };
        let effect = strip(&before) != strip(&after);
        any_effect |= effect;
        total_frames += frames.len();
        trace.push(format!("[{}] {} -> {} | appended: {}", path, resp::show_cmd(cmd), replies.iter().map(resp::class).collect::<Vec<_>>().join(","), frames.iter().map(|f| resp::show_cmd(f)).collect::<Vec<_>>().join(" ; ")));
        if leftover != 0 {
            problems.push(("log-ends-in-an-incomplete-frame".into(), json!({"after": resp::show_cmd(cmd), "leftover_bytes": leftover})));
        }
        if bad != 0 {
            problems.push(("log-holds-a-frame-that-is-not-a-command".into(), json!({"after": resp::show_cmd(cmd)})));
        }
        // accounting: a command that took effect is represented, and no more than once
        let images: Vec<&Vec<Bytes>> = frames.iter().filter(|f| !f[0].eq_ignore_ascii_case(b"SELECT") && !f[0].eq_ignore_ascii_case(b"MULTI") && !f[0].eq_ignore_ascii_case(b"EXEC")).collect();
        if effect && images.is_empty() {
            problems.push((format!("{}-took-effect-but-nothing-was-logged", name), json!({"command": resp::show_cmd(cmd), "path": path})));
            skip_compare = true; // the dataset comparison would only repeat this
        }
        if images.len() > 1 {
            problems.push((format!("{}-logged-{}-times", name, images.len()), json!({"command": resp::show_cmd(cmd), "path": path, "frames": images.iter().map(|f| resp::show_cmd(f)).collect::<Vec<_>>()})));
        }
        if random && effect {
            // whatever was logged must not be the random command itself
            let verbatim = images.iter().any(|f| {
                let n = String::from_utf8_lossy(&f[0]).to_uppercase();
                (n == "SPOP") || (n == "XADD" && f.get(2).map(|i| i == b"*").unwrap_or(false)) || ((n == "EVAL" || n == "EVALSHA") && (name == "SPOP" || name == "XADD" || String::from_utf8_lossy(&cmd[1]).contains("SPOP")))
            });
            if verbatim {
                problems.push((format!("{}-with-a-random-outcome-logged-verbatim", name), json!({"command": resp::show_cmd(cmd), "path": path, "frames": images.iter().map(|f| resp::show_cmd(f)).collect::<Vec<_>>()})));
                skip_compare = true; // a replay would be random too: the verdict is on the form
            }
        }
    }
    if !skip_compare {
        let live = api_dump(&t.l, &mut t.cl)?;
        t.replay()?;
        if let Some(cmd) = t.blocked_on.take() {
            problems.push(("a-logged-command-blocks-when-the-log-is-re-executed".into(), json!({"frame": cmd})));
        } else {
            let replayed = api_dump(&t.f, &mut t.cf)?;
            problems.extend(same_dataset(&live, &replayed));
        }
    }
    Ok(CaseOut { problems, frames: total_frames, trace, effect: any_effect })
}


/// Several connections, each parked in a database of its own (0, 1, 15), take turns: the log has to say for every
/// command which database it ran in, whoever logged last. Menu per connection: 8 writes (direct, queued, scripted,
/// with a random outcome); every sequence of 2 (thorough 3) turns.
const INTERLEAVE_DBS: [usize; 3] = [0, 1, 15];

fn interleave_menu() -> Vec<(&'static str, &'static str, Vec<&'static str>)> {
    vec![
        ("SET", "direct", vec!["SET", "k", "v"]), ("RPUSH", "direct", vec!["RPUSH", "l", "x"]), ("SADD", "direct", vec!["SADD", "s", "a", "b", "c"]), ("SPOP", "direct", vec!["SPOP", "s"]),
        ("INCR in EXEC", "exec", vec!["INCR", "n"]), ("SET via EVAL", "eval", vec!["SET", "k", "scripted"]), ("DEL", "direct", vec!["DEL", "k"]), ("XADD *", "direct", vec!["XADD", "st", "*", "f", "v"]),
        // a SELECT queued in the transaction: the write runs in the next connection's database and the connection
        // selects its own one again before EXEC (a seeded change wrote queued SELECTs into the log verbatim, which
        // put the log's idea of the current database out of step with the replaying connection)
        ("SET behind a queued SELECT", "exec-select", vec!["SET", "k", "queued"]),
    ]
}

fn interleave_case(i: usize, len: usize) -> Vec<(usize, usize)> {
    let m = interleave_menu().len() * INTERLEAVE_DBS.len();
    let mut v = Vec::new();
    let mut x = i;
    for _ in 0..len {
        let a = x % m;
        x /= m;
        v.push((a / interleave_menu().len(), a % interleave_menu().len()));
    }
    v
}

fn run_interleaved(t: &mut Twin, turns: &[(usize, usize)]) -> Result<CaseOut, String> {
    t.reset()?;
    let menu = interleave_menu();
    let mut problems: Vec<(String, Value)> = Vec::new();
    let mut trace = Vec::new();
    let mut conns: Vec<Client> = Vec::new();
    for d in INTERLEAVE_DBS.iter() {
        let mut c = t.l.connect().map_err(|e| format!("connect: {:?}", e))?;
        let r = t.l.call(&mut c, &[b("SELECT"), b(&d.to_string())]).map_err(|e| format!("SELECT: {:?}", e))?;
        if r != R::ok() {
            return Err(format!("SELECT {} -> {}", d, resp::show(&r)));
        }
        conns.push(c);
    }
    let _ = t.appended()?;
    let before = api_dump(&t.l, &mut t.cl)?;
    for (ci, mi) in turns.iter() {
        let (_, path, cmd) = &menu[*mi];
        let cmd = to_bytes(cmd);
        let mut replies = Vec::new();
        let reqs: Vec<Vec<Bytes>> = if *path == "exec-select" {
            let own = INTERLEAVE_DBS[*ci].to_string();
            let there = INTERLEAVE_DBS[(*ci + 1) % INTERLEAVE_DBS.len()].to_string();
            vec![vec![b("MULTI")], vec![b("SELECT"), b(&there)], cmd.clone(), vec![b("SELECT"), b(&own)], vec![b("EXEC")]]
        } else {
            via(path, &cmd, &None)
        };
        for req in reqs {
            replies.push(t.l.call(&mut conns[*ci], &req).map_err(|e| format!("L {}: {:?}", resp::show_cmd(&req), e))?);
        }
        trace.push(format!("connection in db{} [{}] {} -> {}", INTERLEAVE_DBS[*ci], path, resp::show_cmd(&cmd), replies.iter().map(resp::class).collect::<Vec<_>>().join(",")));
    }
    let (frames, leftover, bad) = t.appended()?;
    trace.push(format!("appended: {}", frames.iter().map(|f| resp::show_cmd(f)).collect::<Vec<_>>().join(" ; ")));
    if leftover != 0 {
        problems.push(("log-ends-in-an-incomplete-frame".into(), json!({"leftover_bytes": leftover})));
    }
    if bad != 0 {
        problems.push(("log-holds-a-frame-that-is-not-a-command".into(), json!({})));
    }
    let live = api_dump(&t.l, &mut t.cl)?;
    let strip = |d: &Dump| -> Vec<((usize, Bytes), String, Vec<Vec<Bytes>>)> { d.iter().map(|(k, e)| (k.clone(), e.ty.clone(), e.val.clone())).collect() };
    let effect = strip(&before) != strip(&live);
    t.replay()?;
    if let Some(cmd) = t.blocked_on.take() {
        problems.push(("a-logged-command-blocks-when-the-log-is-re-executed".into(), json!({"frame": cmd})));
    } else {
        let replayed = api_dump(&t.f, &mut t.cf)?;
        problems.extend(same_dataset(&live, &replayed));
    }
    for mut c in conns {
        c.discard();
    }
    let _ = t.l.steps(2);
    Ok(CaseOut { problems, frames: frames.len(), trace, effect })
}

/// a blocked client being served: the pop done on its behalf must be in the log
fn run_blocking(t: &mut Twin, scenario: usize) -> Result<CaseOut, String> {
    t.reset()?;
    let mut problems: Vec<(String, Value)> = Vec::new();
    let mut trace = Vec::new();
    let mut bc = t.l.connect().map_err(|e| format!("connect: {:?}", e))?;
    let mut bc2 = t.l.connect().map_err(|e| format!("connect: {:?}", e))?;
    let scen: Vec<(&str, Vec<&str>)> = match scenario {
        0 => vec![("b", vec!["BLPOP", "k", "0"]), ("p", vec!["RPUSH", "k", "x"])],
        1 => vec![("b", vec!["BRPOP", "k", "0"]), ("p", vec!["RPUSH", "k", "x", "y"])],
        2 => vec![("b", vec!["BLPOP", "k", "k2", "0"]), ("p", vec!["LPUSH", "k2", "x"])],
        3 => vec![("b", vec!["BLPOP", "k", "0"]), ("b2", vec!["BRPOP", "k", "0"]), ("p", vec!["RPUSH", "k", "x", "y", "z"])],
        4 => vec![("b", vec!["BLPOP", "k", "0"]), ("p", vec!["MULTI"]), ("p", vec!["RPUSH", "k", "x"]), ("p", vec!["EXEC"])],
        5 => vec![("b", vec!["BLPOP", "k", "0"]), ("p", vec!["EVAL", "return redis.call('RPUSH', KEYS[1], 'x', 'y')", "1", "k"])],
        6 => vec![("p", vec!["RPUSH", "k", "x", "y"]), ("b", vec!["BLPOP", "k", "0"]), ("b2", vec!["BRPOP", "k", "0"])],
        _ => vec![("b", vec!["BLPOP", "k", "1"]), ("tick", vec![]), ("p", vec!["RPUSH", "k", "x"])],
    };
    for (who, cmd) in scen.iter() {
        match *who {
            "tick" => {
                vtime::tick(2_000_000_000).map_err(|_| "settle timeout".to_string())?;
                let _ = t.l.steps(4);
                trace.push("clock +2s (the blocking call times out)".into());
            }
            "p" => {
                let args: Vec<Bytes> = cmd.iter().map(|s| b(s)).collect();
                let r = t.call_l(&args)?;
                trace.push(format!("producer: {} -> {}", cmd.join(" "), resp::class(&r)));
            }
            w => {
                let c = if w == "b" { &mut bc } else { &mut bc2 };
                c.send(&resp::cmd(cmd));
                let _ = t.l.steps(3);
                trace.push(format!("{}: {}", w, cmd.join(" ")));
            }
        }
    }
    let _ = t.l.steps(6);
    for (w, c) in [("b", &mut bc), ("b2", &mut bc2)] {
        c.poll();
        while let Ok(Some(f)) = c.take_frame() {
            trace.push(format!("{} received {}", w, resp::show(&f)));
        }
    }
    let (frames, leftover, bad) = t.appended()?;
    trace.push(format!("log: {}", frames.iter().map(|f| resp::show_cmd(f)).collect::<Vec<_>>().join(" ; ")));
    if leftover != 0 || bad != 0 {
        problems.push(("log-not-a-sequence-of-complete-command-frames".into(), json!({"leftover": leftover, "bad": bad})));
    }
    bc.discard();
    bc2.discard();
    let _ = t.l.steps(3);
    let live = api_dump(&t.l, &mut t.cl)?;
    t.replay()?;
    if let Some(cmd) = t.blocked_on.take() {
        problems.push(("a-logged-command-blocks-when-the-log-is-re-executed".into(), json!({"frame": cmd})));
    } else {
        let replayed = api_dump(&t.f, &mut t.cf)?;
        for (p, d) in same_dataset(&live, &replayed) {
            problems.push((p, d));
        }
    }
    Ok(CaseOut { problems, frames: frames.len(), trace, effect: true })
}

fn to_bytes(c: &[&str]) -> Vec<Bytes> {
    c.iter().map(|s| b(s)).collect()
}

pub fn handle_factory() -> impl FnMut(&str, &Value, &mut WorkerIo) -> (Value, bool) {
    let mut twins: BTreeMap<String, Twin> = BTreeMap::new();
    move |_tier: &str, task: &Value, io: &mut WorkerIo| {
        let task = if let Some(r) = task.get("replay") { r["task"].clone() } else { task.clone() };
        let policy = task["policy"].as_str().unwrap_or("always").to_string();
        if !twins.contains_key(&policy) {
            let p = match policy.as_str() {
                "no" => FsyncPolicy::No,
                "everysec" => FsyncPolicy::EverySecond,
                _ => FsyncPolicy::Always,
            };
            match Twin::new(p) {
                Ok(t) => {
                    twins.insert(policy.clone(), t);
                }
                Err(e) => return (json!({"errors": [e]}), true),
            }
        }
        let cat = catalogue();
        let sts = states();
        let mut recs = Vec::new();
        let mut errors = Vec::new();
        let mut n = 0u64;
        let mut frames = 0u64;
        let mut with_effect = 0u64;
        let kind = task["kind"].as_str().unwrap_or("product").to_string();
        let mut cases: Vec<(Value, Vec<(String, Vec<Bytes>)>)> = Vec::new();
        match kind.as_str() {
            "product" => {
                // state x path x catalogue entries [a, b)
                let (a, bnd) = (task["range"][0].as_u64().unwrap_or(0) as usize, task["range"][1].as_u64().unwrap_or(0) as usize);
                let total = sts.len() * PATHS.len() * cat.len();
                for i in a..bnd.min(total) {
                    let (si, rest) = (i / (PATHS.len() * cat.len()), i % (PATHS.len() * cat.len()));
                    let (pi, ci) = (rest / cat.len(), rest % cat.len());
                    let mut steps: Vec<(String, Vec<Bytes>)> = Vec::new();
                    let setup_path = if PATHS[pi] == "db1" { "db1" } else { "direct" };
                    for c in sts[si].1.iter() {
                        steps.push((setup_path.to_string(), to_bytes(c)));
                    }
                    steps.push((PATHS[pi].to_string(), to_bytes(&cat[ci].1)));
                    cases.push((json!({"kind": "product", "i": i, "state": sts[si].0, "path": PATHS[pi], "class": cat[ci].0, "policy": policy}), steps));
                }
            }
            "pairs" => {
                // histories of two catalogue commands from the empty dataset (direct path), indices [a, b)
                let (a, bnd) = (task["range"][0].as_u64().unwrap_or(0) as usize, task["range"][1].as_u64().unwrap_or(0) as usize);
                let total = cat.len() * cat.len() * sts.len();
                for i in a..bnd.min(total) {
                    let (si, rest) = (i / (cat.len() * cat.len()), i % (cat.len() * cat.len()));
                    let (c1, c2) = (rest / cat.len(), rest % cat.len());
                    let mut steps: Vec<(String, Vec<Bytes>)> = Vec::new();
                    for c in sts[si].1.iter() {
                        steps.push(("direct".to_string(), to_bytes(c)));
                    }
                    steps.push(("direct".to_string(), to_bytes(&cat[c1].1)));
                    steps.push(("direct".to_string(), to_bytes(&cat[c2].1)));
                    cases.push((json!({"kind": "pairs", "i": i, "state": sts[si].0, "path": "direct", "class": format!("{} ; {}", cat[c1].0, cat[c2].0), "policy": policy}), steps));
                }
            }
            "blocking" | "interleave" => {}
            _ => errors.push(format!("unknown task kind {}", kind)),
        }
        let t = twins.get_mut(&policy).unwrap();
        if kind == "interleave" {
            let len = task["len"].as_u64().unwrap_or(2) as usize;
            let (a, bnd) = (task["range"][0].as_u64().unwrap_or(0) as usize, task["range"][1].as_u64().unwrap_or(0) as usize);
            for i in a..bnd {
                let turns = interleave_case(i, len);
                if i % 64 == 0 {
                    io.announce_case(json!({"kind": "interleave", "i": i, "len": len}));
                }
                let menu = interleave_menu();
                let class = turns.iter().map(|(c, m)| format!("db{}:{}", INTERLEAVE_DBS[*c], menu[*m].0)).collect::<Vec<_>>().join(" ; ");
                match run_interleaved(t, &turns) {
                    Ok(out) => {
                        n += 1;
                        frames += out.frames as u64;
                        if out.effect {
                            with_effect += 1;
                        }
                        for (p, d) in out.problems.iter() {
                            recs.push(json!({"case": {"kind": "interleave", "i": i, "len": len, "policy": policy, "state": "empty", "path": "interleaved connections", "class": class}, "problem": p, "detail": d, "trace": out.trace}));
                        }
                        if out.problems.is_empty() && i % 997 == 0 {
                            recs.push(json!({"case": {"kind": "interleave", "i": i}, "sample": true, "trace": out.trace}));
                        }
                    }
                    Err(e) => errors.push(format!("interleave {}: {}", i, e)),
                }
            }
        }
        if kind == "blocking" {
            for scenario in 0..8usize {
                io.announce_case(json!({"kind": "blocking", "scenario": scenario}));
                match run_blocking(t, scenario) {
                    Ok(out) => {
                        n += 1;
                        frames += out.frames as u64;
                        with_effect += 1;
                        for (p, d) in out.problems.iter() {
                            recs.push(json!({"case": {"kind": "blocking", "scenario": scenario, "policy": policy, "state": "blocked client", "path": "wake-up", "class": format!("scenario {}", scenario)}, "problem": p, "detail": d, "trace": out.trace}));
                        }
                        if out.problems.is_empty() && scenario == 0 {
                            recs.push(json!({"case": {"kind": "blocking", "scenario": scenario}, "sample": true, "trace": out.trace}));
                        }
                    }
                    Err(e) => errors.push(format!("blocking scenario {}: {}", scenario, e)),
                }
            }
        }
        for (idx, (case, steps)) in cases.iter().enumerate() {
            if idx % 32 == 0 {
                io.announce_case(case.clone());
            }
            match run_steps(t, steps) {
                Ok(out) => {
                    n += 1;
                    frames += out.frames as u64;
                    if out.effect {
                        with_effect += 1;
                    }
                    for (p, d) in out.problems.iter() {
                        recs.push(json!({"case": case, "problem": p, "detail": d, "trace": out.trace}));
                    }
                    if out.problems.is_empty() && case["i"].as_u64().unwrap_or(1) % 499 == 0 {
                        recs.push(json!({"case": case, "sample": true, "trace": out.trace}));
                    }
                }
                Err(e) => {
                    errors.push(format!("{}: {}", case, e));
                    // start over with fresh servers
                    twins.remove(&policy);
                    return (json!({"recs": recs, "errors": errors, "n": n, "frames": frames, "with_effect": with_effect}), true);
                }
            }
        }
        let recycle = twins.values().map(|t| t.restarts).sum::<usize>() > 40;
        (json!({"recs": recs, "errors": errors, "n": n, "frames": frames, "with_effect": with_effect}), recycle)
    }
}

pub fn parent(tier: &str) -> i32 {
    let thorough = tier == "thorough";
    let mut report = RunReport::new("C11", tier, "model_checking");
    let pool = Pool::new("C11", tier, super::e1common::nworkers());
    let cat = catalogue();
    let sts = states();
    let mut tasks = Vec::new();
    let policies: Vec<&str> = if thorough { vec!["always", "no", "everysec"] } else { vec!["always"] };
    for policy in policies.iter() {
        let total = sts.len() * PATHS.len() * cat.len();
        let chunk = 100usize;
        let mut a = 0;
        while a < total {
            tasks.push(json!({"kind": "product", "policy": policy, "range": [a, (a + chunk).min(total)]}));
            a += chunk;
        }
        tasks.push(json!({"kind": "blocking", "policy": policy}));
    }
    {
        // pairs from the empty dataset (quick) / from every state (thorough)
        let total = cat.len() * cat.len() * if thorough { sts.len() } else { 1 };
        let chunk = 150usize;
        let mut a = 0;
        while a < total {
            tasks.push(json!({"kind": "pairs", "policy": if thorough { "always" } else { "no" }, "range": [a, (a + chunk).min(total)]}));
            a += chunk;
        }
    }
    {
        // interleaved connections in databases 0, 1, 15
        let len = if thorough { 3usize } else { 2 };
        let m = interleave_menu().len() * INTERLEAVE_DBS.len();
        let total = m.pow(len as u32);
        let chunk = if thorough { 300usize } else { 40 };
        let mut a = 0;
        while a < total {
            tasks.push(json!({"kind": "interleave", "policy": if thorough { "always" } else { "everysec" }, "len": len, "range": [a, (a + chunk).min(total)]}));
            a += chunk;
        }
    }
    let out = pool.map(tasks.clone(), 0);
    let mut histories = 0u64;
    let mut frames = 0u64;
    let mut with_effect = 0u64;
    let mut samples = Vec::new();
    for (t, o) in tasks.iter().zip(out.into_iter()) {
        match o {
            Outcome::Done(v) => {
                for e in v["errors"].as_array().cloned().unwrap_or_default() {
                    report.machinery_errors.push(format!("{}", e));
                }
                histories += v["n"].as_u64().unwrap_or(0);
                frames += v["frames"].as_u64().unwrap_or(0);
                with_effect += v["with_effect"].as_u64().unwrap_or(0);
                for r in v["recs"].as_array().cloned().unwrap_or_default() {
                    if r["sample"].as_bool().unwrap_or(false) {
                        if samples.len() < 4 {
                            samples.push(json!({"case": r["case"], "trace": r["trace"]}));
                        }
                        continue;
                    }
                    let c = &r["case"];
                    let kind = c["kind"].as_str().unwrap_or("");
                    let replay_task = match kind {
                        "blocking" => json!({"kind": "blocking", "policy": c["policy"]}),
                        "interleave" => json!({"kind": "interleave", "policy": c["policy"], "len": c["len"], "range": [c["i"], c["i"].as_u64().map(|x| x + 1)]}),
                        k => json!({"kind": k, "policy": c["policy"], "range": [c["i"], c["i"].as_u64().map(|x| x + 1)]}),
                    };
                    report.deviations.push(Deviation {
                        property: "C11".into(),
                        sig: format!("C11|{}|{}|state={}|{}", c["path"].as_str().unwrap_or(""), c["class"].as_str().unwrap_or(""), c["state"].as_str().unwrap_or(""), r["problem"].as_str().unwrap_or("")),
                        replay: json!({"kind": kind, "task": replay_task, "case": c, "trace": r["trace"], "detail": r["detail"]}),
                    });
                }
            }
            Outcome::Died { status, case } => report.machinery_errors.push(format!("worker died on {}: {} {:?}", t, status, case)),
        }
    }
    if samples.is_empty() {
        samples.push(json!({"note": "no sample"}));
    }
    println!("  c11: histories={} (with an effect on the dataset: {}) frames-decoded={}", histories, with_effect, frames);
    report.coverage = json!({
        "states": histories.max(1), "transitions": frames.max(1), "traces_validated_against_impl": histories, "samples": samples, "exhaustive": true,
        "histories_with_effect": with_effect,
        "explanation": format!("states = histories executed on the real appendonly server and re-executed from its log on the real twin; transitions = command frames decoded from the log. Complete product: {} key states x {} paths (direct, MULTI/EXEC, EVAL forwarding script, EVALSHA of it, the same in database 1, EVALSHA with the digest in upper case) x {} catalogue entries (every write command of the dispatch table in effective, no-op and refused variants, commands with random outcomes, scripts with one / two / random / no writes), plus every ordered pair of catalogue entries from the empty dataset (thorough: from every key state) and 8 blocking scenarios (a blocked BLPOP/BRPOP served by RPUSH/LPUSH, by a push inside EXEC and from a script, two waiters, two keys, served at once, timed out), plus every sequence of 2 (thorough 3) turns of three connections parked in databases 0, 1 and 15 over a menu of 9 writes (direct, queued, behind a queued SELECT, scripted, random outcome). After every step: appended bytes decode into whole command arrays with nothing left over; a step that changed the dataset appended at least one and at most one command image; a command with a random outcome is not logged verbatim. At the end: FLUSHALL + SCRIPT FLUSH on the twin, the whole file re-executed over TCP in order, API-level dump of all 16 databases equal (values; TTL presence). fsync policy: the product under always (thorough: also under no and everysec); quick runs the pairs under no and the interleavings under everysec, so that every policy's writer is read back after every step on every change.", sts.len(), PATHS.len(), cat.len()),
    });
    report.assumptions = vec![
        "the clock does not move inside a history: expiry is not a command and the statement compares TTL presence only".into(),
        "start-up replay is a no-op in the code; re-execution is done by the checker over TCP on a second real server, as the property's observation column says".into(),
        "consumer-group state is not part of the compared dataset (stream entries are)".into(),
    ];
    report.finish()
}
