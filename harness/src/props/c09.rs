//! C09 — an RDB snapshot restores exactly the dataset that was saved.
//! Complete enumeration of dataset families (type x size around the length-encoding boundaries x content x
//! database x TTL x downtime, score and stream-id shapes, multi-key layouts) plus every dataset reached by
//! short command histories of the data-type alphabets: API-level dump -> SAVE -> stop the real server ->
//! advance the virtual clock by the downtime -> start a new real server on the same directory -> dump -> compare.

use crate::pool::{Outcome, Pool, WorkerIo};
use crate::report::{Deviation, RunReport};
use crate::resp::{self, R};
use crate::srv::{Client, Srv, SrvOpts};
use crate::vtime;
use crate::explore::e1::World;
use serde_json::{json, Value};
use std::collections::{BTreeMap, BTreeSet};

type Bytes = Vec<u8>;
pub const MARKER: &[u8] = b"__FERROUS_STREAM_MARKER__";
pub const TYPES: [&str; 6] = ["string", "list", "set", "hash", "zset", "stream"];
const MS: u64 = 1_000_000;

fn b(s: &str) -> Bytes {
    s.as_bytes().to_vec()
}

// ------------------------------------------------------------------ canonical API-level dump

#[derive(Clone, Debug, PartialEq)]
pub struct Entry {
    pub ty: String,
    /// string/list/set/hash/zset: one inner vector (sets sorted, hash pairs sorted by field);
    /// stream: one inner vector per entry: id, then field/value pairs sorted by field
    pub val: Vec<Vec<Bytes>>,
    pub pttl: i64,
}

pub type Dump = BTreeMap<(usize, Bytes), Entry>;

fn call_big(srv: &Srv, c: &mut Client, args: &[Bytes]) -> Result<R, String> {
    let bytes = resp::cmd(args);
    srv.send_all(c, &bytes).map_err(|e| format!("send {}: {:?}", resp::show_cmd(args), e))?;
    srv.await_reply(c, 600 + bytes.len() / 2048).map_err(|e| format!("{}: {:?}", resp::show_cmd(args), e))
}

fn bulks(r: &R, what: &str) -> Result<Vec<Bytes>, String> {
    match r {
        R::Arr(v) => v.iter().map(|x| match x {
            R::Bulk(b) => Ok(b.clone()),
            o => Err(format!("unexpected reply: {}: element {}", what, resp::show(o))),
        }).collect(),
        R::NilArr => Ok(vec![]),
        o => Err(format!("unexpected reply: {}: {}", what, resp::show(o))),
    }
}

pub fn api_dump(srv: &Srv, c: &mut Client) -> Result<Dump, String> {
    let mut d = Dump::new();
    for db in 0..16usize {
        let r = call_big(srv, c, &[b("SELECT"), b(&db.to_string())])?;
        if r != R::ok() {
            return Err(format!("SELECT {} -> {}", db, resp::show(&r)));
        }
        let keys = bulks(&call_big(srv, c, &[b("KEYS"), b("*")])?, "KEYS")?;
        for k in keys {
            let ty = match call_big(srv, c, &[b("TYPE"), k.clone()])? {
                R::Simple(s) => String::from_utf8_lossy(&s).to_string(),
                o => return Err(format!("unexpected reply: TYPE -> {}", resp::show(&o))),
            };
            let val: Vec<Vec<Bytes>> = match ty.as_str() {
                "string" => match call_big(srv, c, &[b("GET"), k.clone()])? {
                    R::Bulk(v) => vec![vec![v]],
                    o => return Err(format!("unexpected reply: GET -> {}", resp::show(&o))),
                },
                "list" => vec![bulks(&call_big(srv, c, &[b("LRANGE"), k.clone(), b("0"), b("-1")])?, "LRANGE")?],
                "set" => {
                    let mut v = bulks(&call_big(srv, c, &[b("SMEMBERS"), k.clone()])?, "SMEMBERS")?;
                    v.sort();
                    vec![v]
                }
                "hash" => {
                    let v = bulks(&call_big(srv, c, &[b("HGETALL"), k.clone()])?, "HGETALL")?;
                    let mut pairs: Vec<(Bytes, Bytes)> = v.chunks(2).map(|p| (p[0].clone(), p.get(1).cloned().unwrap_or_default())).collect();
                    pairs.sort();
                    vec![pairs.into_iter().flat_map(|(f, v)| vec![f, v]).collect()]
                }
                "zset" => vec![bulks(&call_big(srv, c, &[b("ZRANGE"), k.clone(), b("0"), b("-1"), b("WITHSCORES")])?, "ZRANGE")?],
                "stream" => {
                    let r = call_big(srv, c, &[b("XRANGE"), k.clone(), b("-"), b("+")])?;
                    let mut out = Vec::new();
                    let entries = match &r {
                        R::Arr(v) => v.clone(),
                        R::NilArr => vec![],
                        o => return Err(format!("unexpected reply: XRANGE -> {}", resp::show(o))),
                    };
                    for e in entries {
                        match e {
                            R::Arr(p) if p.len() == 2 => {
                                let id = match &p[0] {
                                    R::Bulk(b) => b.clone(),
                                    o => return Err(format!("unexpected reply: XRANGE id {}", resp::show(o))),
                                };
                                let fv = bulks(&p[1], "XRANGE fields")?;
                                let mut pairs: Vec<(Bytes, Bytes)> = fv.chunks(2).map(|p| (p[0].clone(), p.get(1).cloned().unwrap_or_default())).collect();
                                pairs.sort();
                                let mut row = vec![id];
                                row.extend(pairs.into_iter().flat_map(|(f, v)| vec![f, v]));
                                out.push(row);
                            }
                            o => return Err(format!("unexpected reply: XRANGE entry {}", resp::show(&o))),
                        }
                    }
                    out
                }
                other => return Err(format!("unexpected reply: TYPE -> {}", other)),
            };
            let pttl = match call_big(srv, c, &[b("PTTL"), k.clone()])? {
                R::Int(i) => i,
                o => return Err(format!("unexpected reply: PTTL -> {}", resp::show(&o))),
            };
            d.insert((db, k), Entry { ty, val, pttl });
        }
    }
    let _ = call_big(srv, c, &[b("SELECT"), b("0")])?;
    Ok(d)
}

fn ids_increasing(rows: &[Vec<Bytes>]) -> bool {
    let ids: Vec<(u64, u64)> = rows.iter().filter_map(|r| r.first()).filter_map(|id| {
        let s = String::from_utf8_lossy(id).to_string();
        let mut it = s.split('-');
        Some((it.next()?.parse().ok()?, it.next()?.parse().ok()?))
    }).collect();
    ids.len() == rows.len() && ids.windows(2).all(|w| w[0] < w[1])
}

fn short(v: &[Vec<Bytes>]) -> String {
    let n: usize = v.iter().map(|x| x.len()).sum();
    let mut s = format!("{} row(s), {} item(s): ", v.len(), n);
    let mut shown = 0;
    'o: for row in v {
        s.push('[');
        for it in row {
            if shown >= 8 {
                s.push_str("...");
                break 'o;
            }
            s.push_str(&resp::show_bytes(it));
            s.push(' ');
            shown += 1;
        }
        s.push(']');
    }
    s
}

/// compare the dump before the save with the dump after the restart; `down_ms` = virtual downtime
pub fn compare(d0: &Dump, d1: &Dump, down_ms: i64) -> Vec<(String, Value)> {
    let mut problems = Vec::new();
    let keys: BTreeSet<&(usize, Bytes)> = d0.keys().chain(d1.keys()).collect();
    for k in keys {
        let name = format!("db{} {}", k.0, resp::show_bytes(&k.1));
        match (d0.get(k), d1.get(k)) {
            (Some(a), None) => {
                if a.pttl >= 0 && a.pttl - down_ms <= 0 {
                    continue; // deadline passed during the downtime (or exactly at it: don't care)
                }
                let what = if a.ty == "stream" && a.val.is_empty() {
                    "empty-stream-key-missing-after-restart".to_string()
                } else if a.ty == "list" && a.val.first().and_then(|r| r.first()).map(|e| e == MARKER).unwrap_or(false) {
                    "list-headed-by-the-stream-marker-missing-after-restart".to_string()
                } else {
                    format!("{}-key-missing-after-restart", a.ty)
                };
                problems.push((what, json!({"key": name, "before": short(&a.val), "pttl_before": a.pttl})));
            }
            (None, Some(z)) => problems.push(("key-from-nowhere-after-restart".to_string(), json!({"key": name, "after": short(&z.val)}))),
            (Some(a), Some(z)) => {
                if a.pttl >= 0 && a.pttl - down_ms < 0 {
                    problems.push((format!("{}-key-whose-deadline-passed-during-the-downtime-is-present{}", a.ty, if z.pttl == -1 { "-without-ttl" } else { "" }), json!({"key": name, "pttl_before": a.pttl, "downtime_ms": down_ms, "pttl_after": z.pttl})));
                    continue;
                }
                if a.ty != z.ty {
                    let headed = a.ty == "list" && z.ty == "stream" && a.val.first().and_then(|r| r.first()).map(|e| e == MARKER).unwrap_or(false);
                    problems.push((if headed { "list-headed-by-the-stream-marker-loads-as-a-stream".to_string() } else { format!("type-changed-{}-to-{}", a.ty, z.ty) }, json!({"key": name, "before": short(&a.val), "after": short(&z.val)})));
                    continue;
                }
                if a.val != z.val && a.ty == "stream" && !ids_increasing(&a.val) {
                    // only reachable through C15's known finding (XADD * after an id with sequence u64::MAX)
                    problems.push(("stream-whose-ids-are-not-increasing-loses-entries".to_string(), json!({"key": name, "before": short(&a.val), "after": short(&z.val)})));
                } else if a.val != z.val {
                    let what = if a.val.iter().map(|r| r.len()).sum::<usize>() != z.val.iter().map(|r| r.len()).sum::<usize>() { "element-count" } else { "content" };
                    problems.push((format!("{}-value-differs-{}", a.ty, what), json!({"key": name, "before": short(&a.val), "after": short(&z.val)})));
                }
                match (a.pttl, z.pttl) {
                    (-1, -1) => {}
                    (-1, _) => problems.push((format!("{}-ttl-from-nowhere", a.ty), json!({"key": name, "pttl_after": z.pttl}))),
                    (p, -1) if p >= 0 => {
                        if p - down_ms == 0 {
                            continue;
                        }
                        problems.push((format!("{}-ttl-lost", a.ty), json!({"key": name, "pttl_before": p})))
                    }
                    (p, q) => {
                        if (p - down_ms - q).abs() > 1 {
                            problems.push((format!("{}-ttl-differs", a.ty), json!({"key": name, "pttl_before": p, "downtime_ms": down_ms, "pttl_after": q})));
                        }
                    }
                }
            }
            (None, None) => {}
        }
    }
    problems
}

// ------------------------------------------------------------------ dataset construction

fn pat(len: usize, salt: u8) -> Bytes {
    (0..len).map(|j| b'a' + ((j as u8).wrapping_add(salt) % 26)).collect()
}

/// commands that create `key` of type `ty` holding `elems` (for hash/stream: field = element, value = element + "v";
/// zset: score = index / 2 - 3)
pub fn build_key(ty: &str, key: &[u8], elems: &[Bytes]) -> Vec<Vec<Bytes>> {
    let mut out = Vec::new();
    match ty {
        "string" => out.push(vec![b("SET"), key.to_vec(), elems.first().cloned().unwrap_or_default()]),
        "list" | "set" => {
            for ch in elems.chunks(4000) {
                let mut c = vec![b(if ty == "list" { "RPUSH" } else { "SADD" }), key.to_vec()];
                c.extend(ch.iter().cloned());
                out.push(c);
            }
        }
        "hash" => {
            for ch in elems.chunks(2000) {
                let mut c = vec![b("HSET"), key.to_vec()];
                for e in ch {
                    c.push(e.clone());
                    let mut v = e.clone();
                    v.push(b'v');
                    c.push(v);
                }
                out.push(c);
            }
        }
        "zset" => {
            let mut i = 0usize;
            for ch in elems.chunks(2000) {
                let mut c = vec![b("ZADD"), key.to_vec()];
                for e in ch {
                    c.push(b(&format!("{}", i as f64 / 2.0 - 3.0)));
                    c.push(e.clone());
                    i += 1;
                }
                out.push(c);
            }
        }
        "stream" => {
            for (i, e) in elems.iter().enumerate() {
                let mut v = e.clone();
                v.push(b'v');
                out.push(vec![b("XADD"), key.to_vec(), b(&format!("{}-{}", i / 3 + 1, i % 3)), e.clone(), v]);
            }
        }
        _ => {}
    }
    out
}

/// a case descriptor -> (database, command) list
pub fn build(case: &Value) -> Vec<(usize, Vec<Bytes>)> {
    let fam = case["fam"].as_str().unwrap_or("");
    let ty = case["type"].as_str().unwrap_or("string");
    let n = case["n"].as_u64().unwrap_or(1) as usize;
    let mut out: Vec<(usize, Vec<Bytes>)> = Vec::new();
    let mut on = |db: usize, cmds: Vec<Vec<Bytes>>| {
        for c in cmds {
            out.push((db, c));
        }
    };
    match fam {
        "size" => {
            let elems: Vec<Bytes> = match case["mode"].as_str().unwrap_or("count") {
                "count" => (0..n).map(|i| b(&format!("e{}", i))).collect(),
                _ => {
                    if ty == "string" {
                        vec![pat(n, 0)]
                    } else {
                        vec![pat(n, 0), pat(n, 1)]
                    }
                }
            };
            on(0, build_key(ty, b"k", &elems));
            on(0, vec![vec![b("SET"), b("bystander"), b("x")]]);
        }
        "keylen" => {
            on(0, build_key(ty, &pat(n, 3), &[b("v1"), b("v2")]));
        }
        "content" => {
            let all: Bytes = (0..=255u8).collect();
            let (key, elems): (Bytes, Vec<Bytes>) = match case["content"].as_str().unwrap_or("") {
                "bin256" => (all.clone(), vec![all.clone(), all.iter().rev().cloned().collect()]),
                "empty-element" => (b("k"), vec![Vec::new(), b("x")]),
                "only-empty-element" => (b("k"), vec![Vec::new()]),
                "crlf" => (b("k\r\nk"), vec![b("\r\n"), b("$-1\r\n"), b("*0\r\n")]),
                "marker-first" => (b("k"), vec![MARKER.to_vec(), b("1-1"), b("1"), b("f"), b("v")]),
                "marker-only" => (b("k"), vec![MARKER.to_vec()]),
                "marker-second" => (b("k"), vec![b("x"), MARKER.to_vec()]),
                "marker-key" => (MARKER.to_vec(), vec![b("x"), b("y")]),
                "invalid-utf8" => (vec![0xff, 0xfe, 0x80], vec![vec![0xc3, 0x28], vec![0xf0, 0x28, 0x8c, 0xbc], vec![0x80]]),
                "numeric" => (b("12345"), vec![b("-1"), b("0"), b("9223372036854775807"), b("3.5")]),
                _ => (b("k"), vec![b("x")]),
            };
            on(0, build_key(ty, &key, &elems));
        }
        "dbttl" => {
            let db = case["db"].as_u64().unwrap_or(0) as usize;
            on(db, build_key(ty, b"k", &[b("a"), b("b"), b("c")]));
            on(db, build_key(ty, b"other", &[b("a")]));
            if let Some(t) = case["ttl_ms"].as_u64() {
                match case["how"].as_str().unwrap_or("pexpire") {
                    "expire-s" => on(db, vec![vec![b("EXPIRE"), b("k"), b(&format!("{}", t / 1000))]]),
                    _ => on(db, vec![vec![b("PEXPIRE"), b("k"), b(&t.to_string())]]),
                }
            }
        }
        "multi" => match case["layout"].as_str().unwrap_or("") {
            "six-types-one-name" => {
                for (i, t) in TYPES.iter().enumerate() {
                    let db = [0usize, 1, 2, 7, 14, 15][i];
                    on(db, build_key(t, b"same", &[b("a"), b("b")]));
                    if i % 2 == 1 {
                        on(db, vec![vec![b("PEXPIRE"), b("same"), b(&format!("{}", 1000 * (i + 1)))]]);
                    }
                }
            }
            "all-16-dbs" => {
                for db in 0..16usize {
                    on(db, build_key(TYPES[db % 6], b(&format!("k{}", db)).as_slice(), &[b(&format!("v{}", db))]));
                    if db % 3 == 0 {
                        on(db, vec![vec![b("PEXPIRE"), b(&format!("k{}", db)), b("100000")]]);
                    }
                }
            }
            "ttl-interleaved" => {
                // 24 keys of all types in one database; every second one has a TTL, of which every second one
                // is shorter than the downtime: the expiry opcode must stick to its own key only
                for i in 0..24usize {
                    let key = b(&format!("key:{:02}", i));
                    on(3, build_key(TYPES[i % 6], &key, &[b(&format!("a{}", i)), b("b")]));
                    if i % 2 == 0 {
                        let t = if i % 4 == 0 { 50 } else { 500_000 + i as u64 };
                        on(3, vec![vec![b("PEXPIRE"), key, b(&t.to_string())]]);
                    }
                }
            }
            "many-keys" => {
                for i in 0..n {
                    on(0, vec![vec![b("SET"), b(&format!("s{}", i)), b(&format!("v{}", i))]]);
                }
            }
            _ => {}
        },
        "scores" => {
            let scores = ["0", "-0", "1", "-1", "inf", "-inf", "1e-300", "1e300", "0.30000000000000004", "5e-324", "1.7976931348623157e308", "-1.7976931348623157e308", "3.141592653589793", "9007199254740993", "0.1"];
            let mut c = vec![b("ZADD"), b("z")];
            for (i, s) in scores.iter().enumerate() {
                c.push(b(s));
                c.push(b(&format!("m{:02}", i)));
            }
            // ties: lexicographic order within one score
            for m in ["tie-b", "tie-a", "tie-c"] {
                c.push(b("7"));
                c.push(b(m));
            }
            on(0, vec![c]);
        }
        "stream" => {
            let k = b("s");
            let x = |id: &str, fv: &[&str]| {
                let mut c = vec![b("XADD"), b("s"), b(id)];
                c.extend(fv.iter().map(|s| b(s)));
                c
            };
            let cmds: Vec<Vec<Bytes>> = match case["shape"].as_str().unwrap_or("") {
                "min-id" => vec![x("0-1", &["f", "v"])],
                "max-id" => vec![x("18446744073709551615-18446744073709551615", &["f", "v"])],
                "big-ids" => vec![x("0-1", &["f", "v"]), x("1-0", &["f", "v"]), x("4294967296-4294967296", &["f", "v"]), x("18446744073709551615-0", &["f", "v"]), x("18446744073709551615-18446744073709551615", &["f", "v"])],
                "multi-field" => vec![x("1-1", &["a", "1", "b", "2", "c", "3", "d", "4"]), x("1-2", &["z", "", "", "z"])],
                "deleted-middle" => vec![x("1-1", &["f", "1"]), x("2-1", &["f", "2"]), x("3-1", &["f", "3"]), vec![b("XDEL"), k.clone(), b("2-1")]],
                "deleted-top" => vec![x("1-1", &["f", "1"]), x("2-1", &["f", "2"]), vec![b("XDEL"), k.clone(), b("2-1")]],
                "emptied" => vec![x("1-1", &["f", "1"]), vec![b("XDEL"), k.clone(), b("1-1")]],
                "trimmed" => vec![x("1-1", &["f", "1"]), x("2-1", &["f", "2"]), x("3-1", &["f", "3"]), vec![b("XTRIM"), k.clone(), b("MAXLEN"), b("1")]],
                "numeric-looking" => vec![x("1-1", &["1-1", "2", "2", "1-1"]), x("2-2", &["0", "0"])],
                "with-group" => vec![x("1-1", &["f", "1"]), x("2-1", &["f", "2"]), vec![b("XGROUP"), b("CREATE"), k.clone(), b("g"), b("0")], vec![b("XREADGROUP"), b("GROUP"), b("g"), b("c"), b("COUNT"), b("1"), b("STREAMS"), k.clone(), b(">")]],
                _ => vec![],
            };
            on(0, cmds);
        }
        _ => {}
    }
    out
}

const RESAVE_LAYOUTS: usize = 5;

fn resave_layout(i: usize) -> Option<Value> {
    match i {
        0 => None, // the empty dataset
        1 => Some(json!({"fam": "dbttl", "type": "string", "db": 0, "ttl_ms": null, "down_ms": 0})),
        2 => Some(json!({"fam": "dbttl", "type": "list", "db": 15, "ttl_ms": 3_600_000u64, "down_ms": 0})),
        3 => Some(json!({"fam": "multi", "layout": "six-types-one-name", "down_ms": 0})),
        _ => Some(json!({"fam": "multi", "layout": "all-16-dbs", "down_ms": 0})),
    }
}

pub fn cases(thorough: bool) -> Vec<Value> {
    let mut out = Vec::new();
    let sizes: Vec<usize> = if thorough { vec![0, 1, 2, 62, 63, 64, 65, 255, 256, 16382, 16383, 16384, 16385, 65535, 65536, 70000] } else { vec![0, 1, 63, 64, 16383, 16384] };
    for ty in TYPES {
        for mode in ["count", "len"] {
            for &n in sizes.iter() {
                if mode == "count" && (n == 0 || (ty == "string" && n != 1)) {
                    continue;
                }
                out.push(json!({"fam": "size", "type": ty, "mode": mode, "n": n}));
            }
        }
    }
    for &n in sizes.iter() {
        if n >= 1 {
            for ty in if thorough { TYPES.to_vec() } else { vec!["string", "list"] } {
                out.push(json!({"fam": "keylen", "type": ty, "n": n}));
            }
        }
    }
    for ty in TYPES {
        for content in ["bin256", "empty-element", "only-empty-element", "crlf", "marker-first", "marker-only", "marker-second", "marker-key", "invalid-utf8", "numeric"] {
            out.push(json!({"fam": "content", "type": ty, "content": content}));
        }
    }
    let downs: Vec<u64> = vec![0, 100, 20_000];
    let ttls: Vec<Option<u64>> = vec![None, Some(50), Some(10_000), Some(3_600_000)];
    for ty in TYPES {
        for db in [0usize, 1, 15] {
            for ttl in ttls.iter() {
                for &down in downs.iter() {
                    if !thorough && db == 1 && ty != "string" {
                        continue;
                    }
                    out.push(json!({"fam": "dbttl", "type": ty, "db": db, "ttl_ms": ttl, "down_ms": down}));
                }
            }
        }
        out.push(json!({"fam": "dbttl", "type": ty, "db": 0, "ttl_ms": 100_000, "how": "expire-s", "down_ms": 1000}));
    }
    for layout in ["six-types-one-name", "all-16-dbs", "ttl-interleaved"] {
        for &down in downs.iter() {
            out.push(json!({"fam": "multi", "layout": layout, "down_ms": down}));
        }
    }
    // loading takes time: 3 ms (and 40 ms) of virtual time pass before every step of the loader
    for layout in ["six-types-one-name", "all-16-dbs", "ttl-interleaved"] {
        for tick in [3u64, 40] {
            out.push(json!({"fam": "multi", "layout": layout, "down_ms": 0, "load_tick_ms": tick}));
            out.push(json!({"fam": "multi", "layout": layout, "down_ms": 100, "load_tick_ms": tick}));
        }
    }
    for ty in TYPES {
        for ttl in [50u64, 10_000] {
            out.push(json!({"fam": "dbttl", "type": ty, "db": 15, "ttl_ms": ttl, "down_ms": 0, "load_tick_ms": 7}));
        }
    }
    for n in if thorough { vec![63usize, 64, 16383, 16384, 70000] } else { vec![63, 64, 1000] } {
        out.push(json!({"fam": "multi", "layout": "many-keys", "n": n}));
    }
    // a dump of an earlier dataset is already in the directory when the dataset to be compared is saved: every ordered
    // pair of small layouts (incl. the empty dataset) x how the first became the second (a seeded "nothing to dump"
    // shortcut for an empty dataset left the previous dump in place, and the deleted keys came back after the restart)
    for first in 0..RESAVE_LAYOUTS {
        for second in 0..RESAVE_LAYOUTS {
            for how in ["flushall", "delete-each", "on-top"] {
                out.push(json!({"fam": "resave", "first": first, "second": second, "how": how}));
            }
        }
    }
    out.push(json!({"fam": "scores"}));
    for shape in ["min-id", "max-id", "big-ids", "multi-field", "deleted-middle", "deleted-top", "emptied", "trimmed", "numeric-looking", "with-group"] {
        out.push(json!({"fam": "stream", "shape": shape}));
    }
    out
}

fn variant(case: &Value) -> String {
    let fam = case["fam"].as_str().unwrap_or("");
    match fam {
        "size" => format!("{} {}", case["type"].as_str().unwrap_or(""), case["mode"].as_str().unwrap_or("")),
        "keylen" => format!("{}", case["type"].as_str().unwrap_or("")),
        "content" => format!("{} {}", case["type"].as_str().unwrap_or(""), case["content"].as_str().unwrap_or("")),
        "dbttl" => {
            let ttl = case["ttl_ms"].as_u64();
            let down = case["down_ms"].as_u64().unwrap_or(0);
            format!("{} {}", case["type"].as_str().unwrap_or(""), match ttl {
                None => "no-ttl",
                Some(t) if t < down => "ttl-shorter-than-downtime",
                Some(_) => "ttl-longer-than-downtime",
            })
        }
        "multi" => format!("{}{}", case["layout"].as_str().unwrap_or(""), if case["load_tick_ms"].as_u64().unwrap_or(0) > 0 { " slow-load" } else { "" }),
        "stream" => case["shape"].as_str().unwrap_or("").to_string(),
        "hist" => case["spec"].as_str().unwrap_or("").to_string(),
        "resave" => format!("{}:{}->{}", case["how"].as_str().unwrap_or(""), if case["first"] == 0 { "empty" } else { "data" }, if case["second"] == 0 { "empty" } else { "data" }),
        _ => String::new(),
    }
}

// ------------------------------------------------------------------ the procedure

pub struct Runner {
    pub restarts: usize,
    world: Option<(String, Box<dyn World>)>,
}

pub const HIST_SPECS: [&str; 14] = ["c01-core", "c02-string", "c02-list", "c02-set", "c02-hash", "c02-zset", "c02-stream", "c03-list", "c03-set", "c03-hash", "c03-mixed", "c04-cmds", "c15-stream", "c01-full"];

pub fn world_for(spec: &str) -> Option<Box<dyn World>> {
    super::c01::make_world(spec)
        .or_else(|| super::c02::make_world(spec))
        .or_else(|| super::c03::make_world(spec))
        .or_else(|| super::c04::make_world(spec))
        .or_else(|| super::c15::make_world(spec))
}

pub struct RoundTrip {
    pub problems: Vec<(String, Value)>,
    pub keys_before: usize,
    pub dump_bytes: u64,
    pub nontrivial: bool,
}

impl Runner {
    pub fn new() -> Runner {
        vtime::enable();
        Runner { restarts: 0, world: None }
    }

    /// SAVE on the running server `srv` (its dataset already built), stop it, let `down_ms` pass, start a new
    /// server on the same directory and compare the API-level dumps. Consumes the server.
    pub fn round_trip(&mut self, srv: Srv, c: Client, down_ms: u64) -> Result<RoundTrip, String> {
        self.round_trip_slow(srv, c, down_ms, 0)
    }

    /// `load_tick_ms` > 0: loading takes time - the virtual clock moves by that much before every step of the loader
    /// (under a frozen clock a loader that anchors the deadlines to a clock reading taken once, at the start of the
    /// load, is indistinguishable from one that reads the clock per key; a seeded change of that kind made every
    /// deadline late by the time the load had taken so far)
    pub fn round_trip_slow(&mut self, srv: Srv, mut c: Client, down_ms: u64, load_tick_ms: u64) -> Result<RoundTrip, String> {
        let d0 = api_dump(&srv, &mut c)?;
        let r = call_big(&srv, &mut c, &[b("SAVE")])?;
        let mut problems: Vec<(String, Value)> = Vec::new();
        if r != R::ok() {
            problems.push(("save-refused".into(), json!({"reply": resp::show(&r)})));
        }
        c.discard();
        let dir = srv.stop();
        let dump_bytes = std::fs::metadata(dir.join("dump.rdb")).map(|m| m.len()).unwrap_or(0);
        if down_ms > 0 {
            vtime::tick(down_ms * MS).map_err(|_| "settle timeout during the downtime".to_string())?;
        }
        let opts = SrvOpts { dir: Some(dir.clone()), ..SrvOpts::default() };
        crate::gate::LOAD_TICKS.store(0, std::sync::atomic::Ordering::SeqCst);
        crate::gate::LOAD_TICK_NS.store(load_tick_ms * MS, std::sync::atomic::Ordering::SeqCst);
        let started = std::panic::catch_unwind(std::panic::AssertUnwindSafe(|| Srv::start(&opts)));
        crate::gate::LOAD_TICK_NS.store(0, std::sync::atomic::Ordering::SeqCst);
        // the time the load took counts as downtime for every key (the remaining times are read after it)
        let down_ms = down_ms + load_tick_ms * crate::gate::LOAD_TICKS.load(std::sync::atomic::Ordering::SeqCst);
        self.restarts += 2;
        let srv2 = match started {
            Ok(s) => s,
            Err(_) => {
                problems.push(("restart-on-the-saved-dump-failed".into(), json!({"panic": crate::srv::LAST_PANIC.lock().unwrap().clone()})));
                let _ = std::fs::remove_dir_all(&dir);
                return Ok(RoundTrip { problems, keys_before: d0.len(), dump_bytes, nontrivial: !d0.is_empty() });
            }
        };
        let mut c2 = srv2.connect().map_err(|e| format!("connect after restart: {:?}", e))?;
        match api_dump(&srv2, &mut c2) {
            Ok(d1) => problems.extend(compare(&d0, &d1, down_ms as i64)),
            // the restored dataset cannot be read back through the API (transport trouble stays a machinery error)
            Err(e) if e.starts_with("unexpected reply") => problems.push(("restored-dataset-cannot-be-read-back".into(), json!({"error": e}))),
            Err(e) => return Err(e),
        }
        c2.discard();
        let dir = srv2.stop();
        let _ = std::fs::remove_dir_all(&dir);
        Ok(RoundTrip { problems, keys_before: d0.len(), dump_bytes, nontrivial: !d0.is_empty() })
    }

    /// dataset = what a command history of one of the data-type alphabets leaves behind
    pub fn run_history(&mut self, spec: &str, hist: &[usize], down_ms: u64) -> Result<(RoundTrip, Vec<String>), String> {
        if self.world.as_ref().map(|(s, _)| s != spec).unwrap_or(true) {
            self.world = Some((spec.to_string(), world_for(spec).ok_or_else(|| format!("unknown spec {}", spec))?));
        }
        let w = &mut self.world.as_mut().unwrap().1;
        w.reset()?;
        let mut steps = Vec::new();
        for &a in hist {
            steps.push(w.describe(a));
            // the replies are other properties' business; only the dataset that results matters here
            let _ = w.apply(a)?;
        }
        let (srv, c) = w.take_server().ok_or_else(|| "world has no server".to_string())?;
        let rt = self.round_trip(srv, c, down_ms)?;
        Ok((rt, steps))
    }

    pub fn run_case(&mut self, case: &Value) -> Result<RoundTrip, String> {
        if case["fam"] == "hist" {
            let hist: Vec<usize> = case["history"].as_array().map(|a| a.iter().map(|x| x.as_u64().unwrap_or(0) as usize).collect()).unwrap_or_default();
            return self.run_history(case["spec"].as_str().unwrap_or(""), &hist, case["down_ms"].as_u64().unwrap_or(0)).map(|x| x.0);
        }
        let srv = Srv::start(&SrvOpts::default());
        vtime::align_epoch().map_err(|_| "settle timeout".to_string())?;
        let mut c = srv.connect().map_err(|e| format!("connect: {:?}", e))?;
        let mut cur_db = 0usize;
        if case["fam"] == "resave" {
            let run = |srv: &Srv, c: &mut Client, cur_db: &mut usize, layout: Option<Value>, lenient: bool| -> Result<(), String> {
                if let Some(l) = layout {
                    for (db, cmd) in build(&l) {
                        if db != *cur_db {
                            call_big(srv, c, &[b("SELECT"), b(&db.to_string())])?;
                            *cur_db = db;
                        }
                        let r = call_big(srv, c, &cmd)?;
                        // built on top of the first layout a command may be refused (an id that is already there)
                        if r.is_err() && !lenient {
                            return Err(format!("dataset construction: {} -> {}", resp::show_cmd(&cmd), resp::show(&r)));
                        }
                    }
                }
                Ok(())
            };
            run(&srv, &mut c, &mut cur_db, resave_layout(case["first"].as_u64().unwrap_or(0) as usize), false)?;
            let r = call_big(&srv, &mut c, &[b("SAVE")])?;
            if r != R::ok() {
                return Err(format!("first SAVE -> {}", resp::show(&r)));
            }
            match case["how"].as_str().unwrap_or("flushall") {
                "flushall" => {
                    call_big(&srv, &mut c, &[b("FLUSHALL")])?;
                }
                "delete-each" => {
                    for db in 0..16usize {
                        call_big(&srv, &mut c, &[b("SELECT"), b(&db.to_string())])?;
                        cur_db = db;
                        let keys = bulks(&call_big(&srv, &mut c, &[b("KEYS"), b("*")])?, "KEYS")?;
                        for k in keys {
                            call_big(&srv, &mut c, &[b("DEL"), k])?;
                        }
                    }
                }
                _ => {}
            }
            run(&srv, &mut c, &mut cur_db, resave_layout(case["second"].as_u64().unwrap_or(0) as usize), case["how"] == "on-top")?;
            return self.round_trip(srv, c, 0);
        }
        for (db, cmd) in build(case) {
            if db != cur_db {
                let r = call_big(&srv, &mut c, &[b("SELECT"), b(&db.to_string())])?;
                if r != R::ok() {
                    return Err(format!("SELECT {} -> {}", db, resp::show(&r)));
                }
                cur_db = db;
            }
            let r = call_big(&srv, &mut c, &cmd)?;
            if r.is_err() {
                return Err(format!("dataset construction: {} -> {}", resp::show_cmd(&cmd), resp::show(&r)));
            }
        }
        self.round_trip_slow(srv, c, case["down_ms"].as_u64().unwrap_or(0), case["load_tick_ms"].as_u64().unwrap_or(0))
    }
}

pub fn handle_factory() -> impl FnMut(&str, &Value, &mut WorkerIo) -> (Value, bool) {
    let mut runner = Runner::new();
    move |_tier: &str, task: &Value, io: &mut WorkerIo| {
        let mut counts: BTreeMap<&str, u64> = BTreeMap::new();
        if let Some(r) = task.get("replay") {
            let out = match runner.run_case(&r["case"]) {
                Ok(rt) => json!({"case": r["case"], "problems": rt.problems.iter().map(|(p, d)| json!({"problem": p, "detail": d})).collect::<Vec<_>>(), "keys": rt.keys_before, "dump_bytes": rt.dump_bytes}),
                Err(e) => json!({"machinery_error": e}),
            };
            return (out, true);
        }
        let mut recs = Vec::new();
        let mut errors = Vec::new();
        if task.get("hist_n").is_some() {
            let mut m = serde_json::Map::new();
            for spec in HIST_SPECS {
                if let Some(w) = world_for(spec) {
                    m.insert(spec.to_string(), json!(w.n_actions()));
                }
            }
            return (Value::Object(m), false);
        }
        if let Some(spec) = task["hist_spec"].as_str() {
            // all histories of exactly `depth` actions whose index is congruent to `part` modulo `parts`
            let depth = task["depth"].as_u64().unwrap_or(1) as u32;
            let (part, parts) = (task["part"].as_u64().unwrap_or(0), task["parts"].as_u64().unwrap_or(1));
            let down = task["down_ms"].as_u64().unwrap_or(0);
            let n = match world_for(spec) {
                Some(w) => w.n_actions() as u64,
                None => return (json!({"recs": [], "errors": [format!("unknown spec {}", spec)]}), false),
            };
            let total = n.pow(depth);
            let mut idx = part;
            let mut done = 0u64;
            while idx < total {
                let mut hist = Vec::new();
                let mut x = idx;
                for _ in 0..depth {
                    hist.push((x % n) as usize);
                    x /= n;
                }
                hist.reverse();
                let case = json!({"fam": "hist", "spec": spec, "history": hist, "down_ms": down});
                if done % 16 == 0 {
                    io.announce_case(case.clone());
                }
                match runner.run_history(spec, &hist, down) {
                    Ok((rt, steps)) => {
                        if !rt.problems.is_empty() || idx % 997 == 0 {
                            recs.push(json!({"case": case, "steps": steps, "problems": rt.problems.iter().map(|(p, d)| json!({"problem": p, "detail": d})).collect::<Vec<_>>(), "keys": rt.keys_before, "dump_bytes": rt.dump_bytes, "nontrivial": rt.nontrivial}));
                        }
                        *counts.entry("evaluations").or_insert(0u64) += 1;
                        if rt.nontrivial {
                            *counts.entry("nontrivial").or_insert(0u64) += 1;
                        }
                        *counts.entry("keys").or_insert(0u64) += rt.keys_before as u64;
                        *counts.entry("bytes").or_insert(0u64) += rt.dump_bytes;
                    }
                    Err(e) => errors.push(format!("{}: {}", case, e)),
                }
                done += 1;
                idx += parts;
            }
            let recycle = runner.restarts > 120;
            return (json!({"recs": recs, "errors": errors, "counts": counts}), recycle);
        }
        for case in task["cases"].as_array().cloned().unwrap_or_default() {
            io.announce_case(case.clone());
            match runner.run_case(&case) {
                Ok(rt) => recs.push(json!({"case": case, "problems": rt.problems.iter().map(|(p, d)| json!({"problem": p, "detail": d})).collect::<Vec<_>>(), "keys": rt.keys_before, "dump_bytes": rt.dump_bytes, "nontrivial": rt.nontrivial})),
                Err(e) => errors.push(format!("{}: {}", case, e)),
            }
        }
        let recycle = runner.restarts > 120;
        (json!({"recs": recs, "errors": errors}), recycle)
    }
}

pub fn parent(tier: &str) -> i32 {
    let thorough = tier == "thorough";
    let mut report = RunReport::new("C09", tier, "exploration");
    let pool = Pool::new("C09", tier, super::e1common::nworkers());
    let all = cases(thorough);
    // big cases first, one case per task for them; small ones in chunks
    let mut tasks: Vec<Value> = Vec::new();
    let (big, small): (Vec<Value>, Vec<Value>) = all.iter().cloned().partition(|c| c["n"].as_u64().unwrap_or(0) >= 16000);
    for c in big {
        tasks.push(json!({"cases": [c]}));
    }
    for ch in small.chunks(12) {
        tasks.push(json!({"cases": ch}));
    }
    // datasets reached by command histories: ask a worker for the alphabet sizes, then partition
    let mut hist_space: BTreeMap<String, Value> = BTreeMap::new();
    match &pool.map(vec![json!({"hist_n": true})], 0)[0] {
        Outcome::Done(v) => {
            let specs: Vec<&str> = if thorough { HIST_SPECS.to_vec() } else { HIST_SPECS[..13].to_vec() };
            for spec in specs {
                let n = v[spec].as_u64().unwrap_or(0);
                if n == 0 {
                    report.machinery_errors.push(format!("no alphabet for {}", spec));
                    continue;
                }
                let timed = spec.starts_with("c02") || spec.starts_with("c01");
                let deep = spec.starts_with("c02") || spec == "c15-stream" || spec == "c03-mixed";
                let depths: Vec<u32> = match (thorough, deep) {
                    (true, true) => vec![1, 2, 3],
                    (true, false) => vec![1, 2],
                    (false, _) => vec![1, 2],
                };
                for depth in depths {
                    let downs: Vec<u64> = if !timed { vec![0] } else if depth == 1 || (thorough && depth == 2) { vec![0, 100] } else { vec![100] };
                    for down in downs {
                        let total = n.pow(depth);
                        let parts = ((total + 99) / 100).max(1);
                        for part in 0..parts {
                            tasks.push(json!({"hist_spec": spec, "depth": depth, "part": part, "parts": parts, "down_ms": down}));
                        }
                        hist_space.insert(format!("{} depth {} downtime {} ms", spec, depth, down), json!({"alphabet": n, "histories": total}));
                    }
                }
            }
        }
        Outcome::Died { status, .. } => report.machinery_errors.push(format!("worker died: {}", status)),
    }
    let out = pool.map(tasks, 0);
    let mut evaluations = 0u64;
    let mut nontrivial = 0u64;
    let mut total_keys = 0u64;
    let mut total_bytes = 0u64;
    let mut samples = Vec::new();
    let mut fams: BTreeMap<String, u64> = BTreeMap::new();
    for o in out {
        match o {
            Outcome::Done(v) => {
                for e in v["errors"].as_array().cloned().unwrap_or_default() {
                    report.machinery_errors.push(format!("{}", e));
                }
                let counted = v.get("counts").map(|c| c.is_object()).unwrap_or(false) && v["counts"].as_object().map(|o| !o.is_empty()).unwrap_or(false);
                if counted {
                    evaluations += v["counts"]["evaluations"].as_u64().unwrap_or(0);
                    nontrivial += v["counts"]["nontrivial"].as_u64().unwrap_or(0);
                    total_keys += v["counts"]["keys"].as_u64().unwrap_or(0);
                    total_bytes += v["counts"]["bytes"].as_u64().unwrap_or(0);
                    *fams.entry("hist".to_string()).or_default() += v["counts"]["evaluations"].as_u64().unwrap_or(0);
                }
                for r in v["recs"].as_array().cloned().unwrap_or_default() {
                    let case = &r["case"];
                    if !counted {
                        evaluations += 1;
                        if r["nontrivial"].as_bool().unwrap_or(false) {
                            nontrivial += 1;
                        }
                        total_keys += r["keys"].as_u64().unwrap_or(0);
                        total_bytes += r["dump_bytes"].as_u64().unwrap_or(0);
                        *fams.entry(case["fam"].as_str().unwrap_or("").to_string()).or_default() += 1;
                    }
                    if samples.len() < 6 && (evaluations % 37 == 1 || (counted && samples.len() < 5)) {
                        samples.push(json!({"case": case, "steps": r["steps"], "keys": r["keys"], "dump_bytes": r["dump_bytes"]}));
                    }
                    for p in r["problems"].as_array().cloned().unwrap_or_default() {
                        report.deviations.push(Deviation {
                            property: "C09".into(),
                            sig: format!("C09|{}|{}|{}", case["fam"].as_str().unwrap_or(""), variant(case), p["problem"].as_str().unwrap_or("")),
                            replay: json!({"kind": "roundtrip", "case": case, "detail": p["detail"]}),
                        });
                    }
                }
            }
            Outcome::Died { status, case } => report.machinery_errors.push(format!("worker died: {} {:?}", status, case)),
        }
    }
    if samples.is_empty() {
        samples.push(json!({"note": "no sample"}));
    }
    println!("  c09: datasets={} (non-empty {}) keys={} dump-bytes={} families={:?}", evaluations, nontrivial, total_keys, total_bytes, fams);
    report.coverage = json!({
        "evaluations": evaluations, "distinct_nontrivial": nontrivial,
        "rule": "complete enumeration of dataset descriptors (every one distinct by construction; non-trivial = the dump before SAVE holds at least one key): type x {element count, element length, key length} x sizes around the 6-bit/14-bit/32-bit length encodings; type x content (all 256 byte values, empty elements, CR/LF and RESP look-alikes, invalid UTF-8, numeric look-alikes, the internal stream marker as first / only / second element and as key); type x database {0,1,15} x TTL {none, 50 ms, 10 s, 1 h} x downtime {0, 100 ms, 20 s}; EXPIRE in seconds; multi-key layouts (one name with six types in six databases, all 16 databases, 24 keys with TTLs interleaved, many keys); score shapes (+-0, +-inf, denormal, max, ties); stream shapes (extreme ids, multi-field, deleted middle/top, emptied, trimmed, with a consumer group); and the dataset left by every history of the stated depth over the command alphabets of the C01/C02/C03/C04/C15 searches (see hist_space; C01/C02 alphabets set and clear TTLs and move the clock; those also with a 100 ms downtime). Procedure per dataset: API-level dump of all 16 databases (KEYS, TYPE, full read, PTTL) -> SAVE -> the real server is stopped -> the virtual clock advances by the downtime -> a new real server starts on the same directory -> dump -> compare (values exactly; PTTL reduced by the downtime +-1 ms; keys whose deadline passed absent).",
        "samples": samples, "exhaustive": true, "families": fams, "hist_space": hist_space, "keys_round_tripped": total_keys, "dump_bytes_written": total_bytes,
    });
    report.assumptions = vec![
        "observation = what a client can read back (the property's observe_at): stream last-generated id and consumer groups are not part of the statement and are not compared".into(),
        "field order inside a stream entry and inside a hash is not compared (sorted)".into(),
        "a key whose deadline falls exactly on the restart instant is a don't-care".into(),
        "time is virtual: the downtime is a jump of the overridden clock between stopping one Server and creating the next in the same process".into(),
    ];
    report.finish()
}
