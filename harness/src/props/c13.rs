//! C13 — blocking pops never lose, duplicate or strand elements or clients.
//! E1/E3 under virtual time: all histories of two blocking clients, a producer and the environment
//! (clock, disconnects), every action followed by stepping the real event loop to quiescence. The oracle is
//! a set of invariants (conservation, FIFO, promptness, timeouts, no leftovers), not Redis's exact hand-off.

use super::e1common::{self, DataProp, SpecRun};
use crate::explore::e1::{ProbeOut, StepOut, World};
use crate::gate::StepResult;
use crate::resp::{self, R};
use crate::srv::{Client, Srv, SrvOpts};
use crate::vtime;
use serde_json::{json, Value};
use std::collections::BTreeMap;

#[derive(Clone, Debug)]
enum Act {
    /// blocking pop by client c: (left?, keys, timeout in ms; 0 = forever)
    Block(usize, bool, Vec<&'static str>, u64),
    /// producer command(s) in one write; `$n` in an argument is replaced by a fresh unique element
    Produce(Vec<Vec<&'static str>>),
    /// advance to (deadline of client c) + delta
    TickRel(usize, i64),
    Tick(u64),
    Close(usize),
}

const MS: u64 = 1_000_000;

fn acts(full: bool, nb: usize) -> Vec<Act> {
    let mut a = Vec::new();
    if nb == 3 {
        // three waiters on one key: two with the same timeout, one waiting forever (a seeded slip in the removal of
        // several expired waiters in one pass needed three to show); a reduced alphabet keeps the depth reachable
        for c in 0..3usize {
            a.push(Act::Block(c, true, vec!["k"], if c == 2 { 0 } else { 1000 }));
            a.push(Act::Block(c, false, vec!["k", "k2"], 1000));
            a.push(Act::Close(c));
        }
        a.push(Act::TickRel(0, MS as i64));
        a.push(Act::TickRel(1, -(MS as i64)));
        a.push(Act::Tick(10_000 * MS));
        a.push(Act::Produce(vec![vec!["RPUSH", "k", "$1"]]));
        a.push(Act::Produce(vec![vec!["RPUSH", "k", "$1", "$2"]]));
        a.push(Act::Produce(vec![vec!["RPUSH", "k2", "$1"]]));
        a.push(Act::Produce(vec![vec!["RPUSH", "k", "$1"], vec!["LPOP", "k"]]));
        return a;
    }
    for c in 0..2usize {
        a.push(Act::Block(c, true, vec!["k"], 0));
        a.push(Act::Block(c, true, vec!["k"], 1000));
        a.push(Act::Block(c, false, vec!["k"], 500));
        a.push(Act::Block(c, true, vec!["k", "k2"], 0));
        if full {
            a.push(Act::Block(c, true, vec!["k2", "k"], 1000));
        }
        a.push(Act::TickRel(c, -(MS as i64)));
        a.push(Act::TickRel(c, MS as i64));
        a.push(Act::Close(c));
    }
    a.push(Act::Produce(vec![vec!["LPUSH", "k", "$1"]]));
    a.push(Act::Produce(vec![vec!["RPUSH", "k", "$1", "$2"]]));
    a.push(Act::Produce(vec![vec!["RPUSH", "k2", "$1"]]));
    a.push(Act::Produce(vec![vec!["LPOP", "k"]]));
    a.push(Act::Produce(vec![vec!["RPUSH", "k", "$1"], vec!["LPOP", "k"]]));
    // both keys of a two-key call pushed in one write: two wake-ups for one client are queued before the first is handled
    // (a seeded staleness guard let the second one pop its element for nobody); and two pushes + two pops in one write
    // (two wake-ups that both find nothing: the waiters go back into the queue)
    a.push(Act::Produce(vec![vec!["RPUSH", "k", "$1"], vec!["RPUSH", "k2", "$2"]]));
    a.push(Act::Produce(vec![vec!["RPUSH", "k", "$1"], vec!["RPUSH", "k", "$2"], vec!["LPOP", "k"], vec!["LPOP", "k"]]));
    a.push(Act::Produce(vec![vec!["MULTI"], vec!["RPUSH", "k", "$1"], vec!["EXEC"]]));
    a.push(Act::Produce(vec![vec!["EVAL", "return redis.call('RPUSH', KEYS[1], ARGV[1])", "1", "k", "$1"]]));
    a.push(Act::Produce(vec![vec!["MULTI"], vec!["BLPOP", "k", "0"], vec!["EXEC"]]));
    if full {
        a.push(Act::Produce(vec![vec!["DEL", "k"]]));
        a.push(Act::Produce(vec![vec!["MULTI"], vec!["RPUSH", "k", "$1", "$2"], vec!["BRPOP", "k2", "k", "1"], vec!["EXEC"]]));
        a.push(Act::Produce(vec![vec!["RPUSH", "k", "$1", "$2", "$3"]]));
        a.push(Act::Produce(vec![vec!["LPUSH", "k2", "$1", "$2"]]));
    }
    a.push(Act::Tick(10_000 * MS));
    a
}

#[derive(Clone, Debug, Default)]
struct Blocked {
    since_step: usize,
    keys: Vec<String>,
    deadline: Option<u64>,
    left: bool,
}

pub struct BlockWorld {
    full: bool,
    /// number of blocking clients (the producer is connection nb)
    nb: usize,
    acts: Vec<Act>,
    srv: Option<Srv>,
    conns: Vec<Option<Client>>, // 0,1 blockers; 2 producer
    aux: Option<Client>,
    blocked: Vec<Option<Blocked>>,
    pushed: Vec<String>,
    delivered: Vec<(usize, String, String)>, // (client, key, element)
    popped_by_producer: Vec<String>,
    step: usize,
    uniq: usize,
    t0: u64,
    restarts: usize,
    /// 16: all connections in one shard of the server's connection table
    stride: u64,
    before_del: Vec<String>,
    last_lists: BTreeMap<String, Vec<String>>,
}

impl BlockWorld {
    fn new(full: bool, nb: usize, stride: u64) -> BlockWorld {
        vtime::enable();
        BlockWorld { full, nb, acts: acts(full, nb), srv: None, conns: (0..nb + 1).map(|_| None).collect(), aux: None, blocked: (0..nb).map(|_| None).collect(), pushed: vec![], delivered: vec![], popped_by_producer: vec![], step: 0, uniq: 0, t0: 0, restarts: 0, stride, before_del: vec![], last_lists: BTreeMap::new() }
    }

    fn settle(&mut self) -> Result<Vec<Vec<R>>, String> {
        let mut out: Vec<Vec<R>> = (0..self.nb + 1).map(|_| Vec::new()).collect();
        let mut idle = 0;
        let mut rounds = 0;
        while idle < 3 {
            rounds += 1;
            if rounds > 100 {
                return Err("no quiescence after 100 iterations".into());
            }
            match self.srv.as_ref().unwrap().step() {
                StepResult::Arrived => {}
                StepResult::Died => return Err("server-exited".into()),
                StepResult::Parked => return Err("parked".into()),
            }
            let mut any = false;
            for (i, c) in self.conns.iter_mut().enumerate() {
                if let Some(c) = c {
                    c.poll();
                    loop {
                        match c.take_frame() {
                            Ok(Some(f)) => {
                                out[i].push(f);
                                any = true;
                            }
                            Ok(None) => break,
                            Err(e) => return Err(format!("garbage: {}", e)),
                        }
                    }
                }
            }
            idle = if any { 0 } else { idle + 1 };
        }
        Ok(out)
    }

    fn lists(&mut self) -> Result<BTreeMap<String, Vec<String>>, String> {
        let mut m = BTreeMap::new();
        for k in ["k", "k2"] {
            let srv = self.srv.as_ref().unwrap();
            let aux = self.aux.as_mut().unwrap();
            let r = srv.call(aux, &["LRANGE", k, "0", "-1"]).map_err(|e| format!("LRANGE: {:?}", e))?;
            let v: Vec<String> = match r {
                R::Arr(v) => v.iter().map(|x| if let R::Bulk(b) = x { String::from_utf8_lossy(b).to_string() } else { resp::show(x) }).collect(),
                _ => vec![],
            };
            m.insert(k.to_string(), v);
        }
        Ok(m)
    }

    /// judge the frames the two blocking clients received in this step; returns problems
    fn judge_blockers(&mut self, frames: &[Vec<R>], now: u64) -> Vec<String> {
        let mut problems = Vec::new();
        // who was blocked on what before this step (for FIFO)
        let before: Vec<Option<Blocked>> = self.blocked.clone();
        for c in 0..self.nb {
            for f in frames[c].iter() {
                let b = match &before[c] {
                    Some(b) => b.clone(),
                    None => {
                        problems.push("frame-for-a-client-that-is-not-blocked".to_string());
                        continue;
                    }
                };
                if self.blocked[c].is_none() {
                    problems.push("second-frame-for-one-blocking-call".to_string());
                    continue;
                }
                match f {
                    R::NilArr | R::Nil => {
                        match b.deadline {
                            None => problems.push("nil-for-a-client-that-waits-forever".to_string()),
                            Some(d) => {
                                if now < d {
                                    problems.push("nil-before-the-timeout".to_string());
                                }
                            }
                        }
                        self.blocked[c] = None;
                    }
                    R::Arr(v) if v.len() == 2 => {
                        let (key, el) = match (&v[0], &v[1]) {
                            (R::Bulk(k), R::Bulk(e)) => (String::from_utf8_lossy(k).to_string(), String::from_utf8_lossy(e).to_string()),
                            _ => {
                                problems.push("malformed-delivery".to_string());
                                continue;
                            }
                        };
                        if !b.keys.contains(&key) {
                            problems.push("served-from-a-key-it-did-not-ask-for".to_string());
                        }
                        // FIFO: nobody who blocked earlier on that key may still be waiting (unless served in this same step)
                        for o in 0..self.nb {
                            if o != c {
                                if let Some(ob) = &before[o] {
                                    let also_served_now = frames[o].iter().any(|x| matches!(x, R::Arr(_)));
                                    if ob.keys.contains(&key) && ob.since_step < b.since_step && !also_served_now {
                                        problems.push("served-before-a-client-that-blocked-earlier".to_string());
                                    }
                                }
                            }
                        }
                        self.delivered.push((c, key, el));
                        self.blocked[c] = None;
                    }
                    _ => problems.push("unexpected-frame-for-a-blocked-client".to_string()),
                }
            }
        }
        problems
    }

    /// invariants at quiescence
    fn invariants(&mut self, now: u64) -> Result<Vec<String>, String> {
        let mut problems = Vec::new();
        let lists = self.lists()?;
        self.last_lists = lists.clone();
        // (1) conservation
        let mut have: Vec<String> = self.delivered.iter().map(|d| d.2.clone()).collect();
        have.extend(self.popped_by_producer.iter().cloned());
        for v in lists.values() {
            have.extend(v.iter().cloned());
        }
        let mut want = self.pushed.clone();
        have.sort();
        want.sort();
        if have != want {
            let dup = have.windows(2).any(|w| w[0] == w[1]);
            let lost = want.iter().any(|e| !have.contains(e));
            if dup {
                problems.push("element-delivered-twice".to_string());
            }
            if lost {
                problems.push("element-lost".to_string());
            }
            if !dup && !lost {
                problems.push("element-from-nowhere".to_string());
            }
        }
        // (3) promptness, (4) liveness of timeouts
        for c in 0..self.nb {
            if let Some(b) = &self.blocked[c] {
                if self.conns[c].is_none() {
                    continue;
                }
                for k in b.keys.iter() {
                    if lists.get(k).map(|l| !l.is_empty()).unwrap_or(false) {
                        problems.push("client-stays-blocked-although-its-list-has-elements".to_string());
                    }
                }
                if let Some(d) = b.deadline {
                    if now > d {
                        problems.push("no-nil-after-the-timeout".to_string());
                    }
                }
            }
        }
        // (5) no leftovers: registry <-> connection state
        let srv = self.srv.as_ref().unwrap();
        let (waiters, wakeq, flags) = srv.h.blocking.verif_snapshot();
        if wakeq != 0 {
            problems.push("wake-queue-not-empty-at-quiescence".to_string());
        }
        // the registry's set of keys that have waiters (consulted by pushes and by the wake-up pass) agrees with the queues
        {
            let mut with_waiters: Vec<(usize, Vec<u8>)> = waiters.iter().map(|w| (w.db, w.key.clone())).collect();
            with_waiters.sort();
            with_waiters.dedup();
            let mut flagged = flags.clone();
            flagged.sort();
            if flagged != with_waiters {
                problems.push("registry-set-of-keys-with-waiters-disagrees-with-the-wait-queues".to_string());
            }
        }
        let rows = (srv.h.connections)();
        for c in 0..self.nb {
            let id = match &self.conns[c] {
                Some(cl) => cl.id,
                None => continue,
            };
            let row_blocked = rows.iter().find(|r| r.id == id).map(|r| r.state == "blocked").unwrap_or(false);
            let registered: Vec<String> = waiters.iter().filter(|w| w.conn_id == id).map(|w| String::from_utf8_lossy(&w.key).to_string()).collect();
            match &self.blocked[c] {
                Some(b) => {
                    if !row_blocked {
                        problems.push("client-awaits-a-reply-but-the-server-does-not-consider-it-blocked".to_string());
                    }
                    for k in b.keys.iter() {
                        if !registered.contains(k) {
                            problems.push("blocked-client-missing-from-the-registry".to_string());
                        }
                    }
                }
                None => {
                    if row_blocked {
                        problems.push("server-considers-an-answered-client-blocked".to_string());
                    }
                    if !registered.is_empty() {
                        problems.push("leftover-registration-after-the-call-ended".to_string());
                    }
                }
            }
        }
        let live: Vec<u64> = self.conns.iter().filter_map(|c| c.as_ref().map(|c| c.id)).collect();
        if waiters.iter().any(|w| !live.contains(&w.conn_id)) {
            problems.push("registry-entry-of-a-closed-connection".to_string());
        }
        problems.sort();
        problems.dedup();
        Ok(problems)
    }
}

impl World for BlockWorld {
    fn n_actions(&self) -> usize {
        self.acts.len()
    }
    fn describe(&self, act: usize) -> String {
        match &self.acts[act] {
            Act::Block(c, left, keys, t) => format!("c{}: {} {} {}", c, if *left { "BLPOP" } else { "BRPOP" }, keys.join(" "), *t as f64 / 1000.0),
            Act::Produce(cmds) => format!("p: {}", cmds.iter().map(|c| c.join(" ")).collect::<Vec<_>>().join(" · ")),
            Act::TickRel(c, d) => format!("tick to deadline(c{}){:+}ms", c, d / MS as i64),
            Act::Tick(ns) => format!("tick +{}ms", ns / MS),
            Act::Close(c) => format!("c{}: close", c),
        }
    }

    fn reset(&mut self) -> Result<(), String> {
        if self.srv.as_ref().map(|s| s.is_dead()).unwrap_or(true) {
            self.srv = None;
            self.aux = None;
            self.srv = Some(Srv::start(&SrvOpts { conn_stride: self.stride, ..SrvOpts::default() }));
            self.restarts += 1;
        }
        for c in self.conns.iter_mut() {
            if let Some(cl) = c.as_mut() {
                cl.discard();
            }
            *c = None;
        }
        let _ = self.srv.as_ref().unwrap().steps(3);
        // a blocked-forever leftover of the previous history must not leak into this one
        {
            let srv = self.srv.as_ref().unwrap();
            let (waiters, wakeq, _) = srv.h.blocking.verif_snapshot();
            if !waiters.is_empty() || wakeq != 0 {
                self.srv = None;
                self.aux = None;
                self.srv = Some(Srv::start(&SrvOpts { conn_stride: self.stride, ..SrvOpts::default() }));
                self.restarts += 1;
            }
        }
        if self.aux.as_ref().map(|c| !c.is_open()).unwrap_or(true) {
            self.aux = Some(self.srv.as_ref().unwrap().connect().map_err(|e| format!("{:?}", e))?);
        }
        {
            let srv = self.srv.as_ref().unwrap();
            let aux = self.aux.as_mut().unwrap();
            let r = srv.call(aux, &["FLUSHALL"]).map_err(|e| format!("{:?}", e))?;
            if r != R::ok() {
                return Err("FLUSHALL failed".into());
            }
        }
        for i in 0..self.nb + 1 {
            self.conns[i] = Some(self.srv.as_ref().unwrap().connect().map_err(|e| format!("{:?}", e))?);
        }
        self.blocked = (0..self.nb).map(|_| None).collect();
        self.pushed.clear();
        self.delivered.clear();
        self.popped_by_producer.clear();
        self.last_lists.clear();
        self.step = 0;
        self.uniq = 0;
        self.t0 = vtime::align_epoch().map_err(|_| "settle timeout".to_string())?;
        Ok(())
    }

    fn apply(&mut self, act: usize) -> Result<StepOut, String> {
        self.step += 1;
        let a = self.acts[act].clone();
        let mut problems: Vec<String> = Vec::new();
        let mut obs = String::new();
        match &a {
            Act::Block(c, left, keys, t) => {
                if self.conns[*c].is_none() || self.blocked[*c].is_some() {
                    return Ok(StepOut { ok: true, dev: None, obs: "noop".into() });
                }
                let mut args: Vec<String> = vec![if *left { "BLPOP".into() } else { "BRPOP".into() }];
                args.extend(keys.iter().map(|k| k.to_string()));
                args.push(format!("{}", *t as f64 / 1000.0));
                let now = vtime::mono_ns();
                self.blocked[*c] = Some(Blocked { since_step: self.step, keys: keys.iter().map(|k| k.to_string()).collect(), deadline: if *t == 0 { None } else { Some(now + *t * MS) }, left: *left });
                self.conns[*c].as_mut().unwrap().send(&resp::cmd(&args));
            }
            Act::Produce(cmds) => {
                if cmds.iter().any(|c| c[0] == "DEL") {
                    self.before_del = self.lists()?.remove("k").unwrap_or_default();
                }
                let mut bytes = Vec::new();
                let mut pushed_now: Vec<String> = Vec::new();
                for cmd in cmds {
                    let mut args: Vec<String> = Vec::new();
                    for a in cmd {
                        if a.starts_with('$') {
                            self.uniq += 1;
                            let e = format!("e{}", self.uniq);
                            pushed_now.push(e.clone());
                            args.push(e);
                        } else {
                            args.push(a.to_string());
                        }
                    }
                    bytes.extend(resp::cmd(&args));
                }
                self.pushed.extend(pushed_now);
                self.conns[self.nb].as_mut().unwrap().send(&bytes);
            }
            Act::TickRel(c, d) => {
                let now = vtime::mono_ns();
                match self.blocked[*c].as_ref().and_then(|b| b.deadline) {
                    Some(dl) => {
                        let target = dl as i128 + *d as i128;
                        if target > now as i128 {
                            vtime::advance_to(target as u64).map_err(|_| "settle timeout".to_string())?;
                        } else {
                            return Ok(StepOut { ok: true, dev: None, obs: "noop".into() });
                        }
                    }
                    None => return Ok(StepOut { ok: true, dev: None, obs: "noop".into() }),
                }
            }
            Act::Tick(ns) => {
                vtime::tick(*ns).map_err(|_| "settle timeout".to_string())?;
            }
            Act::Close(c) => {
                if self.conns[*c].is_none() {
                    return Ok(StepOut { ok: true, dev: None, obs: "noop".into() });
                }
                self.conns[*c].as_mut().unwrap().close();
                self.conns[*c] = None;
                self.blocked[*c] = None;
            }
        }
        let frames = match self.settle() {
            Ok(f) => f,
            Err(e) => {
                let cls = e.split(':').next().unwrap_or("error").to_string();
                return Ok(StepOut { ok: false, dev: Some((format!("C13|{}|{}", self.sig_act(&a), cls), json!({"error": e, "panic": crate::srv::LAST_PANIC.lock().unwrap().clone()}))), obs: cls });
            }
        };
        let now = vtime::mono_ns();
        // producer replies: LPOP results count as pops by a non-blocked client
        if let Act::Produce(cmds) = &a {
            if frames[self.nb].len() != cmds.len() {
                problems.push("producer-reply-count".to_string());
            }
            for (cmd, f) in cmds.iter().zip(frames[self.nb].iter()) {
                if cmd[0] == "LPOP" {
                    if let R::Bulk(b) = f {
                        self.popped_by_producer.push(String::from_utf8_lossy(b).to_string());
                    }
                }
                if cmd[0] == "EXEC" {
                    // a blocking pop inside the transaction answers like its non-blocking form, at once
                    let queued: Vec<&Vec<&'static str>> = cmds.iter().filter(|c| !["MULTI", "EXEC"].contains(&c[0])).collect();
                    match f {
                        R::Arr(items) if items.len() == queued.len() => {
                            for (q, it) in queued.iter().zip(items.iter()) {
                                if q[0] == "BLPOP" || q[0] == "BRPOP" {
                                    match it {
                                        R::NilArr | R::Nil => {}
                                        R::Arr(v) if v.len() == 2 => {
                                            if let R::Bulk(b) = &v[1] {
                                                self.popped_by_producer.push(String::from_utf8_lossy(b).to_string());
                                            }
                                        }
                                        _ => problems.push("blocking-pop-in-exec-answers-neither-nil-nor-an-element".to_string()),
                                    }
                                }
                            }
                        }
                        _ => problems.push("exec-reply-shape".to_string()),
                    }
                }
                if cmd[0] == "DEL" {
                    // deleted elements leave the books
                    if let R::Int(1) = f {
                        let gone = std::mem::take(&mut self.before_del);
                        self.popped_by_producer.extend(gone);
                    }
                }
                if f.is_err() {
                    problems.push("producer-command-refused".to_string());
                }
            }
        }
        let prev_lists = self.last_lists.clone();
        let delivered_before = self.delivered.len();
        let was_left: Vec<Option<bool>> = self.blocked.iter().map(|b| b.as_ref().map(|b| b.left)).collect();
        problems.extend(self.judge_blockers(&frames, now));
        problems.extend(self.invariants(now)?);
        // (2b) the right end: replaying this step's pushes on the previous lists and then the deliveries, in
        // some order, from the end each call names must leave exactly the lists observed now
        let pure_push = match &a {
            Act::Produce(cmds) => cmds.iter().all(|c| ["LPUSH", "RPUSH", "MULTI", "EXEC", "EVAL"].contains(&c[0])),
            Act::Block(..) | Act::TickRel(..) | Act::Tick(_) | Act::Close(_) => true,
        };
        if pure_push && problems.is_empty() {
            let mut expected = prev_lists.clone();
            if let Act::Produce(cmds) = &a {
                let mut fresh = self.pushed[self.pushed.len() - cmds.iter().flat_map(|c| c.iter()).filter(|x| x.starts_with('$')).count()..].iter();
                for c in cmds {
                    let (key, left) = match c[0] {
                        "LPUSH" => (c[1], true),
                        "RPUSH" => (c[1], false),
                        "EVAL" => (c[3], false),
                        _ => continue,
                    };
                    for x in c.iter() {
                        if x.starts_with('$') {
                            let e = fresh.next().unwrap().clone();
                            let l = expected.entry(key.to_string()).or_default();
                            if left { l.insert(0, e) } else { l.push(e) }
                        }
                    }
                }
            }
            let now_deliv: Vec<(usize, String, String)> = self.delivered[delivered_before..].to_vec();
            let n = now_deliv.len();
            let orders: Vec<Vec<usize>> = match n {
                0 => vec![vec![]],
                1 => vec![vec![0]],
                _ => vec![vec![0, 1], vec![1, 0]],
            };
            let fits = orders.iter().any(|ord| {
                let mut l = expected.clone();
                for &i in ord {
                    let (c, key, el) = &now_deliv[i];
                    let lst = l.entry(key.clone()).or_default();
                    let got = if was_left[*c].unwrap_or(true) { if lst.is_empty() { None } else { Some(lst.remove(0)) } } else { lst.pop() };
                    if got.as_ref() != Some(el) {
                        return false;
                    }
                }
                ["k", "k2"].iter().all(|k| l.get(*k).cloned().unwrap_or_default() == self.last_lists.get(*k).cloned().unwrap_or_default())
            });
            if !fits {
                problems.push("element-taken-from-the-wrong-end-or-list-order-disturbed".to_string());
            }
        }
        problems.sort();
        problems.dedup();
        obs.push_str(&format!("{} -> {}", self.sig_act(&a), frames.iter().enumerate().map(|(i, f)| format!("{}:{}", if i == self.nb { "p".to_string() } else { format!("c{}", i) }, f.iter().map(resp::class).collect::<Vec<_>>().join(","))).collect::<Vec<_>>().join(" ")));
        if problems.is_empty() {
            Ok(StepOut { ok: true, dev: None, obs })
        } else {
            let ctx = format!("waiting={}", self.blocked.iter().filter(|b| b.is_some()).count());
            let sig = format!("C13|{}|{}|{}", self.sig_act(&a), ctx, problems.join("+"));
            let lists = self.lists().unwrap_or_default();
            let detail = json!({"frames": frames.iter().map(|f| f.iter().map(resp::show).collect::<Vec<_>>()).collect::<Vec<_>>(), "lists": lists, "pushed": self.pushed, "delivered": self.delivered.iter().map(|d| format!("c{} <- {}:{}", d.0, d.1, d.2)).collect::<Vec<_>>(), "problems": problems});
            Ok(StepOut { ok: false, dev: Some((sig, detail)), obs })
        }
    }

    fn fingerprint(&mut self) -> Result<u128, String> {
        let lists = self.lists()?;
        let now = vtime::mono_ns();
        let mut s = format!("{:?}|", lists.iter().map(|(k, v)| (k.clone(), v.len())).collect::<Vec<_>>());
        for c in 0..self.nb {
            s.push_str(&match (&self.conns[c], &self.blocked[c]) {
                (None, _) => "closed|".to_string(),
                (Some(_), None) => "idle|".to_string(),
                (Some(_), Some(b)) => format!("blocked keys={:?} left={} rem={:?}|", b.keys, b.left, b.deadline.map(|d| d as i128 - now as i128)),
            });
        }
        // relative blocking order only
        let order: Vec<usize> = {
            let mut v: Vec<(usize, usize)> = (0..self.nb).filter_map(|c| self.blocked[c].as_ref().map(|b| (b.since_step, c))).collect();
            v.sort();
            v.into_iter().map(|x| x.1).collect()
        };
        let srv = self.srv.as_ref().unwrap();
        let (waiters, wakeq, flags) = srv.h.blocking.verif_snapshot();
        let idx = |id: u64| (0..self.nb + 1).find(|i| self.conns[*i].as_ref().map(|c| c.id) == Some(id)).map(|i| i as i64).unwrap_or(-1);
        let reg: Vec<String> = waiters.iter().map(|w| format!("{}:{}:c{}:{}", w.db, String::from_utf8_lossy(&w.key), idx(w.conn_id), w.op)).collect();
        // (every piece of registry state goes into the fingerprint: two states that differ only in the set of
        // flagged keys have different futures - a seeded change that left a waiter unflagged was merged away without it)
        let mut flagged: Vec<String> = flags.iter().map(|(db, k)| format!("{}:{}", db, String::from_utf8_lossy(k))).collect();
        flagged.sort();
        let full = format!("{}order={:?} reg={:?} flagged={:?} wakeq={} sweeper-phase={}", s, order, reg, flagged, wakeq, (now - self.t0) % 1_000_000_000);
        Ok(crate::report::fnv128(full.as_bytes()))
    }

    fn probe(&mut self, _hist: &[usize]) -> Result<ProbeOut, String> {
        Ok(ProbeOut { devs: vec![], probes: 1, state_bad: false, outcome_hashes: vec![] })
    }

    fn wants_recycle(&self) -> bool {
        self.restarts > 150
    }
}

impl BlockWorld {
    fn sig_act(&self, a: &Act) -> String {
        match a {
            Act::Block(_, left, keys, t) => format!("{} {}key{} {}", if *left { "BLPOP" } else { "BRPOP" }, keys.len(), if keys.len() > 1 { "s" } else { "" }, if *t == 0 { "forever" } else { "timed" }),
            Act::Produce(cmds) => cmds.iter().map(|c| format!("{}{}", c[0], if c.iter().filter(|x| x.starts_with('$')).count() > 1 { "(multi)" } else { "" })).collect::<Vec<_>>().join("·"),
            Act::TickRel(_, d) => format!("tick deadline{:+}ms", d / MS as i64),
            Act::Tick(_) => "tick +10s".into(),
            Act::Close(_) => "close".into(),
        }
    }
}

/// Blocked clients whose connection goes away in every way the server can notice it (orderly close, reset; with and
/// without further commands held back behind the blocking call): once the connection has left the connection table no
/// registry entry may name it, and an element pushed afterwards stays in the list.
fn departing_blocked_cases() -> Value {
    use super::c05::Harness;
    use crate::resp;
    let mut h = Harness::new(SrvOpts::default());
    let mut recs = Vec::new();
    let mut errors: Vec<String> = Vec::new();
    let mut n = 0u64;
    let calls: Vec<Vec<&str>> = vec![vec!["BLPOP", "k", "0"], vec!["BRPOP", "k", "5"], vec!["BLPOP", "k2", "k", "0"], vec!["BRPOP", "k", "k2", "0.5"]];
    for call in calls.iter() {
        for reset in [false, true] {
            for held in [false, true] {
                for second in [false, true] {
                    n += 1;
                    let name = format!("{}{}; {}; {}", call.join(" "), if held { " + ECHO x held back behind it" } else { "" }, if reset { "reset" } else { "close" }, if second { "a second client blocked on k stays" } else { "alone" });
                    let mut run = || -> Result<Option<String>, String> {
                        h.ensure()?;
                        h.aux_call(&["FLUSHALL"])?;
                        let mut c1 = h.srv.as_ref().unwrap().connect().map_err(|e| format!("connect: {:?}", e))?;
                        let mut bytes = resp::cmd(call);
                        if held {
                            bytes.extend(resp::cmd(&["ECHO", "x"]));
                        }
                        c1.send(&bytes);
                        let (got, err) = h.collect(&mut c1, 1, 4);
                        if !got.is_empty() || err.is_some() {
                            return Err(format!("the call did not block: {:?} {:?}", got.iter().map(resp::show).collect::<Vec<_>>(), err));
                        }
                        let mut c2 = None;
                        if second {
                            let mut c = h.srv.as_ref().unwrap().connect().map_err(|e| format!("connect: {:?}", e))?;
                            c.send(&resp::cmd(&["BLPOP", "k", "0"]));
                            let (g2, e2) = h.collect(&mut c, 1, 4);
                            if !g2.is_empty() || e2.is_some() {
                                return Err("the second call did not block".into());
                            }
                            c2 = Some(c);
                        }
                        let id = c1.id;
                        if reset { c1.discard() } else { c1.close() }
                        drop(c1);
                        let mut gone = false;
                        for _ in 0..40 {
                            let _ = h.srv.as_ref().unwrap().steps(2);
                            if !(h.srv.as_ref().unwrap().h.connections)().iter().any(|r| r.id == id) {
                                gone = true;
                                break;
                            }
                        }
                        if !gone {
                            if let Some(mut c) = c2.take() { c.discard(); }
                            return Ok(Some("departed-connection-still-in-the-connection-table".into()));
                        }
                        let _ = h.srv.as_ref().unwrap().steps(2);
                        let (waiters, _, _) = h.srv.as_ref().unwrap().h.blocking.verif_snapshot();
                        let named = waiters.iter().any(|w| w.conn_id == id);
                        h.aux_call(&["RPUSH", "k", "v"])?;
                        let _ = h.srv.as_ref().unwrap().steps(3);
                        let mut served_second = false;
                        if let Some(c) = c2.as_mut() {
                            let (g, _) = h.collect(c, 1, 4);
                            served_second = g.len() == 1;
                        }
                        let left = h.aux_call(&["LLEN", "k"])?;
                        if let Some(mut c) = c2.take() { c.discard(); }
                        let _ = h.srv.as_ref().unwrap().steps(3);
                        if named {
                            return Ok(Some("registry-still-names-the-departed-connection".into()));
                        }
                        if second {
                            if !served_second {
                                return Ok(Some("the-client-that-stayed-was-not-served".into()));
                            }
                        } else if left != resp::R::Int(1) {
                            return Ok(Some(format!("pushed-element-gone (LLEN {})", resp::show(&left))));
                        }
                        Ok(None)
                    };
                    match run() {
                        Ok(Some(p)) => recs.push(json!({"name": name, "problem": p})),
                        Ok(None) => {}
                        Err(e) => {
                            errors.push(format!("{}: {}", name, e));
                            h.srv = None;
                            h.aux = None;
                        }
                    }
                }
            }
        }
    }
    json!({"departing": {"cases": n, "recs": recs, "errors": errors}})
}

fn extra_worker(_tier: &str, task: &Value, _io: &mut crate::pool::WorkerIo) -> Option<Value> {
    if task.get("departing").is_some() || task.get("replay").map(|r| r["kind"] == "departing").unwrap_or(false) {
        return Some(departing_blocked_cases());
    }
    None
}

fn extra_parent(pool: &crate::pool::Pool, _tier: &str, report: &mut crate::report::RunReport) -> Value {
    let out = pool.map(vec![json!({"departing": true})], 0);
    match &out[0] {
        crate::pool::Outcome::Done(v) => {
            for e in v["departing"]["errors"].as_array().cloned().unwrap_or_default() {
                report.machinery_errors.push(format!("departing blocked client: {}", e));
            }
            for r in v["departing"]["recs"].as_array().cloned().unwrap_or_default() {
                report.deviations.push(crate::report::Deviation { property: "C13".into(), sig: format!("C13|departing-blocked-client|{}|{}", r["name"].as_str().unwrap_or(""), r["problem"].as_str().unwrap_or("").split(' ').next().unwrap_or("")), replay: json!({"kind": "departing", "case": r}) });
            }
            println!("  c13-departing: cases={} with-a-problem={}", v["departing"]["cases"], v["departing"]["recs"].as_array().map(|a| a.len()).unwrap_or(0));
            json!({"departing_blocked_clients": {"cases": v["departing"]["cases"], "what": "4 blocking calls (one and two keys, endless and finite) x {alone, ECHO held back behind the call} x {close, reset} x {alone, a second client blocked on the same key stays}: once the connection has left the connection table no registry entry names it; an element pushed afterwards is still in the list (or goes to the client that stayed)"}})
        }
        crate::pool::Outcome::Died { status, .. } => {
            report.machinery_errors.push(format!("departing-blocked-client worker died: {}", status));
            json!({})
        }
    }
}

fn make_world(spec: &str) -> Option<Box<dyn World>> {
    match spec {
        "c13-core" => Some(Box::new(BlockWorld::new(false, 2, 1))),
        "c13-full" => Some(Box::new(BlockWorld::new(true, 2, 1))),
        "c13-three" => Some(Box::new(BlockWorld::new(false, 3, 1))),
        "c13-core-sameshard" => Some(Box::new(BlockWorld::new(false, 2, 16))),
        _ => None,
    }
}

fn prop() -> DataProp {
    DataProp {
        id: "C13",
        specs: vec![
            SpecRun { spec: "c13-core", depth_quick: 5, depth_thorough: 9, budget_quick_s: 35.0, budget_thorough_s: 1800.0 },
            SpecRun { spec: "c13-three", depth_quick: 5, depth_thorough: 7, budget_quick_s: 30.0, budget_thorough_s: 1800.0 },
            SpecRun { spec: "c13-core-sameshard", depth_quick: 4, depth_thorough: 6, budget_quick_s: 20.0, budget_thorough_s: 900.0 },
            SpecRun { spec: "c13-full", depth_quick: 0, depth_thorough: 7, budget_quick_s: 0.0, budget_thorough_s: 1800.0 },
        ],
        make_world,
        assumptions: vec![
            "oracle = invariants (conservation, FIFO among blocked clients, promptness at quiescence, nil only at/after the deadline and eventually after it, registry <-> connection state), not Redis's exact hand-off order: a non-blocked LPOP that gets in first may take the element".into(),
            "quiescence = three consecutive event-loop iterations without a frame on any connection; the clock is virtual".into(),
            "bounded: two blocking clients, one producer, two keys, histories up to the completed depth".into(),
        ],
    }
}

pub fn parent(tier: &str) -> i32 {
    e1common::data_parent(&prop(), tier, Some(&extra_parent))
}

pub fn handle_factory() -> impl FnMut(&str, &Value, &mut crate::pool::WorkerIo) -> (Value, bool) {
    e1common::data_handle_factory(make_world, Some(extra_worker))
}
