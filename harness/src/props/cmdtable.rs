//! The command table shared by C05, C06 and C17: every command name the server dispatches with a
//! plausible argument list. Names are also scraped at run time from /repo/src/network/server.rs so that a
//! newly added command is covered (with a generic argument list).

pub const TABLE: &[(&str, &[&str])] = &[
    ("PING", &[]), ("ECHO", &["m"]), ("SET", &["k", "v", "EX", "100"]), ("GET", &["k"]), ("INCR", &["k"]), ("DECR", &["k"]), ("INCRBY", &["k", "5"]), ("DECRBY", &["k", "5"]),
    ("DEL", &["k"]), ("EXISTS", &["k"]), ("EXPIRE", &["k", "100"]), ("TTL", &["k"]), ("SELECT", &["1"]), ("FLUSHDB", &[]), ("FLUSHALL", &[]), ("DBSIZE", &[]),
    ("SETNX", &["k", "v"]), ("SETEX", &["k", "100", "v"]), ("PSETEX", &["k", "100000", "v"]), ("SLEEP", &["1"]), ("CONFIG", &["GET", "maxmemory"]),
    ("MGET", &["k", "k2"]), ("MSET", &["k", "v", "k2", "w"]), ("GETSET", &["k", "v"]), ("APPEND", &["k", "v"]), ("STRLEN", &["k"]), ("GETRANGE", &["k", "0", "1"]), ("SETRANGE", &["k", "1", "v"]),
    ("TYPE", &["k"]), ("RENAME", &["k", "k2"]), ("RENAMENX", &["k", "k2"]), ("RANDOMKEY", &[]), ("BLPOP", &["k", "1"]), ("BRPOP", &["k", "1"]), ("KEYS", &["*"]),
    ("PEXPIRE", &["k", "100000"]), ("PTTL", &["k"]), ("PERSIST", &["k"]),
    ("LPUSH", &["k", "a"]), ("RPUSH", &["k", "a"]), ("LPOP", &["k"]), ("RPOP", &["k"]), ("LLEN", &["k"]), ("LRANGE", &["k", "0", "-1"]), ("LINDEX", &["k", "0"]), ("LSET", &["k", "0", "v"]),
    ("LTRIM", &["k", "0", "1"]), ("LREM", &["k", "1", "a"]),
    ("SADD", &["k", "a"]), ("SREM", &["k", "a"]), ("SMEMBERS", &["k"]), ("SISMEMBER", &["k", "a"]), ("SCARD", &["k"]), ("SUNION", &["k", "k2"]), ("SINTER", &["k", "k2"]), ("SDIFF", &["k", "k2"]),
    ("SRANDMEMBER", &["k", "2"]), ("SPOP", &["k", "1"]),
    ("HSET", &["k", "f", "v"]), ("HGET", &["k", "f"]), ("HMSET", &["k", "f", "v"]), ("HMGET", &["k", "f", "g"]), ("HGETALL", &["k"]), ("HDEL", &["k", "f"]), ("HLEN", &["k"]), ("HEXISTS", &["k", "f"]),
    ("HKEYS", &["k"]), ("HVALS", &["k"]), ("HINCRBY", &["k", "f", "1"]),
    ("ZADD", &["k", "1", "a"]), ("ZREM", &["k", "a"]), ("ZSCORE", &["k", "a"]), ("ZCARD", &["k"]), ("ZRANK", &["k", "a"]), ("ZREVRANK", &["k", "a"]), ("ZRANGE", &["k", "0", "-1"]), ("ZREVRANGE", &["k", "0", "-1"]),
    ("ZRANGEBYSCORE", &["k", "0", "1"]), ("ZREVRANGEBYSCORE", &["k", "1", "0"]), ("ZCOUNT", &["k", "0", "1"]), ("ZINCRBY", &["k", "1", "a"]), ("ZPOPMIN", &["k", "1"]), ("ZPOPMAX", &["k", "1"]),
    ("XADD", &["k", "1-1", "f", "v"]), ("XRANGE", &["k", "-", "+"]), ("XREVRANGE", &["k", "+", "-"]), ("XLEN", &["k"]), ("XREAD", &["COUNT", "1", "STREAMS", "k", "0-0"]), ("XTRIM", &["k", "MAXLEN", "1"]),
    ("XDEL", &["k", "1-1"]), ("XGROUP", &["CREATE", "k", "g", "$", "MKSTREAM"]), ("XREADGROUP", &["GROUP", "g", "c", "COUNT", "1", "STREAMS", "k", ">"]), ("XACK", &["k", "g", "1-1"]),
    ("XCLAIM", &["k", "g", "c", "0", "1-1"]), ("XPENDING", &["k", "g"]), ("XINFO", &["GROUPS", "k"]),
    ("SAVE", &[]), ("BGSAVE", &[]), ("LASTSAVE", &[]), ("SCAN", &["0", "COUNT", "10"]), ("HSCAN", &["k", "0"]), ("SSCAN", &["k", "0"]), ("ZSCAN", &["k", "0"]), ("BGREWRITEAOF", &[]),
    ("INFO", &[]), ("SLOWLOG", &["GET", "1"]), ("MEMORY", &["USAGE", "k"]), ("CLIENT", &["LIST"]), ("AUTH", &["pw"]), ("REPLICAOF", &["NO", "ONE"]), ("SLAVEOF", &["NO", "ONE"]),
    ("SYNC", &[]), ("PSYNC", &["?", "-1"]), ("QUIT", &[]), ("EVAL", &["return 1", "0"]), ("EVALSHA", &["e0e1f9fabfc9d4800c877a703b823ac0578ff8db", "0"]), ("COMMAND", &[]),
    ("SHUTDOWN", &["NOSAVE"]), ("SCRIPT", &["FLUSH"]), ("MULTI", &[]), ("EXEC", &[]), ("DISCARD", &[]), ("WATCH", &["k"]), ("UNWATCH", &[]),
    ("PUBLISH", &["c", "m"]), ("SUBSCRIBE", &["c"]), ("UNSUBSCRIBE", &["c"]), ("PSUBSCRIBE", &["p*"]), ("PUNSUBSCRIBE", &["p*"]), ("MONITOR", &[]), ("REPLCONF", &["listening-port", "1234"]),
];

/// option words that appear in the dispatch code but are not command names
const NOT_COMMANDS: &[&str] = &["EX", "PX", "NX", "XX", "OK", "PONG", "WITHSCORES", "FULLRESYNC", "ERR", "NOAUTH", "QUEUED", "GET", "SET"];

/// command names found in the server's dispatch code: string literals used as match patterns
pub fn scrape_names() -> Vec<String> {
    let mut names: Vec<String> = Vec::new();
    let src = std::fs::read_to_string("/repo/src/network/server.rs").unwrap_or_default();
    let bytes = src.as_bytes();
    let mut i = 0;
    while i < bytes.len() {
        if bytes[i] == b'"' {
            let mut j = i + 1;
            while j < bytes.len() && (bytes[j].is_ascii_uppercase()) {
                j += 1;
            }
            if j < bytes.len() && bytes[j] == b'"' && j - i - 1 >= 2 {
                // followed (after spaces) by `=>` or `|`: a match pattern
                let mut k = j + 1;
                while k < bytes.len() && bytes[k] == b' ' {
                    k += 1;
                }
                let is_pat = (k + 1 < bytes.len() && &bytes[k..k + 2] == b"=>") || (k < bytes.len() && bytes[k] == b'|');
                if is_pat {
                    let name = String::from_utf8_lossy(&bytes[i + 1..j]).to_string();
                    if (!NOT_COMMANDS.contains(&name.as_str()) || name == "GET" || name == "SET") && !names.contains(&name) {
                        names.push(name);
                    }
                }
            }
            i = j + 1;
        } else {
            i += 1;
        }
    }
    names.sort();
    names
}

/// table entries + scraped names not in the table (generic arguments)
pub fn all_commands() -> Vec<(String, Vec<String>)> {
    let mut out: Vec<(String, Vec<String>)> = TABLE.iter().map(|(n, a)| (n.to_string(), a.iter().map(|s| s.to_string()).collect())).collect();
    for n in scrape_names() {
        if !out.iter().any(|(m, _)| *m == n) {
            out.push((n, vec!["k".into(), "1".into()]));
        }
    }
    out
}

/// commands that are kept out of in-process matrices, with the reason
pub fn excluded(name: &str) -> Option<&'static str> {
    match name {
        "SHUTDOWN" => Some("documented purpose: exits the process (checked separately in C06)"),
        "SYNC" | "PSYNC" => Some("hands the connection over to the replication stream by design"),
        _ => None,
    }
}

pub fn is_numeric(s: &str) -> bool {
    s.parse::<f64>().is_ok() && s != "inf" && s != "nan" && s != "infinity"
}

/// commands that seed key `k` into each of the seven key states
pub fn key_states() -> Vec<(&'static str, Vec<Vec<&'static str>>)> {
    vec![
        ("missing", vec![]),
        ("string", vec![vec!["SET", "k", "10"]]),
        ("list", vec![vec!["RPUSH", "k", "a", "b", "c"]]),
        ("set", vec![vec!["SADD", "k", "a", "b", "c"]]),
        ("hash", vec![vec!["HSET", "k", "f", "1", "g", "2"]]),
        ("zset", vec![vec!["ZADD", "k", "1", "a", "2", "b"]]),
        ("stream", vec![vec!["XADD", "k", "1-1", "f", "v"], vec!["XADD", "k", "2-2", "f", "w"], vec!["XGROUP", "CREATE", "k", "g", "0-0"], vec!["XREADGROUP", "GROUP", "g", "c", "COUNT", "1", "STREAMS", "k", ">"]]),
    ]
}
