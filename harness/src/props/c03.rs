//! C03 — list, set and hash commands follow the Redis reference semantics (E1 per family + mixed).

use super::e1common::{self, DataProp, SpecRun};
use crate::explore::dataworld::{b, cmd, cmdb, Act, DataSpec, DataWorld};
use crate::explore::e1::World;
use crate::model::{Bytes, Model, Val};

fn sv(v: &[&str]) -> Vec<Bytes> {
    v.iter().map(|x| b(x)).collect()
}

fn list_acts() -> Vec<Act> {
    let mut a = Vec::new();
    for c in [
        vec!["LPUSH", "l", "a"], vec!["LPUSH", "l", "b"], vec!["RPUSH", "l", "a"], vec!["RPUSH", "l", "b"], vec!["LPUSH", "l", "a", "b"], vec!["RPUSH", "l", "b", "a"],
        vec!["RPUSH", "l", ""], vec!["LPUSH", "l"], vec!["LPOP", "l"], vec!["RPOP", "l"],
        vec!["LSET", "l", "0", "z"], vec!["LSET", "l", "-1", "z"], vec!["LSET", "l", "1", "z"], vec!["LSET", "l", "2", "z"], vec!["LSET", "l", "-3", "z"], vec!["LSET", "l", "-9", "z"], vec!["LSET", "l", "x", "z"],
        vec!["LTRIM", "l", "0", "-1"], vec!["LTRIM", "l", "1", "-1"], vec!["LTRIM", "l", "0", "-2"], vec!["LTRIM", "l", "1", "1"], vec!["LTRIM", "l", "2", "1"], vec!["LTRIM", "l", "-1", "-1"],
        vec!["LTRIM", "l", "0", "-9"], vec!["LTRIM", "l", "-9", "0"], vec!["LTRIM", "l", "5", "9"], vec!["LTRIM", "l", "x", "1"],
        vec!["LREM", "l", "0", "a"], vec!["LREM", "l", "1", "a"], vec!["LREM", "l", "2", "a"], vec!["LREM", "l", "-1", "a"], vec!["LREM", "l", "-2", "a"], vec!["LREM", "l", "5", "a"], vec!["LREM", "l", "1", "b"], vec!["LREM", "l", "x", "a"],
        vec!["SET", "l", "str"], vec!["DEL", "l"], vec!["LPUSH", "w", "a"], vec!["SADD", "l", "a"],
    ] {
        a.push(cmd(&c));
    }
    a.push(cmdb(vec![b("RPUSH"), b("l"), vec![0, 255, 13, 10]]));
    a
}

fn list_probes(m: &Model) -> Vec<Vec<Bytes>> {
    let mut p = Vec::new();
    for k in ["l", "w", "nokey"] {
        p.push(sv(&["LLEN", k]));
        p.push(sv(&["TYPE", k]));
        p.push(sv(&["EXISTS", k]));
    }
    let len = match m.dbs[0].keys.get(b"l".as_slice()) {
        Some(e) => match &e.val {
            Val::List(l) => l.len() as i64,
            _ => 0,
        },
        None => 0,
    };
    let mut idx: Vec<i64> = vec![0, 1, -1, -2, len - 1, len, -len, -len - 1, 100, -100];
    idx.sort();
    idx.dedup();
    for x in idx.iter() {
        p.push(vec![b("LINDEX"), b("l"), x.to_string().into_bytes()]);
        for y in idx.iter() {
            p.push(vec![b("LRANGE"), b("l"), x.to_string().into_bytes(), y.to_string().into_bytes()]);
        }
    }
    p.push(sv(&["LRANGE", "l", "a", "1"]));
    p.push(sv(&["LINDEX", "l", "z"]));
    p.push(sv(&["LRANGE", "l", "0"]));
    p.push(sv(&["LRANGE", "nokey", "0", "-1"]));
    p.push(sv(&["LINDEX", "nokey", "0"]));
    p
}

fn set_acts() -> Vec<Act> {
    let mut a = Vec::new();
    for c in [
        vec!["SADD", "s", "a"], vec!["SADD", "s", "b"], vec!["SADD", "s", "a", "b"], vec!["SADD", "s", "c", "c"], vec!["SADD", "s", ""], vec!["SADD", "s"],
        vec!["SREM", "s", "a"], vec!["SREM", "s", "b", "zz"], vec!["SREM", "s", "a", "b", "c", ""], vec!["SREM", "s", "zz"], vec!["SREM", "s", "zz", "a", "b"],
        vec!["SPOP", "s", "0"], vec!["SPOP", "s", "9"], vec!["SPOP", "s", "-1"], vec!["SPOP", "s", "x"],
        vec!["SADD", "s2", "a"], vec!["SADD", "s2", "b", "d"], vec!["SREM", "s2", "a"], vec!["SPOP", "s2", "5"],
        vec!["SET", "s", "str"], vec!["DEL", "s"], vec!["LPUSH", "w", "a"], vec!["DEL", "s2"],
    ] {
        a.push(cmd(&c));
    }
    a.push(cmdb(vec![b("SADD"), b("s"), vec![0, 255, 13, 10]]));
    a
}

fn set_probes(_m: &Model) -> Vec<Vec<Bytes>> {
    let mut p = Vec::new();
    for k in ["s", "s2", "w", "nokey"] {
        p.push(sv(&["SMEMBERS", k]));
        p.push(sv(&["SCARD", k]));
        p.push(sv(&["TYPE", k]));
        p.push(sv(&["EXISTS", k]));
        p.push(sv(&["SISMEMBER", k, "a"]));
    }
    p.push(sv(&["SISMEMBER", "s", "zz"]));
    p.push(sv(&["SISMEMBER", "s", ""]));
    let keys = ["s", "s2", "nokey", "w"];
    for op in ["SUNION", "SINTER", "SDIFF"] {
        for a in keys.iter() {
            p.push(sv(&[op, a]));
            for bk in keys.iter() {
                p.push(sv(&[op, a, bk]));
                for c in keys.iter() {
                    if a != bk || bk != c {
                        p.push(sv(&[op, a, bk, c]));
                    }
                }
            }
        }
        p.push(sv(&[op]));
    }
    for c in ["0", "1", "2", "-1", "-3", "9"] {
        p.push(sv(&["SRANDMEMBER", "s", c]));
    }
    p.push(sv(&["SRANDMEMBER", "s"]));
    p.push(sv(&["SRANDMEMBER", "nokey"]));
    p.push(sv(&["SRANDMEMBER", "nokey", "2"]));
    p.push(sv(&["SRANDMEMBER", "s", "x"]));
    p.push(sv(&["SRANDMEMBER", "w", "1"]));
    p
}

const I64MAX: &str = "9223372036854775807";

fn hash_acts() -> Vec<Act> {
    let mut a = Vec::new();
    for c in [
        vec!["HSET", "h", "f", "v"], vec!["HSET", "h", "f", "w"], vec!["HSET", "h", "g", "5"], vec!["HSET", "h", "f", "1", "g", "2"], vec!["HSET", "h", "f", "1", "f", "2"], vec!["HSET", "h", "f"], vec!["HSET", "h", "f", "1", "g"],
        vec!["HSET", "h", "", ""], vec!["HMSET", "h", "f", "v", "k", "x"], vec!["HMSET", "h", "f"], vec!["HSET", "h", "n", I64MAX], vec!["HSET", "h", "n", "007"],
        vec!["HDEL", "h", "f"], vec!["HDEL", "h", "zz"], vec!["HDEL", "h", "zz", "f", "g"], vec!["HDEL", "h", "f", "g", "zz"], vec!["HDEL", "h", "f", "g", "k", "n", ""], vec!["HDEL", "h"],
        vec!["HINCRBY", "h", "g", "1"], vec!["HINCRBY", "h", "g", "-7"], vec!["HINCRBY", "h", "f", "1"], vec!["HINCRBY", "h", "n", "1"], vec!["HINCRBY", "h", "g", "x"], vec!["HINCRBY", "h", "g", "1.5"],
        vec!["HINCRBY", "h", "new", "3"], vec!["HINCRBY", "h", "zero", "0"], vec!["HINCRBY", "h", "g", "0"], vec!["HINCRBY", "h", "g", I64MAX], vec!["HINCRBY", "h", "g", "9223372036854775808"], vec!["HINCRBY", "h", "g"],
        vec!["SET", "h", "str"], vec!["DEL", "h"], vec!["LPUSH", "w", "a"],
    ] {
        a.push(cmd(&c));
    }
    a.push(cmdb(vec![b("HSET"), b("h"), vec![0, 255, 13, 10], vec![13, 10, 0]]));
    a
}

fn hash_probes(_m: &Model) -> Vec<Vec<Bytes>> {
    let mut p = Vec::new();
    for k in ["h", "w", "nokey"] {
        p.push(sv(&["HGETALL", k]));
        p.push(sv(&["HKEYS", k]));
        p.push(sv(&["HVALS", k]));
        p.push(sv(&["HLEN", k]));
        p.push(sv(&["TYPE", k]));
        p.push(sv(&["EXISTS", k]));
        p.push(sv(&["HGET", k, "f"]));
        p.push(sv(&["HEXISTS", k, "f"]));
        p.push(sv(&["HMGET", k, "f", "zz", "g", "f"]));
    }
    for f in ["g", "k", "n", "new", "", "zz"] {
        p.push(sv(&["HGET", "h", f]));
        p.push(sv(&["HEXISTS", "h", f]));
    }
    p.push(vec![b("HGET"), b("h"), vec![0, 255, 13, 10]]);
    p.push(sv(&["HMGET", "h"]));
    p.push(sv(&["HGET", "h"]));
    p
}

fn mixed_acts() -> Vec<Act> {
    let mut a = Vec::new();
    for c in [
        vec!["RPUSH", "k", "a"], vec!["LPOP", "k"], vec!["LREM", "k", "0", "a"], vec!["LTRIM", "k", "1", "0"],
        vec!["SADD", "k", "a"], vec!["SREM", "k", "a"], vec!["SPOP", "k", "3"],
        vec!["HSET", "k", "f", "v"], vec!["HDEL", "k", "f"], vec!["HINCRBY", "k", "f", "1"],
        vec!["SET", "k", "v"], vec!["DEL", "k"], vec!["RENAME", "k", "j"], vec!["RENAME", "j", "k"], vec!["EXPIRE", "k", "100"],
        vec!["RPUSH", "j", "x"], vec!["SADD", "j", "x"], vec!["HSET", "j", "x", "y"],
    ] {
        a.push(cmd(&c));
    }
    a
}

fn mixed_probes(_m: &Model) -> Vec<Vec<Bytes>> {
    let mut p = Vec::new();
    for k in ["k", "j"] {
        for c in ["TYPE", "EXISTS", "LLEN", "SCARD", "HLEN", "SMEMBERS", "HGETALL", "TTL", "GET"] {
            p.push(sv(&[c, k]));
        }
        p.push(sv(&["LRANGE", k, "0", "-1"]));
    }
    p.push(sv(&["KEYS", "*"]));
    p.push(sv(&["DBSIZE"]));
    p
}

fn set_destructive(_m: &Model) -> Vec<Vec<Bytes>> {
    vec![sv(&["SPOP", "s"]), sv(&["SPOP", "s", "1"]), sv(&["SPOP", "s", "2"]), sv(&["SPOP", "s2"]), sv(&["SPOP", "nokey"]), sv(&["SPOP", "w"])]
}

pub fn make_world(spec: &str) -> Option<Box<dyn World>> {
    let (acts, probes): (Vec<Act>, fn(&Model) -> Vec<Vec<Bytes>>) = match spec {
        "c03-list" => (list_acts(), list_probes),
        "c03-set" => (set_acts(), set_probes),
        "c03-hash" => (hash_acts(), hash_probes),
        "c03-mixed" => (mixed_acts(), mixed_probes),
        _ => return None,
    };
    Some(Box::new(DataWorld::new(DataSpec { prop: "C03".into(), acts, probes: Box::new(probes), uses_time: false, isolated_probes: false, invariants: None, cross: None, db: 0,
        destructive_probes: if spec == "c03-set" { Some(Box::new(set_destructive)) } else { None }, on_reset: None })))
}

fn prop() -> DataProp {
    DataProp {
        id: "C03",
        specs: vec![
            SpecRun { spec: "c03-list", depth_quick: 4, depth_thorough: 6, budget_quick_s: 12.0, budget_thorough_s: 600.0 },
            SpecRun { spec: "c03-set", depth_quick: 4, depth_thorough: 6, budget_quick_s: 12.0, budget_thorough_s: 600.0 },
            SpecRun { spec: "c03-hash", depth_quick: 3, depth_thorough: 4, budget_quick_s: 12.0, budget_thorough_s: 600.0 },
            SpecRun { spec: "c03-mixed", depth_quick: 4, depth_thorough: 6, budget_quick_s: 10.0, budget_thorough_s: 600.0 },
        ],
        make_world,
        assumptions: e1common::std_assumptions(),
    }
}

fn extra_worker(_tier: &str, task: &serde_json::Value, io: &mut crate::pool::WorkerIo) -> Option<serde_json::Value> {
    super::bytesfam::worker(task, io)
}

fn extra_parent(pool: &crate::pool::Pool, _tier: &str, report: &mut crate::report::RunReport) -> serde_json::Value {
    super::bytesfam::parent(pool, report, "C03", &["list", "set", "hash"])
}

pub fn parent(tier: &str) -> i32 {
    e1common::data_parent(&prop(), tier, Some(&extra_parent))
}

pub fn handle_factory() -> impl FnMut(&str, &serde_json::Value, &mut crate::pool::WorkerIo) -> (serde_json::Value, bool) {
    e1common::data_handle_factory(make_world, Some(extra_worker))
}
