//! C17 — with a password set, unauthenticated connections can neither read nor write.
//! Exhaustive over the command table x pipeline position x connection state, plus the wrong-password family.

use super::c05::Harness;
use super::cmdtable;
use crate::pool::{Outcome, Pool, WorkerIo};
use crate::report::{Deviation, RunReport};
use crate::resp::{self, R};
use crate::srv::SrvOpts;
use crate::vtime;
use serde_json::{json, Value};
use std::collections::BTreeSet;

const PASSWORD: &str = "S3cret";

const POSITIONS: &[&str] = &["first", "after-failed-auth", "after-ping-in-same-write", "before-correct-auth-in-same-write", "lowercase", "mixedcase", "leading-crlf", "inside-multi-attempt",
    // the unauthenticated connection is being closed by an authenticated client (CLIENT KILL ID) in the very loop iteration
    // in which its command is read: visited after the killer (its state is already 'closing') and before it
    // (a seeded gate that refused only the state 'connected' served such a connection)
    "killed-just-before-being-read", "killed-just-after-being-read"];

#[derive(Clone)]
struct Case {
    name: String,
    cmd: Vec<Vec<u8>>,
    position: usize,
}

fn cases() -> Vec<Case> {
    let mut out = Vec::new();
    let mut cmds = cmdtable::all_commands();
    // a few more forms worth trying unauthenticated
    for (n, a) in [("CONFIG", vec!["SET", "slowlog-max-len", "1"]), ("CLIENT", vec!["KILL", "1"]), ("SCRIPT", vec!["LOAD", "return 1"]), ("EVAL", vec!["return redis.call('SET','pwn','1')", "0"]),
        ("REPLICAOF", vec!["127.0.0.1", "1"]), ("DEBUG", vec!["SLEEP", "0"]), ("SHUTDOWN", vec![]), ("SUBSCRIBE", vec!["c", "c2"]), ("KEYS", vec!["*"]), ("FLUSHALL", vec![])] {
        cmds.push((n.to_string(), a.iter().map(|s| s.to_string()).collect()));
    }
    for (name, ex) in cmds {
        if name == "AUTH" {
            continue;
        }
        // sentinel keys are addressed so that a leak or a write would show
        let full: Vec<Vec<u8>> = std::iter::once(name.clone().into_bytes()).chain(ex.iter().map(|s| if s == "k" { b"sent:s".to_vec() } else { s.clone().into_bytes() })).collect();
        for p in 0..POSITIONS.len() {
            out.push(Case { name: name.clone(), cmd: full.clone(), position: p });
        }
    }
    out
}

fn wrong_passwords() -> Vec<(String, Vec<u8>)> {
    let pw = PASSWORD.as_bytes();
    let mut v: Vec<(String, Vec<u8>)> = Vec::new();
    for i in 0..pw.len() {
        v.push((format!("prefix-{}", i), pw[..i].to_vec()));
    }
    for b in [b'x', b' ', 0u8, b'\n'] {
        let mut e = pw.to_vec();
        e.push(b);
        v.push((format!("extended-by-{:#x}", b), e));
        let mut e = vec![b];
        e.extend_from_slice(pw);
        v.push((format!("preceded-by-{:#x}", b), e));
    }
    for i in 0..pw.len() {
        if pw[i].is_ascii_alphabetic() {
            let mut e = pw.to_vec();
            e[i] ^= 0x20;
            v.push((format!("case-flip-{}", i), e));
        }
    }
    v.push(("upper".into(), PASSWORD.to_uppercase().into_bytes()));
    v.push(("lower".into(), PASSWORD.to_lowercase().into_bytes()));
    v.push(("invalid-utf8".into(), vec![0xff, 0xfe, b'S', b'3']));
    v.push(("1MiB".into(), vec![b'S'; 1 << 20]));
    v.push(("password-twice".into(), format!("{}{}", PASSWORD, PASSWORD).into_bytes()));
    v
}

struct Snap {
    dump: String,
    pubsub: String,
    replicas: usize,
    monitors: usize,
    conn_states: String,
}

fn snapshot(h: &Harness) -> Snap {
    let srv = h.srv.as_ref().unwrap();
    let mut dump = String::new();
    for db in 0..16 {
        dump.push_str(&srv.h.storage.verif_raw_dump(db, 0));
    }
    let ps = srv.h.pubsub.verif_snapshot();
    Snap {
        dump,
        pubsub: format!("{:?}", ps),
        replicas: srv.h.replication.get_replicas().len(),
        monitors: srv.h.monitors.get_subscribers().len(),
        conn_states: String::new(),
    }
}

fn ensure_dataset(h: &mut Harness) -> Result<(), String> {
    h.ensure()?;
    let have = h.aux_call(&["EXISTS", "sent:s"])?;
    if have != R::Int(1) {
        h.aux_call(&["FLUSHALL"])?;
        for c in [vec!["SET", "sent:s", "secret-value"], vec!["RPUSH", "sent:l", "a"], vec!["SADD", "sent:set", "m"], vec!["HSET", "sent:h", "f", "v"], vec!["ZADD", "sent:z", "1", "m"], vec!["XADD", "sent:x", "1-1", "f", "v"]] {
            h.aux_call(&c)?;
        }
    }
    Ok(())
}

fn recase(b: &[u8], mixed: bool) -> Vec<u8> {
    b.iter().enumerate().map(|(i, c)| if mixed && i % 2 == 0 { c.to_ascii_uppercase() } else { c.to_ascii_lowercase() }).collect()
}

fn run_case(h: &mut Harness, c: &Case) -> Result<(String, Value), String> {
    ensure_dataset(h)?;
    let before = snapshot(h);
    let mut cli = h.srv.as_ref().unwrap().connect().map_err(|e| format!("connect: {:?}", e))?;
    let killed = POSITIONS[c.position].starts_with("killed-");
    let mut dummies: Vec<crate::srv::Client> = Vec::new();
    if killed {
        // connections are visited in the order of id % 16: pick a connection on the wanted side of the killer
        let aux_slot = h.aux.as_ref().map(|a| a.id % 16).unwrap_or(0);
        let want_after = POSITIONS[c.position] == "killed-just-before-being-read";
        let mut tries = 0;
        while (cli.id % 16 > aux_slot) != want_after || cli.id % 16 == aux_slot {
            tries += 1;
            if tries > 40 {
                return Err("no connection id on the wanted side of the control connection".into());
            }
            dummies.push(cli);
            cli = h.srv.as_ref().unwrap().connect().map_err(|e| format!("connect: {:?}", e))?;
        }
    }
    let conn_id = cli.id;
    let mut cmd = c.cmd.clone();
    let mut bytes = Vec::new();
    let mut expect_before = 0; // replies that precede the command's reply
    let mut expect_after = 0;
    match POSITIONS[c.position] {
        "after-failed-auth" => {
            bytes.extend(resp::cmd(&["AUTH", "wrong"]));
            expect_before = 1;
        }
        "after-ping-in-same-write" => {
            bytes.extend(resp::cmd(&["PING"]));
            expect_before = 1;
        }
        "lowercase" => cmd[0] = recase(&cmd[0], false),
        "mixedcase" => cmd[0] = recase(&cmd[0], true),
        "leading-crlf" => bytes.extend_from_slice(b"\r\n \r\n"),
        "inside-multi-attempt" => {
            bytes.extend(resp::cmd(&["MULTI"]));
            expect_before = 1;
        }
        _ => {}
    }
    bytes.extend(resp::cmd(&cmd));
    match POSITIONS[c.position] {
        "before-correct-auth-in-same-write" => {
            bytes.extend(resp::cmd(&["AUTH", PASSWORD]));
            expect_after = 1;
        }
        "inside-multi-attempt" => {
            bytes.extend(resp::cmd(&["EXEC"]));
            expect_after = 1;
        }
        _ => {}
    }
    if killed {
        // both writes are in the sockets before the loop runs again
        let id = conn_id.to_string();
        h.aux.as_mut().unwrap().send(&resp::cmd(&["CLIENT", "KILL", "ID", id.as_str()]));
    }
    cli.send(&bytes);
    let want = expect_before + 1 + expect_after;
    let (got, err) = h.collect(&mut cli, want, 4);
    if killed {
        // the control connection's reply to CLIENT KILL
        let srv = h.srv.as_ref().unwrap();
        let aux = h.aux.as_mut().unwrap();
        aux.poll();
        let _ = aux.take_frame();
        let _ = srv;
    }
    for mut d in dummies {
        d.discard();
    }
    let mut problems: Vec<String> = Vec::new();
    if h.srv.as_ref().unwrap().is_dead() {
        return Ok(("server-exited".into(), json!({"request": resp::show_cmd(&cmd), "position": POSITIONS[c.position], "panic": crate::srv::LAST_PANIC.lock().unwrap().clone()})));
    }
    let harmless = matches!(c.name.as_str(), "PING" | "QUIT");
    let reply = got.get(expect_before).cloned();
    match &reply {
        Some(R::Err(_)) => {}
        Some(other) => {
            if !harmless {
                problems.push(format!("answered-{}", resp::class(other)));
            }
        }
        None => {
            if !(harmless && c.name == "QUIT") && !killed {
                problems.push(format!("no-error-reply({})", err.clone().unwrap_or_else(|| "silence".into()).split(':').next().unwrap_or("")));
            }
        }
    }
    if got.len() > want {
        problems.push("extra-frames".into());
    }
    // nothing unsolicited may arrive later: make the rest of the world busy, then drain
    let _ = h.aux_call(&["PUBLISH", "c", "msg"]);
    let _ = h.aux_call(&["PUBLISH", "p1", "msg"]);
    let _ = h.aux_call(&["SET", "sent:probe", "x"]);
    let _ = h.aux_call(&["DEL", "sent:probe"]);
    vtime::tick(1_000_000_000).map_err(|_| "settle timeout".to_string())?;
    let authed_now = POSITIONS[c.position] == "before-correct-auth-in-same-write";
    let (later, _) = h.collect(&mut cli, 1, 2);
    if !later.is_empty() && !authed_now {
        problems.push("unsolicited-bytes".into());
    }
    // side effects seen from the inside
    let after = snapshot(h);
    if after.dump != before.dump {
        problems.push("dataset-changed".into());
    }
    if after.pubsub != before.pubsub && !authed_now {
        problems.push("subscription-table-changed".into());
    }
    if after.replicas != before.replicas {
        problems.push("replica-registered".into());
    }
    if after.monitors != before.monitors {
        problems.push("monitor-registered".into());
    }
    let rows = (h.srv.as_ref().unwrap().h.connections)();
    if let Some(row) = rows.iter().find(|r| r.id == conn_id) {
        if !authed_now && row.state == "authenticated" {
            problems.push("connection-became-authenticated".into());
        }
        if row.in_multi || row.queued > 0 || row.watched > 0 {
            problems.push("transaction-state-changed".into());
        }
        if row.state == "blocked" {
            problems.push("connection-blocked".into());
        }
    }
    let detail = json!({"request": resp::show_cmd(&cmd), "position": POSITIONS[c.position], "replies": got.iter().map(resp::show).map(|s| if s.len() > 120 { format!("{}…", &s[..120]) } else { s }).collect::<Vec<_>>(), "later_frames": later.len()});
    cli.discard();
    let _ = h.srv.as_ref().unwrap().steps(2);
    if after.replicas != before.replicas || after.monitors != before.monitors || after.dump != before.dump {
        // do not let a leak contaminate the next case
        h.srv = None;
        h.aux = None;
    }
    problems.sort();
    Ok((if problems.is_empty() { "refused".into() } else { problems.join("+") }, detail))
}

fn run_password(h: &mut Harness, name: &str, pw: &[u8]) -> Result<(String, Value), String> {
    ensure_dataset(h)?;
    let mut cli = h.srv.as_ref().unwrap().connect().map_err(|e| format!("connect: {:?}", e))?;
    let mut bytes = resp::cmd(&[b"AUTH".to_vec(), pw.to_vec()]);
    bytes.extend(resp::cmd(&["GET", "sent:s"]));
    h.srv.as_ref().unwrap().send_all(&mut cli, &bytes).map_err(|e| format!("{:?}", e))?;
    let (got, _) = h.collect(&mut cli, 2, 4 + bytes.len() / 4096);
    let mut problems = Vec::new();
    if !matches!(got.first(), Some(R::Err(_))) {
        problems.push(format!("AUTH-answered-{}", got.first().map(resp::class).unwrap_or_else(|| "nothing".into())));
    }
    if !matches!(got.get(1), Some(R::Err(_))) {
        problems.push(format!("GET-answered-{}", got.get(1).map(resp::class).unwrap_or_else(|| "nothing".into())));
    }
    cli.discard();
    let _ = h.srv.as_ref().unwrap().steps(2);
    Ok((if problems.is_empty() { "refused".into() } else { problems.join("+") }, json!({"password_variant": name, "replies": got.iter().map(resp::show).collect::<Vec<_>>()})))
}

fn run_positive(h: &mut Harness) -> Result<Vec<String>, String> {
    // the exact password authenticates exactly that connection
    ensure_dataset(h)?;
    let mut problems = Vec::new();
    let srv_ptr = h.srv.as_ref().unwrap();
    let mut a = srv_ptr.connect().map_err(|e| format!("{:?}", e))?;
    let mut b2 = srv_ptr.connect().map_err(|e| format!("{:?}", e))?;
    let r = srv_ptr.call(&mut a, &["AUTH", PASSWORD]).map_err(|e| format!("{:?}", e))?;
    if r != R::ok() {
        problems.push(format!("exact password refused: {}", resp::show(&r)));
    }
    let r = srv_ptr.call(&mut a, &["GET", "sent:s"]).map_err(|e| format!("{:?}", e))?;
    if r != R::Bulk(b"secret-value".to_vec()) {
        problems.push(format!("authenticated GET -> {}", resp::show(&r)));
    }
    let r = srv_ptr.call(&mut b2, &["GET", "sent:s"]).map_err(|e| format!("{:?}", e))?;
    if !r.is_err() {
        problems.push(format!("another connection is served after someone else authenticated: {}", resp::show(&r)));
    }
    // a failed AUTH on an authenticated connection changes nothing
    let r = srv_ptr.call(&mut a, &["AUTH", "nope"]).map_err(|e| format!("{:?}", e))?;
    if !r.is_err() {
        problems.push("wrong password accepted on an authenticated connection".into());
    }
    let r = srv_ptr.call(&mut a, &["GET", "sent:s"]).map_err(|e| format!("{:?}", e))?;
    if r != R::Bulk(b"secret-value".to_vec()) {
        problems.push(format!("GET after a failed re-AUTH -> {}", resp::show(&r)));
    }
    a.discard();
    b2.discard();
    Ok(problems)
}


/// Where the password comes from: the configuration file, the command line, both or neither, combined with other
/// command-line options - the configuration the server is built from must carry the command line's password if there
/// is one and otherwise the file's (a seeded overlay of the command-line options wiped the file's requirepass whenever
/// no password option was given, so a server configured through its file alone started without any password).
fn config_sources() -> Vec<String> {
    use ferrous::config::{CliArgs, Config};
    let mut problems = Vec::new();
    let dir = std::env::temp_dir().join(format!("vcheck-c17-conf-{}", std::process::id()));
    let _ = std::fs::create_dir_all(&dir);
    for file_pw in [None, Some("file-secret")] {
        for with_file in [false, true] {
            if file_pw.is_some() && !with_file {
                continue;
            }
            for cli_pw in [None, Some("cli-secret")] {
                for other in 0..4usize {
                    let mut config = if with_file {
                        let path = dir.join("ferrous.conf");
                        let mut text = String::from("port 6390\n");
                        if let Some(pw) = file_pw {
                            text.push_str(&format!("requirepass {}\n", pw));
                        }
                        if std::fs::write(&path, text).is_err() {
                            problems.push("machinery: cannot write the configuration file".to_string());
                            continue;
                        }
                        match Config::from_file(&path) {
                            Ok(c) => c,
                            Err(e) => {
                                problems.push(format!("configuration file refused: {}", e));
                                continue;
                            }
                        }
                    } else {
                        Config::default()
                    };
                    let mut args = CliArgs::default();
                    args.password = cli_pw.map(|s| s.to_string());
                    match other {
                        1 => args.port = Some(6391),
                        2 => args.dir = Some(dir.to_string_lossy().to_string()),
                        3 => args.appendonly = true,
                        _ => {}
                    }
                    config.apply_cli_args(args);
                    let want: Option<String> = cli_pw.or(file_pw).map(|s| s.to_string());
                    if config.network.password != want {
                        problems.push(format!("password from {}{}{}: the server would be built with {:?}, expected {:?}",
                            if file_pw.is_some() { "the file" } else if with_file { "a file without requirepass" } else { "no file" },
                            if cli_pw.is_some() { " and the command line" } else { "" },
                            match other { 1 => " (--port given)", 2 => " (--dir given)", 3 => " (--appendonly given)", _ => "" },
                            config.network.password.as_ref().map(|_| "a password"), want.as_ref().map(|_| "a password")));
                    }
                }
            }
        }
    }
    let _ = std::fs::remove_dir_all(&dir);
    problems.sort();
    problems.dedup();
    problems
}

pub fn handle_factory() -> impl FnMut(&str, &Value, &mut WorkerIo) -> (Value, bool) {
    let mut h = Harness::new(SrvOpts { password: Some(PASSWORD.to_string()), ..Default::default() });
    move |_tier: &str, task: &Value, io: &mut WorkerIo| {
        let all = cases();
        if let Some(r) = task.get("replay") {
            if let Some(i) = r["index"].as_u64() {
                if let Some(c) = all.get(i as usize) {
                    return (match run_case(&mut h, c) {
                        Ok((o, d)) => json!({"outcome": o, "detail": d}),
                        Err(e) => json!({"machinery_error": e}),
                    }, false);
                }
            }
            return (json!({"note": "see the case in the replay file"}), false);
        }
        if task.get("passwords").is_some() {
            let mut recs = Vec::new();
            for (n, pw) in wrong_passwords() {
                match run_password(&mut h, &n, &pw) {
                    Ok((o, d)) => recs.push(json!({"variant": n, "outcome": o, "detail": d})),
                    Err(e) => recs.push(json!({"variant": n, "machinery_error": e})),
                }
            }
            let mut pos = run_positive(&mut h).unwrap_or_else(|e| vec![format!("machinery: {}", e)]);
            pos.extend(config_sources());
            return (json!({"recs": recs, "positive": pos}), false);
        }
        let (a, b) = (task["range"][0].as_u64().unwrap_or(0) as usize, task["range"][1].as_u64().unwrap_or(0) as usize);
        let mut recs = Vec::new();
        for i in a..b.min(all.len()) {
            io.announce_case(json!({"i": i, "cmd": resp::show_cmd(&all[i].cmd), "position": POSITIONS[all[i].position]}));
            match run_case(&mut h, &all[i]) {
                Ok((o, d)) => recs.push(json!({"i": i, "outcome": o, "detail": d})),
                Err(e) => recs.push(json!({"i": i, "machinery_error": e})),
            }
        }
        (json!({"recs": recs}), h.restarts > 60)
    }
}

pub fn parent(tier: &str) -> i32 {
    let mut report = RunReport::new("C17", tier, "exploration");
    let pool = Pool::new("C17", tier, super::e1common::nworkers());
    let all = cases();
    let mut tasks = Vec::new();
    let chunk = 40;
    let mut i = 0;
    while i < all.len() {
        tasks.push(json!({"range": [i, (i + chunk).min(all.len())]}));
        i += chunk;
    }
    tasks.push(json!({"passwords": true}));
    let out = pool.map(tasks.clone(), 0);
    let mut evaluations = 0u64;
    let mut distinct: BTreeSet<String> = BTreeSet::new();
    let mut outcomes: BTreeSet<String> = BTreeSet::new();
    let mut samples = Vec::new();
    for (t, o) in tasks.iter().zip(out.iter()) {
        match o {
            Outcome::Done(v) => {
                for r in v["recs"].as_array().cloned().unwrap_or_default() {
                    evaluations += 1;
                    if let Some(e) = r.get("machinery_error") {
                        report.machinery_errors.push(format!("{}", e));
                        continue;
                    }
                    let outcome = r["outcome"].as_str().unwrap_or("").to_string();
                    outcomes.insert(outcome.clone());
                    if t.get("passwords").is_some() {
                        let variant = r["variant"].as_str().unwrap_or("").to_string();
                        distinct.insert(format!("pw|{}", variant));
                        if outcome != "refused" {
                            report.deviations.push(Deviation { property: "C17".into(), sig: format!("C17|PASSWORD|{}|{}", variant.split('-').next().unwrap_or(""), outcome), replay: json!({"kind": "password", "case": r}) });
                        }
                    } else {
                        let idx = r["i"].as_u64().unwrap_or(0) as usize;
                        let c = &all[idx];
                        distinct.insert(format!("{}|{}|{}", c.name, c.cmd.len(), c.position));
                        if samples.len() < 3 && (idx % 211 == 0) {
                            samples.push(r["detail"].clone());
                        }
                        if outcome != "refused" {
                            report.deviations.push(Deviation { property: "C17".into(), sig: format!("C17|{}|{}|{}", c.name, POSITIONS[c.position], outcome), replay: json!({"kind": "case", "index": idx, "detail": r["detail"], "outcome": outcome}) });
                        }
                    }
                }
                for p in v["positive"].as_array().cloned().unwrap_or_default() {
                    report.deviations.push(Deviation { property: "C17".into(), sig: format!("C17|POSITIVE|{}", p.as_str().unwrap_or("").split(':').next().unwrap_or("")), replay: json!({"kind": "positive", "problem": p}) });
                }
            }
            Outcome::Died { status, case } => {
                report.deviations.push(Deviation { property: "C17".into(), sig: format!("C17|{}|{}|process-died", case.as_ref().map(|c| c["cmd"].as_str().unwrap_or("?").split(' ').next().unwrap_or("?").to_string()).unwrap_or_default(), case.as_ref().map(|c| c["position"].as_str().unwrap_or("?").to_string()).unwrap_or_default()), replay: json!({"kind": "died", "status": status, "case": case}) });
            }
        }
    }
    if samples.is_empty() {
        samples.push(json!({"note": "no sample"}));
    }
    println!("  c17: cases={} outcomes={:?}", evaluations, outcomes);
    report.coverage = json!({
        "evaluations": evaluations, "distinct_nontrivial": distinct.len(),
        "rule": "complete product: every dispatched command name (table + scraped from the source, incl. SYNC, PSYNC, REPLCONF, MONITOR, (P)SUBSCRIBE, EVAL, MULTI/EXEC, SHUTDOWN, CONFIG, CLIENT) with plausible arguments addressing the sentinel data x 10 positions (first on a new connection; after a failed AUTH; second in one write after PING; in one write before a correct AUTH; lower case; mixed case; after leading CRLF/space; between MULTI and EXEC; while the connection is being killed by an authenticated client's CLIENT KILL in the same loop iteration, visited after and before the killer), plus every proper prefix / one-byte extension / case flip / binary / 1 MiB variant of the password, plus the positive cases, plus the sources of the password (configuration file / command line / both / neither x 4 sets of other command-line options: the configuration the server is built from carries the command line's password if given, else the file's). After every case: reply is an error, no later unsolicited bytes, internal dump of all 16 dbs, pub/sub tables, replica list, monitor list and the connection's own state unchanged, server alive.",
        "samples": samples, "exhaustive": true, "outcomes": outcomes.iter().cloned().collect::<Vec<_>>(), "positions": POSITIONS,
    });
    report.assumptions = vec!["PING and QUIT are the only commands besides AUTH that may be answered before authentication (as the property states)".into()];
    report.finish()
}
