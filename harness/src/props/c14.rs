//! C14 — pub/sub delivers each message exactly once per matching subscription (E1 over multi-client
//! histories + exhaustive comparison of the pub/sub glob matcher with the reference).

use super::e1common::{self, DataProp, SpecRun};
use crate::explore::e1::World;
use crate::explore::multiworld::{mcmd, MAct, MultiSpec, MultiWorld};
use crate::model::glob::{glob_is_dc, glob_match};
use crate::pool::{Outcome, Pool, WorkerIo};
use crate::report::{Deviation, RunReport};
use crate::srv::SrvOpts;
use serde_json::{json, Value};

fn acts() -> Vec<MAct> {
    let mut a = Vec::new();
    for c in 0..2usize {
        for cmdline in [
            vec!["SUBSCRIBE", "c1"], vec!["SUBSCRIBE", "c1", "c2"], vec!["PSUBSCRIBE", "c*"], vec!["PSUBSCRIBE", "c?", "*1"], vec!["PSUBSCRIBE", "[c]1"],
            vec!["UNSUBSCRIBE", "c1"], vec!["UNSUBSCRIBE"], vec!["PUNSUBSCRIBE", "c*"], vec!["PUNSUBSCRIBE"], vec!["UNSUBSCRIBE", "c2", "zz"],
            // a pattern spelled exactly like a channel, and a channel spelled like a pattern: the two tables share
            // their key type, so a slip that uses one for the other shows only when the names coincide
            vec!["PSUBSCRIBE", "c1"], vec!["SUBSCRIBE", "c*"], vec!["PUNSUBSCRIBE", "c1"], vec!["UNSUBSCRIBE", "c*"],
        ] {
            a.push(mcmd(c, &cmdline));
        }
        a.push(MAct::Close(c));
    }
    a.push(mcmd(2, &["SUBSCRIBE", "c2"]));
    a.push(mcmd(2, &["PSUBSCRIBE", "*"]));
    a.push(mcmd(2, &["UNSUBSCRIBE"]));
    a.push(mcmd(3, &["PUBLISH", "c1", "m1"]));
    a.push(mcmd(3, &["PUBLISH", "c2", "m2"]));
    a.push(mcmd(3, &["PUBLISH", "zz", "m3"]));
    a.push(MAct::Cmd(3, vec![b"PUBLISH".to_vec(), b"c1".to_vec(), b"bin\r\n\x00\xff$5\r\n".to_vec()]));
    a.push(mcmd(3, &["PUBLISH", "c1"]));
    a
}

fn make_world(spec: &str) -> Option<Box<dyn World>> {
    // "-sameshard": the same alphabet with all connections in one shard of the server's connection table
    let stride = match spec {
        "c14-pubsub" => 1,
        "c14-pubsub-sameshard" => 16,
        _ => return None,
    };
    Some(Box::new(MultiWorld::new(MultiSpec { prop: "C14".into(), nconns: 4, acts: acts(), probes: vec![], uses_time: false, dump: false, srv_opts: SrvOpts { conn_stride: stride, ..SrvOpts::default() } })))
}

fn glob_sweep(maxlen: usize) -> Value {
    let alphabet: &[u8] = b"ab*?[]^-\\";
    let texts_alpha: &[u8] = b"ab-]";
    let mut texts: Vec<Vec<u8>> = Vec::new();
    for l in 1..=3usize {
        let mut idx = vec![0usize; l];
        loop {
            texts.push(idx.iter().map(|i| texts_alpha[*i]).collect());
            let mut k = 0;
            while k < l {
                idx[k] += 1;
                if idx[k] < texts_alpha.len() {
                    break;
                }
                idx[k] = 0;
                k += 1;
            }
            if k == l {
                break;
            }
        }
    }
    let mut evals = 0u64;
    let mut patterns = 0u64;
    let mut dc = 0u64;
    let mut devs: Vec<Value> = Vec::new();
    for l in 1..=maxlen {
        let mut idx = vec![0usize; l];
        loop {
            let pat: Vec<u8> = idx.iter().map(|i| alphabet[*i]).collect();
            patterns += 1;
            if glob_is_dc(&pat) {
                dc += 1;
            } else {
                for t in texts.iter() {
                    let want = glob_match(&pat, t);
                    let got = ferrous::pubsub::pattern_matches(&pat, t);
                    evals += 1;
                    if want != got && devs.len() < 3000 {
                        devs.push(json!({"pattern": String::from_utf8_lossy(&pat), "text": String::from_utf8_lossy(t), "expected": want, "actual": got}));
                    }
                }
            }
            let mut k = 0;
            while k < l {
                idx[k] += 1;
                if idx[k] < alphabet.len() {
                    break;
                }
                idx[k] = 0;
                k += 1;
            }
            if k == l {
                break;
            }
        }
    }
    // token-level patterns (range classes, negated ranges, escapes, odd classes) x texts that contain the range ends
    let ttexts = crate::model::glob::token_texts();
    for pat in crate::model::glob::token_patterns(if maxlen >= 5 { 3 } else { 2 }) {
        patterns += 1;
        if glob_is_dc(&pat) {
            dc += 1;
            continue;
        }
        for t in ttexts.iter() {
            let want = glob_match(&pat, t);
            let got = ferrous::pubsub::pattern_matches(&pat, t);
            evals += 1;
            if want != got && devs.len() < 3000 {
                devs.push(json!({"pattern": String::from_utf8_lossy(&pat), "text": String::from_utf8_lossy(t), "expected": want, "actual": got}));
            }
        }
    }
    json!({"patterns": patterns, "dont_care_patterns": dc, "evaluations": evals, "devs": devs})
}

/// The same comparison through the commands: one connection PSUBSCRIBEs to every pattern (all of length <= 3 over the
/// 9-symbol alphabet and the token-level ones, don't-cares left out), every text is PUBLISHed as a channel name; the
/// integer reply and the set of patterns named by the pmessage frames that arrive must be exactly the patterns the
/// reference matches (a seeded "cheap reject" in PUBLISH's fan-out compared the literal prefix of the pattern, escapes
/// included, before it called the matcher: the matcher alone was as good as ever).
fn glob_through_publish(maxlen: usize) -> Value {
    use super::c05::Harness;
    use crate::resp::{self, R};
    let alphabet: &[u8] = b"ab*?[]^-\\";
    let mut patterns: Vec<Vec<u8>> = Vec::new();
    for l in 1..=3usize.min(maxlen) {
        let mut idx = vec![0usize; l];
        loop {
            let pat: Vec<u8> = idx.iter().map(|i| alphabet[*i]).collect();
            if !glob_is_dc(&pat) {
                patterns.push(pat);
            }
            let mut k = 0;
            while k < l {
                idx[k] += 1;
                if idx[k] < alphabet.len() {
                    break;
                }
                idx[k] = 0;
                k += 1;
            }
            if k == l {
                break;
            }
        }
    }
    for pat in crate::model::glob::token_patterns(2) {
        if !glob_is_dc(&pat) {
            patterns.push(pat);
        }
    }
    patterns.sort();
    patterns.dedup();
    let mut texts: Vec<Vec<u8>> = Vec::new();
    let texts_alpha: &[u8] = b"ab-]";
    for l in 1..=3usize {
        let mut idx = vec![0usize; l];
        loop {
            texts.push(idx.iter().map(|i| texts_alpha[*i]).collect());
            let mut k = 0;
            while k < l {
                idx[k] += 1;
                if idx[k] < texts_alpha.len() {
                    break;
                }
                idx[k] = 0;
                k += 1;
            }
            if k == l {
                break;
            }
        }
    }
    texts.extend(crate::model::glob::token_texts());
    // texts in which the escaped metacharacters occur literally
    for t in ["*", "a*", "?b", "[a]", "a\\", "\\a", "a.b", "^a"] {
        texts.push(t.as_bytes().to_vec());
    }
    texts.sort();
    texts.dedup();
    let mut devs: Vec<Value> = Vec::new();
    let mut errors: Vec<String> = Vec::new();
    let mut evals = 0u64;
    let mut h = Harness::new(SrvOpts::default());
    let mut run = || -> Result<(), String> {
        h.ensure()?;
        let mut sub = h.srv.as_ref().unwrap().connect().map_err(|e| format!("connect: {:?}", e))?;
        for chunk in patterns.chunks(64) {
            let mut a: Vec<Vec<u8>> = vec![b"PSUBSCRIBE".to_vec()];
            a.extend(chunk.iter().cloned());
            h.srv.as_ref().unwrap().send_all(&mut sub, &resp::cmd(&a)).map_err(|e| format!("psubscribe: {:?}", e))?;
            let (acks, err) = h.collect(&mut sub, chunk.len(), 6);
            if acks.len() != chunk.len() || err.is_some() {
                return Err(format!("PSUBSCRIBE of {} patterns acknowledged {} ({:?})", chunk.len(), acks.len(), err));
            }
        }
        for t in texts.iter() {
            let want: std::collections::BTreeSet<Vec<u8>> = patterns.iter().filter(|p| glob_match(p, t)).cloned().collect();
            let r = h.aux_call(&[b"PUBLISH".to_vec(), t.clone(), b"m".to_vec()])?;
            let (frames, err) = h.collect(&mut sub, want.len().max(1), 4);
            if let Some(e) = err {
                return Err(format!("collecting pmessages: {}", e));
            }
            let mut got: std::collections::BTreeSet<Vec<u8>> = Default::default();
            let mut malformed = false;
            for f in frames.iter() {
                match f {
                    R::Arr(v) if v.len() == 4 && v[0] == R::Bulk(b"pmessage".to_vec()) && v[2] == R::Bulk(t.clone()) => {
                        if let R::Bulk(p) = &v[1] {
                            if !got.insert(p.clone()) {
                                malformed = true; // the same subscription served twice
                            }
                        }
                    }
                    _ => malformed = true,
                }
            }
            evals += patterns.len() as u64;
            for p in want.symmetric_difference(&got) {
                if devs.len() < 3000 {
                    devs.push(json!({"pattern": String::from_utf8_lossy(p), "text": String::from_utf8_lossy(t), "expected": want.contains(p), "actual": got.contains(p), "through": "PSUBSCRIBE + PUBLISH"}));
                }
            }
            if want == got && (malformed || r != R::Int(want.len() as i64)) && devs.len() < 3000 {
                devs.push(json!({"pattern": "(all)", "text": String::from_utf8_lossy(t), "expected": true, "actual": false, "through": "PSUBSCRIBE + PUBLISH", "publish_reply": resp::show(&r), "deliveries": got.len(), "malformed_or_repeated_frames": malformed}));
            }
        }
        sub.discard();
        Ok(())
    };
    if let Err(e) = run() {
        errors.push(e);
    }
    json!({"through_publish": {"patterns": patterns.len(), "texts": texts.len(), "evaluations": evals, "devs": devs, "errors": errors}})
}

fn glob_class(pat: &str, expected: bool) -> String {
    let mut f = Vec::new();
    if pat.contains('[') {
        f.push("class");
    }
    if pat.contains('\\') {
        f.push("escape");
    }
    if pat.contains('*') {
        f.push("star");
    }
    if pat.contains('?') {
        f.push("qmark");
    }
    if f.is_empty() {
        f.push("literal");
    }
    format!("C14|GLOB|{}|exp={}", f.join("+"), expected)
}

/// Subscribers whose connection goes away in every way the server can notice it - at a read (orderly close, reset) or at
/// a write (output pending for a subscriber that never reads, then close or reset): afterwards no table may name the
/// connection and PUBLISH must count nobody. Complete product: 3 subscription sets x {no backlog, 8 MiB backlog} x
/// {close, reset} x {one subscriber, a second one that stays}.
fn departing_subscriber_cases() -> Value {
    use super::c05::Harness;
    use crate::resp::{self, R};
    let mut h = Harness::new(SrvOpts::default());
    let mut recs = Vec::new();
    let mut errors: Vec<String> = Vec::new();
    let mut n = 0u64;
    let subs: Vec<(&str, Vec<Vec<&str>>)> = vec![
        ("SUBSCRIBE c", vec![vec!["SUBSCRIBE", "c"]]),
        ("PSUBSCRIBE c*", vec![vec!["PSUBSCRIBE", "c*"]]),
        ("SUBSCRIBE c d, PSUBSCRIBE c*", vec![vec!["SUBSCRIBE", "c", "d"], vec!["PSUBSCRIBE", "c*"]]),
    ];
    let payload = vec![b'x'; 64 * 1024];
    for (sname, setup) in subs.iter() {
        for backlog in [false, true] {
            for reset in [false, true] {
                for stayer in [false, true] {
                    n += 1;
                    let name = format!("{}; {}; {}; {}", sname, if backlog { "8 MiB of messages unread" } else { "nothing pending" }, if reset { "reset" } else { "close" }, if stayer { "a second subscriber stays" } else { "alone" });
                    let mut run = || -> Result<Option<String>, String> {
                        h.ensure()?;
                        let mut s1 = h.srv.as_ref().unwrap().connect().map_err(|e| format!("connect: {:?}", e))?;
                        let mut acks = 0;
                        for c in setup.iter() {
                            s1.send(&resp::cmd(c));
                            acks += c.len() - 1;
                        }
                        let (got, err) = h.collect(&mut s1, acks, 4);
                        if got.len() != acks || err.is_some() {
                            return Err(format!("subscribing: {} acks, {:?}", got.len(), err));
                        }
                        let mut s2 = None;
                        if stayer {
                            let mut c2 = h.srv.as_ref().unwrap().connect().map_err(|e| format!("connect: {:?}", e))?;
                            c2.send(&resp::cmd(&["SUBSCRIBE", "c"]));
                            let (g2, e2) = h.collect(&mut c2, 1, 4);
                            if g2.len() != 1 || e2.is_some() {
                                return Err("second subscriber".into());
                            }
                            s2 = Some(c2);
                        }
                        if backlog {
                            for _ in 0..128 {
                                h.aux_call(&[b"PUBLISH".to_vec(), b"c".to_vec(), payload.clone()])?;
                                if let Some(c2) = s2.as_mut() {
                                    // the one that stays reads what it gets
                                    c2.poll();
                                    let _ = c2.take_all();
                                }
                            }
                        }
                        let id = s1.id;
                        if reset { s1.discard() } else { s1.close() }
                        drop(s1);
                        let mut gone = false;
                        for _ in 0..40 {
                            let _ = h.srv.as_ref().unwrap().steps(2);
                            if let Some(c2) = s2.as_mut() {
                                c2.poll();
                                let _ = c2.take_all();
                            }
                            if !(h.srv.as_ref().unwrap().h.connections)().iter().any(|r| r.id == id) {
                                gone = true;
                                break;
                            }
                        }
                        if !gone {
                            return Ok(Some("departed-connection-still-in-the-connection-table".into()));
                        }
                        let _ = h.srv.as_ref().unwrap().steps(2);
                        let (ch, pa, co) = h.srv.as_ref().unwrap().h.pubsub.verif_snapshot();
                        let named = ch.iter().any(|(_, ids)| ids.contains(&id)) || pa.iter().any(|(_, ids)| ids.contains(&id)) || co.iter().any(|(c, _, _)| *c == id);
                        let r = h.aux_call(&["PUBLISH", "c", "after"])?;
                        let want = if stayer { 1 } else { 0 };
                        if let Some(mut c2) = s2.take() {
                            c2.discard();
                        }
                        let _ = h.srv.as_ref().unwrap().steps(3);
                        if named {
                            return Ok(Some("subscription-tables-still-name-the-departed-connection".into()));
                        }
                        if r != R::Int(want) {
                            return Ok(Some(format!("publish-counts-{}-receivers-instead-of-{}", resp::show(&r), want)));
                        }
                        Ok(None)
                    };
                    match run() {
                        Ok(Some(p)) => recs.push(json!({"name": name, "problem": p})),
                        Ok(None) => {}
                        Err(e) => {
                            errors.push(format!("{}: {}", name, e));
                            h.srv = None;
                            h.aux = None;
                        }
                    }
                }
            }
        }
    }
    json!({"departing": {"cases": n, "recs": recs, "errors": errors}})
}

fn extra_worker(_tier: &str, task: &Value, _io: &mut WorkerIo) -> Option<Value> {
    if task.get("departing").is_some() || task.get("replay").map(|r| r["kind"] == "departing").unwrap_or(false) {
        return Some(departing_subscriber_cases());
    }
    if let Some(l) = task.get("glob_publish") {
        return Some(glob_through_publish(l.as_u64().unwrap_or(3) as usize));
    }
    task.get("glob").map(|l| glob_sweep(l.as_u64().unwrap_or(3) as usize))
}

fn extra_parent(pool: &Pool, tier: &str, report: &mut RunReport) -> Value {
    let gl = if tier == "thorough" { 5 } else { 4 };
    let out = pool.map(vec![json!({"glob": gl}), json!({"departing": true}), json!({"glob_publish": gl})], 0);
    let mut through = json!({});
    match &out[2] {
        Outcome::Done(v) => {
            let t = &v["through_publish"];
            for e in t["errors"].as_array().cloned().unwrap_or_default() {
                report.machinery_errors.push(format!("glob through PUBLISH: {}", e));
            }
            for d in t["devs"].as_array().cloned().unwrap_or_default() {
                report.deviations.push(Deviation { property: "C14".into(), sig: format!("{}|through-PUBLISH", glob_class(d["pattern"].as_str().unwrap_or(""), d["expected"].as_bool().unwrap_or(false))), replay: json!({"kind": "glob-publish", "case": d}) });
            }
            println!("  c14-glob-through-publish: patterns={} texts={} evaluations={} deviations={}", t["patterns"], t["texts"], t["evaluations"], t["devs"].as_array().map(|a| a.len()).unwrap_or(0));
            through = json!({"patterns_subscribed": t["patterns"], "channels_published": t["texts"], "evaluations": t["evaluations"]});
        }
        Outcome::Died { status, .. } => report.machinery_errors.push(format!("glob-through-publish worker died: {}", status)),
    }
    let mut departing = json!({});
    match &out[1] {
        Outcome::Done(v) => {
            for e in v["departing"]["errors"].as_array().cloned().unwrap_or_default() {
                report.machinery_errors.push(format!("departing subscriber: {}", e));
            }
            for r in v["departing"]["recs"].as_array().cloned().unwrap_or_default() {
                report.deviations.push(Deviation { property: "C14".into(), sig: format!("C14|departing-subscriber|{}|{}", r["name"].as_str().unwrap_or(""), r["problem"].as_str().unwrap_or("")), replay: json!({"kind": "departing", "case": r}) });
            }
            println!("  c14-departing: cases={} with-a-problem={}", v["departing"]["cases"], v["departing"]["recs"].as_array().map(|a| a.len()).unwrap_or(0));
            departing = json!({"cases": v["departing"]["cases"], "what": "3 subscription sets (SUBSCRIBE, PSUBSCRIBE, both with two channels) x {nothing pending, 8 MiB of published messages the subscriber never read} x {close, reset} x {alone, a second subscriber of the same channel stays}: once the connection has left the connection table no subscription table names it and PUBLISH counts only the one that stayed"});
        }
        Outcome::Died { status, .. } => report.machinery_errors.push(format!("departing-subscriber worker died: {}", status)),
    }
    match &out[0] {
        Outcome::Done(v) => {
            for d in v["devs"].as_array().cloned().unwrap_or_default() {
                report.deviations.push(Deviation { property: "C14".into(), sig: glob_class(d["pattern"].as_str().unwrap_or(""), d["expected"].as_bool().unwrap_or(false)), replay: json!({"kind": "glob", "case": d}) });
            }
            json!({"pubsub_glob_vs_reference": {"patterns": v["patterns"], "dont_care_patterns": v["dont_care_patterns"], "evaluations": v["evaluations"], "max_pattern_len": gl}, "glob_through_psubscribe_and_publish": through, "departing_subscribers": departing})
        }
        Outcome::Died { status, .. } => {
            report.machinery_errors.push(format!("glob worker died: {}", status));
            json!({})
        }
    }
}

fn prop() -> DataProp {
    DataProp {
        id: "C14",
        specs: vec![SpecRun { spec: "c14-pubsub", depth_quick: 4, depth_thorough: 6, budget_quick_s: 30.0, budget_thorough_s: 1500.0 },
            SpecRun { spec: "c14-pubsub-sameshard", depth_quick: 3, depth_thorough: 5, budget_quick_s: 20.0, budget_thorough_s: 900.0 }],
        make_world,
        assumptions: e1common::std_assumptions(),
    }
}

pub fn parent(tier: &str) -> i32 {
    e1common::data_parent(&prop(), tier, Some(&extra_parent))
}

pub fn handle_factory() -> impl FnMut(&str, &Value, &mut WorkerIo) -> (Value, bool) {
    e1common::data_handle_factory(make_world, Some(extra_worker))
}
