//! C19 — a full SCAN iteration returns every element present throughout it (and nothing that never
//! existed or fails the filters, and it terminates). Exhaustive over initial sets x COUNT x MATCH x TYPE x
//! placements of at most 1 (thorough 2) modifications between calls; SCAN, HSCAN, SSCAN, ZSCAN.

use super::c05::Harness;
use crate::model::glob::glob_match;
use crate::pool::{Outcome, Pool, WorkerIo};
use crate::report::{Deviation, RunReport};
use crate::resp::{self, R};
use crate::srv::SrvOpts;
use serde_json::{json, Value};
use std::collections::BTreeSet;

const BASE: [&str; 5] = ["a", "b", "c", "d", "e"];
/// modifications: additions sort first / middle / last; deletions take the smallest / middle / largest present
const MODS: [&str; 6] = ["add:0", "add:bb", "add:z", "del:smallest", "del:middle", "del:largest"];
const KINDS: [&str; 4] = ["SCAN", "HSCAN", "SSCAN", "ZSCAN"];

#[derive(Clone, Debug)]
struct Config {
    kind: usize,
    subset: u32,
    big: bool,
    count: u32,
    pattern: Option<&'static str>,
    type_filter: Option<&'static str>,
    /// (gap index, modification index)
    mods: Vec<(usize, usize)>,
    /// element names carry a 40-byte common prefix on the wire (elements that agree in a long prefix must still
    /// be told apart by the iteration order; a seeded change that hashed only the first 32 bytes went unnoticed)
    long: bool,
    /// how the keys came to be there (every history leaves a key that is present and has no deadline, or a distant
    /// one): 0 plain; 1 written with a 1 ms deadline, the deadline then removed by an overwrite (SCAN) or PERSIST,
    /// and the clock moved past the old deadline without a sweeper pass; 2 carrying a deadline far in the future
    history: u8,
    /// 64 further elements y00..y63: with a MATCH that only one or a few elements pass, whole calls examine their budget
    /// of elements without finding anything and the iteration must still go on (a seeded change ended it there)
    sparse: bool,
}

const HISTORIES: [&str; 3] = ["plain", "deadline removed, old deadline passed", "distant deadline"];

const LONG_PREFIX: &str = "tenant:acme-corporation:eu-west-1:sessn:";

/// scores of the sorted-set elements: both infinities, a tie, zero, a huge one (a seeded ZSCAN that collected its members
/// with a score range between the extreme finite doubles never returned the members at +-inf)
fn zscore_of(e: &str) -> &'static str {
    match e {
        "a" | "0" => "-inf",
        "b" | "c" => "1",
        "d" => "1e308",
        "e" | "z" => "+inf",
        "bb" => "-0",
        _ => if e.ends_with('0') { "+inf" } else if e.ends_with('1') { "-inf" } else if e.ends_with('2') { "0" } else { "2.5" },
    }
}

fn type_of_key(k: &str) -> &'static str {
    // b and d are lists, everything else is a string (for the TYPE filter)
    if k == "b" || k == "d" {
        "list"
    } else {
        "string"
    }
}

fn configs(thorough: bool) -> Vec<Config> {
    let mut out = Vec::new();
    let counts: Vec<u32> = if thorough { vec![1, 2, 3, 10] } else { vec![1, 2, 10] };
    // (a literal name, and a literal spelled with escapes: a seeded shortcut for "patterns without * ? [" looked the
    // pattern up as a key name and forgot that the backslash is a metacharacter too)
    let patterns: Vec<Option<&'static str>> = if thorough { vec![None, Some("*"), Some("[a-c]"), Some("?"), Some("c"), Some("\\c"), Some("\\[a-c]"), Some("x\\0?"), Some("[c-a]"), Some("[^c-a]")] } else { vec![None, Some("[a-c]"), Some("c"), Some("\\c"), Some("[c-a]")] };
    let max_gaps = 6usize;
    for kind in 0..KINDS.len() {
        let types: Vec<Option<&'static str>> = if kind == 0 { if thorough { vec![None, Some("string"), Some("list")] } else { vec![None, Some("string")] } } else { vec![None] };
        let mut sets: Vec<(u32, bool)> = Vec::new();
        for s in 0u32..32 {
            if thorough || s.count_ones() >= 2 {
                sets.push((s, false));
            }
        }
        sets.push((31, true)); // plus 12 extra elements: leaves the small-collection fast path
        for (subset, big) in sets {
            for &count in counts.iter() {
                for &pattern in patterns.iter() {
                    for &tf in types.iter() {
                        let want_long = (thorough || subset == 31) && tf.is_none();
                        let want_hist = (thorough || subset == 31) && pattern.is_none();
                        let mut push = |mods: Vec<(usize, usize)>| {
                            out.push(Config { kind, subset, big, count, pattern, type_filter: tf, mods: mods.clone(), long: false, history: 0, sparse: false });
                            if want_hist && mods.len() <= 1 {
                                for history in 1..HISTORIES.len() as u8 {
                                    out.push(Config { kind, subset, big, count, pattern, type_filter: tf, mods: mods.clone(), long: false, history, sparse: false });
                                }
                            }
                            if want_long && mods.len() <= 1 {
                                out.push(Config { kind, subset, big, count, pattern, type_filter: tf, mods, long: true, history: 0, sparse: false });
                            }
                        };
                        push(vec![]);
                        for g in 0..max_gaps {
                            for m in 0..MODS.len() {
                                push(vec![(g, m)]);
                                if thorough && !big && count <= 2 {
                                    for g2 in g..max_gaps {
                                        for m2 in 0..MODS.len() {
                                            if g2 > g || m2 != m {
                                                push(vec![(g, m), (g2, m2)]);
                                            }
                                        }
                                    }
                                }
                            }
                        }
                    }
                }
            }
        }
    }
    for kind in 0..KINDS.len() {
        for pattern in [Some("a"), Some("c"), Some("e"), Some("[a-e]"), Some("x0?"), None] {
            for count in [1u32, 2, 3] {
                if !thorough && count == 3 {
                    continue;
                }
                let mut modlists: Vec<Vec<(usize, usize)>> = vec![vec![]];
                for g in 0..(if thorough { 6 } else { 2 }) {
                    for m in [2usize, 4] {
                        modlists.push(vec![(g, m)]);
                    }
                }
                for mods in modlists {
                    out.push(Config { kind, subset: 31, big: true, count, pattern, type_filter: None, mods, long: false, history: 0, sparse: true });
                }
            }
        }
    }
    out
}

/// Move the virtual clock 3 ms on, past every 1 ms deadline that was set and removed, without letting a sleeping
/// background thread (the expiry sweeper) run in between: if one is due within the next 5 ms it is let run first.
fn pass_old_deadlines() -> Result<(), String> {
    use crate::vtime;
    if let Some(w) = vtime::next_wake() {
        if w < vtime::mono_ns() + 5_000_000 {
            vtime::advance_to(w + 1).map_err(|_| "settle timeout letting the sweeper run".to_string())?;
        }
    }
    vtime::tick(3_000_000).map_err(|_| "settle timeout during tick".to_string())
}

fn run_config(h: &mut Harness, c: &Config) -> Result<(Vec<String>, Value), String> {
    h.aux_call(&["FLUSHALL"])?;
    let kind = KINDS[c.kind];
    let mut present: BTreeSet<String> = BTreeSet::new();
    for (i, k) in BASE.iter().enumerate() {
        if c.subset & (1 << i) != 0 {
            present.insert(k.to_string());
        }
    }
    if c.big {
        for i in 0..12 {
            present.insert(format!("x{:02}", i));
        }
    }
    if c.sparse {
        for i in 0..64 {
            present.insert(format!("y{:02}", i));
        }
    }
    let long = c.long;
    let history = c.history;
    let add = |h: &mut Harness, e: &str| -> Result<(), String> {
        let wire = if long { format!("{}{}", LONG_PREFIX, e) } else { e.to_string() };
        let short = e;
        let e = wire.as_str();
        let r = match kind {
            "SCAN" => {
                if type_of_key(short) == "list" {
                    h.aux_call(&["RPUSH", e, "v"])?
                } else {
                    h.aux_call(&["SET", e, "v"])?
                }
            }
            "HSCAN" => h.aux_call(&["HSET", "coll", e, "v"])?,
            "SSCAN" => h.aux_call(&["SADD", "coll", e])?,
            _ => h.aux_call(&["ZADD", "coll", zscore_of(short), e])?,
        };
        if r.is_err() {
            return Err(format!("seeding {} failed: {}", e, resp::show(&r)));
        }
        if kind == "SCAN" {
            match history {
                1 => {
                    // a deadline, then the same value written again without one
                    h.aux_call(&["PEXPIRE", e, "1"])?;
                    if type_of_key(short) == "list" {
                        h.aux_call(&["PERSIST", e])?;
                    } else {
                        h.aux_call(&["SET", e, "v"])?;
                    }
                }
                2 => {
                    h.aux_call(&["PEXPIRE", e, "100000000"])?;
                }
                _ => {}
            }
        }
        Ok(())
    };
    let del = |h: &mut Harness, e: &str| -> Result<(), String> {
        let wire = if long { format!("{}{}", LONG_PREFIX, e) } else { e.to_string() };
        let e = wire.as_str();
        match kind {
            "SCAN" => h.aux_call(&["DEL", e])?,
            "HSCAN" => h.aux_call(&["HDEL", "coll", e])?,
            "SSCAN" => h.aux_call(&["SREM", "coll", e])?,
            _ => h.aux_call(&["ZREM", "coll", e])?,
        };
        Ok(())
    };
    for e in present.clone().iter() {
        add(h, e)?;
    }
    if kind != "SCAN" && !present.is_empty() {
        match history {
            1 => {
                h.aux_call(&["PEXPIRE", "coll", "1"])?;
                h.aux_call(&["PERSIST", "coll"])?;
            }
            2 => {
                h.aux_call(&["PEXPIRE", "coll", "100000000"])?;
            }
            _ => {}
        }
    }
    if history != 0 {
        pass_old_deadlines()?;
    }
    let mut ever: BTreeSet<String> = present.clone();
    let mut throughout: BTreeSet<String> = present.clone();
    let passes = |e: &str| -> bool {
        if let Some(p) = c.pattern {
            if !glob_match(p.as_bytes(), e.as_bytes()) {
                return false;
            }
        }
        if let Some(t) = c.type_filter {
            if type_of_key(e) != t {
                return false;
            }
        }
        true
    };
    let mut returned: Vec<String> = Vec::new();
    let mut cursor = "0".to_string();
    let mut calls = 0usize;
    let horizon = 4 * (present.len() + c.mods.len() + 2) + 8;
    let mut last_mod_call = 0usize;
    let mut problems: Vec<String> = Vec::new();
    let mut trace: Vec<String> = Vec::new();
    let mut deleted_before_cursor = false;
    loop {
        let mut args: Vec<String> = if kind == "SCAN" { vec!["SCAN".into(), cursor.clone()] } else { vec![kind.into(), "coll".into(), cursor.clone()] };
        if let Some(p) = c.pattern {
            args.push("MATCH".into());
            args.push(if long { format!("{}{}", LONG_PREFIX, p) } else { p.into() });
        }
        args.push("COUNT".into());
        args.push(c.count.to_string());
        if let Some(t) = c.type_filter {
            args.push("TYPE".into());
            args.push(t.into());
        }
        let r = h.aux_call(&args)?;
        calls += 1;
        let (next, items) = match &r {
            R::Arr(v) if v.len() == 2 => {
                let next = match &v[0] {
                    R::Bulk(b) => String::from_utf8_lossy(b).to_string(),
                    R::Int(i) => i.to_string(),
                    _ => {
                        problems.push("malformed-reply".into());
                        break;
                    }
                };
                let items: Vec<String> = match &v[1] {
                    R::Arr(x) => x.iter().map(|e| match e {
                        R::Bulk(b) => String::from_utf8_lossy(b).to_string(),
                        other => resp::show(other),
                    }).collect(),
                    R::NilArr => vec![],
                    _ => {
                        problems.push("malformed-reply".into());
                        break;
                    }
                };
                (next, items)
            }
            other => {
                problems.push(format!("reply-{}", resp::class(other)));
                break;
            }
        };
        let elems: Vec<String> = match kind {
            "HSCAN" | "ZSCAN" => items.chunks(2).map(|p| p[0].clone()).collect(),
            _ => items.clone(),
        };
        let elems: Vec<String> = elems.into_iter().map(|e| if long { e.strip_prefix(LONG_PREFIX).map(|x| x.to_string()).unwrap_or(e) } else { e }).collect();
        trace.push(format!("{} -> cursor {} [{}]", args.join(" "), next, elems.join(" ")));
        returned.extend(elems);
        if next == "0" {
            break;
        }
        cursor = next;
        if calls >= horizon {
            if calls - last_mod_call > present.len() + 1 {
                problems.push("does-not-terminate".into());
            }
            break;
        }
        // modifications scheduled for this gap
        let gap = calls - 1;
        for (g, m) in c.mods.iter() {
            if *g == gap {
                last_mod_call = calls;
                let what = MODS[*m];
                if let Some(e) = what.strip_prefix("add:") {
                    if !present.contains(e) {
                        add(h, e)?;
                        if history != 0 {
                            pass_old_deadlines()?;
                        }
                        present.insert(e.to_string());
                        ever.insert(e.to_string());
                    }
                    trace.push(format!("  (added {})", e));
                } else {
                    let v: Vec<String> = present.iter().cloned().collect();
                    if !v.is_empty() {
                        let e = match what {
                            "del:smallest" => v[0].clone(),
                            "del:largest" => v[v.len() - 1].clone(),
                            _ => v[v.len() / 2].clone(),
                        };
                        del(h, &e)?;
                        present.remove(&e);
                        throughout.remove(&e);
                        if returned.contains(&e) || what == "del:smallest" {
                            deleted_before_cursor = true;
                        }
                        trace.push(format!("  (deleted {})", e));
                    }
                }
            }
        }
    }
    let ret: BTreeSet<String> = returned.iter().cloned().collect();
    for e in throughout.iter() {
        if passes(e) && !ret.contains(e) {
            problems.push(if deleted_before_cursor { "missed-stable-element-after-a-deletion".to_string() } else if c.mods.is_empty() { "missed-element-without-any-modification".to_string() } else { "missed-stable-element".to_string() });
            break;
        }
    }
    for e in ret.iter() {
        if !ever.contains(e) {
            problems.push("returned-element-that-never-existed".into());
            break;
        }
        if !passes(e) {
            problems.push(if c.pattern.is_some() && !c.pattern.map(|p| glob_match(p.as_bytes(), e.as_bytes())).unwrap_or(true) { "returned-element-not-matching-MATCH".to_string() } else { "returned-element-of-wrong-TYPE".to_string() });
            break;
        }
    }
    problems.sort();
    problems.dedup();
    let detail = json!({"kind": kind, "initial": throughout.iter().cloned().collect::<Vec<_>>(), "count": c.count, "match": c.pattern, "type": c.type_filter, "long_common_prefix": c.long, "sparse_match_over_81_elements": c.sparse, "key_history": HISTORIES[c.history as usize],
        "modifications": c.mods.iter().map(|(g, m)| format!("after call {}: {}", g + 1, MODS[*m])).collect::<Vec<_>>(), "trace": trace, "calls": calls});
    Ok((problems, detail))
}

/// (kind, COUNT, index of the call during which the sweeper holds the lock)
fn locked_cases(thorough: bool) -> Vec<(usize, u32, usize)> {
    let mut out = Vec::new();
    for kind in 0..KINDS.len() {
        for (count, calls) in [(1u32, 20usize), (3, 8), (10, 3)] {
            for k in 0..calls {
                if !thorough && !(kind == 0 || k < 2) {
                    continue;
                }
                out.push((kind, count, k));
            }
        }
    }
    out
}

fn parse_scan(r: &R) -> Option<(String, Vec<String>)> {
    match r {
        R::Arr(v) if v.len() == 2 => {
            let next = match &v[0] {
                R::Bulk(b) => String::from_utf8_lossy(b).to_string(),
                R::Int(i) => i.to_string(),
                _ => return None,
            };
            let items = match &v[1] {
                R::Arr(x) => x.iter().map(|e| match e {
                    R::Bulk(b) => String::from_utf8_lossy(b).to_string(),
                    other => resp::show(other),
                }).collect(),
                R::NilArr => vec![],
                _ => return None,
            };
            Some((next, items))
        }
        _ => None,
    }
}

/// One call of the iteration is made while the expiry sweeper holds the write lock of a shard with permanent keys in it
/// (it is parked at SWEEP_LOCKED, about to delete a key whose deadline passed, and released 30 ms of real time after
/// the call was sent). The call has to wait for the lock and return the shard's keys as usual: a seeded SCAN that used
/// `try_read` and skipped a shard it could not lock at once lost every key of that shard from the call's range.
fn run_locked(h: &mut Harness, kind_i: usize, count: u32, at_call: usize) -> Result<(Vec<String>, Value), String> {
    use crate::{gate, vtime};
    use ferrous::verif_hooks::SWEEP_LOCKED;
    h.aux_call(&["FLUSHALL"])?;
    let kind = KINDS[kind_i];
    let mut present: BTreeSet<String> = BASE.iter().map(|s| s.to_string()).collect();
    for i in 0..12 {
        present.insert(format!("x{:02}", i));
    }
    for e in present.iter() {
        let r = match kind {
            "SCAN" => h.aux_call(&["SET", e.as_str(), "v"])?,
            "HSCAN" => h.aux_call(&["HSET", "coll", e.as_str(), "v"])?,
            "SSCAN" => h.aux_call(&["SADD", "coll", e.as_str()])?,
            _ => h.aux_call(&["ZADD", "coll", zscore_of(e), e.as_str()])?,
        };
        if r.is_err() {
            return Err(format!("seeding {} failed: {}", e, resp::show(&r)));
        }
    }
    // a key that will expire, in the shard of a permanent key (SCAN: every shard that holds one of the 17 gets its turn
    // over the cases through the call index; the collection commands: the shard of the collection)
    let storage = h.srv.as_ref().unwrap().h.storage.clone();
    let shard_mate: Vec<u8> = if kind == "SCAN" { present.iter().nth(at_call % present.len()).unwrap().clone().into_bytes() } else { b"coll".to_vec() };
    let want_shard = storage.verif_shard_of(&shard_mate);
    let victim = (0..10_000).map(|i| format!("t{}", i)).find(|n| storage.verif_shard_of(n.as_bytes()) == want_shard).ok_or("no victim name")?;
    let mut returned: Vec<String> = Vec::new();
    let mut cursor = "0".to_string();
    let mut calls = 0usize;
    let mut problems: Vec<String> = Vec::new();
    let mut trace: Vec<String> = Vec::new();
    let mut held = false;
    loop {
        let mut args: Vec<String> = if kind == "SCAN" { vec!["SCAN".into(), cursor.clone()] } else { vec![kind.into(), "coll".into(), cursor.clone()] };
        args.push("COUNT".into());
        args.push(count.to_string());
        let r = if calls == at_call {
            h.aux_call(&["SET", victim.as_str(), "v", "PX", "5"])?;
            gate::set_park_background_only(true);
            gate::set_park_points(&[SWEEP_LOCKED]);
            let mut parked = false;
            for _ in 0..3 {
                match vtime::next_wake() {
                    Some(w) => {
                        vtime::advance_to(w.max(vtime::mono_ns() + 6_000_000)).map_err(|_| "settle timeout waiting for the sweeper".to_string())?;
                    }
                    None => break,
                }
                if gate::parked().iter().any(|p| p.point == SWEEP_LOCKED) {
                    parked = true;
                    break;
                }
            }
            if !parked {
                gate::set_park_points(&[]);
                gate::release_all();
                return Err("the sweeper never took the shard lock".into());
            }
            held = true;
            let releaser = std::thread::Builder::new().name("releaser".into()).spawn(|| {
                vtime::mark_free_running();
                vtime::real_sleep_us(30_000);
                gate::set_park_points(&[]);
                gate::release_all();
            }).map_err(|e| format!("spawn: {}", e))?;
            let r = h.aux_call(&args);
            let _ = releaser.join();
            gate::set_park_points(&[]);
            gate::release_all();
            vtime::settle().map_err(|_| "settle timeout after the sweeper was released".to_string())?;
            trace.push(format!("  (this call was made while the sweeper held the write lock of shard {} to delete {})", want_shard, victim));
            r?
        } else {
            h.aux_call(&args)?
        };
        calls += 1;
        let (next, items) = match parse_scan(&r) {
            Some(x) => x,
            None => {
                problems.push(format!("reply-{}", resp::class(&r)));
                break;
            }
        };
        let elems: Vec<String> = match kind {
            "HSCAN" | "ZSCAN" => items.chunks(2).map(|p| p[0].clone()).collect(),
            _ => items.clone(),
        };
        trace.push(format!("{} -> cursor {} [{}]", args.join(" "), next, elems.join(" ")));
        returned.extend(elems);
        if next == "0" {
            break;
        }
        cursor = next;
        if calls >= 4 * (present.len() + 3) + 8 {
            problems.push("does-not-terminate".into());
            break;
        }
    }
    let ret: BTreeSet<String> = returned.iter().cloned().collect();
    if present.iter().any(|e| !ret.contains(e)) {
        problems.push("missed-element-while-the-sweeper-held-its-shard".into());
    }
    if ret.iter().any(|e| !present.contains(e) && *e != victim) {
        problems.push("returned-element-that-never-existed".into());
    }
    let detail = json!({"kind": kind, "count": count, "lock_held_during_call": at_call + 1, "lock_was_held": held, "initial": present.iter().cloned().collect::<Vec<_>>(),
        "expiring_key": victim, "missing": present.iter().filter(|e| !ret.contains(*e)).cloned().collect::<Vec<_>>(), "trace": trace, "calls": calls});
    Ok((problems, detail))
}

pub fn handle_factory() -> impl FnMut(&str, &Value, &mut WorkerIo) -> (Value, bool) {
    let mut h = Harness::new(SrvOpts::default());
    move |tier: &str, task: &Value, io: &mut WorkerIo| {
        let thorough = task["thorough"].as_bool().unwrap_or(tier == "thorough");
        let all = configs(thorough);
        if let Some(r) = task.get("replay") {
            if let Some(i) = r["index"].as_u64() {
                let all = configs(r["thorough"].as_bool().unwrap_or(false));
                if let Some(c) = all.get(i as usize) {
                    let _ = h.ensure();
                    return (match run_config(&mut h, c) {
                        Ok((p, d)) => json!({"problems": p, "detail": d}),
                        Err(e) => json!({"machinery_error": e}),
                    }, false);
                }
            }
            if let Some(c) = r["locked_case"].as_array() {
                let _ = h.ensure();
                let (kind, count, k) = (c[0].as_u64().unwrap_or(0) as usize, c[1].as_u64().unwrap_or(1) as u32, c[2].as_u64().unwrap_or(0) as usize);
                return (match run_locked(&mut h, kind, count, k) {
                    Ok((p, d)) => json!({"problems": p, "detail": d}),
                    Err(e) => json!({"machinery_error": e}),
                }, false);
            }
            return (json!({"note": "see the case"}), false);
        }
        if let Some(l) = task.get("locked") {
            if let Err(e) = h.ensure() {
                return (json!({"locked_recs": [], "errors": [e]}), false);
            }
            let mut recs = Vec::new();
            let mut errors = Vec::new();
            let mut held = 0u64;
            let mut calls = 0u64;
            let cases: Vec<(usize, u32, usize)> = l.as_array().map(|a| a.iter().map(|c| (c[0].as_u64().unwrap_or(0) as usize, c[1].as_u64().unwrap_or(1) as u32, c[2].as_u64().unwrap_or(0) as usize)).collect()).unwrap_or_default();
            for (kind, count, k) in cases.iter().cloned() {
                io.announce_case(json!({"locked": [kind, count, k]}));
                match run_locked(&mut h, kind, count, k) {
                    Ok((p, d)) => {
                        calls += d["calls"].as_u64().unwrap_or(0);
                        if d["lock_was_held"].as_bool().unwrap_or(false) {
                            held += 1;
                        }
                        if !p.is_empty() || recs.is_empty() {
                            recs.push(json!({"case": [kind, count, k], "problems": p, "detail": d}));
                        }
                    }
                    Err(e) => {
                        errors.push(format!("locked case {:?}: {}", (kind, count, k), e));
                        // leave no parked thread and no half-read reply behind
                        crate::gate::set_park_points(&[]);
                        crate::gate::release_all();
                        h.srv = None;
                        h.aux = None;
                        let _ = h.ensure();
                    }
                }
            }
            return (json!({"locked_recs": recs, "errors": errors, "held": held, "calls": calls, "n": cases.len()}), false);
        }
        let (a, b) = (task["range"][0].as_u64().unwrap_or(0) as usize, task["range"][1].as_u64().unwrap_or(0) as usize);
        let mut recs = Vec::new();
        let mut calls = 0u64;
        let mut errors = Vec::new();
        if let Err(e) = h.ensure() {
            return (json!({"recs": [], "errors": [e]}), false);
        }
        for i in a..b.min(all.len()) {
            if i % 64 == 0 {
                io.announce_case(json!({"i": i}));
            }
            match run_config(&mut h, &all[i]) {
                Ok((p, d)) => {
                    calls += d["calls"].as_u64().unwrap_or(0);
                    if !p.is_empty() {
                        recs.push(json!({"i": i, "problems": p, "detail": d}));
                    } else if i % 5003 == 0 {
                        recs.push(json!({"i": i, "problems": [], "detail": d}));
                    }
                }
                Err(e) => errors.push(format!("config {}: {}", i, e)),
            }
        }
        (json!({"recs": recs, "calls": calls, "n": b.min(all.len()) - a, "errors": errors}), false)
    }
}

pub fn parent(tier: &str) -> i32 {
    let thorough = tier == "thorough";
    let mut report = RunReport::new("C19", tier, "model_checking");
    let pool = Pool::new("C19", tier, super::e1common::nworkers());
    let all = configs(thorough);
    let chunk = (all.len() / 64).max(200);
    let mut tasks = Vec::new();
    let mut i = 0;
    while i < all.len() {
        tasks.push(json!({"range": [i, (i + chunk).min(all.len())], "thorough": thorough}));
        i += chunk;
    }
    let lcases = locked_cases(thorough);
    for ch in lcases.chunks((lcases.len() / 14).max(1)) {
        tasks.push(json!({"locked": ch.iter().map(|(a, b, c)| json!([a, b, c])).collect::<Vec<_>>()}));
    }
    let out = pool.map(tasks, 0);
    let mut locked_run = 0u64;
    let mut locked_held = 0u64;
    let mut locked_sample = Value::Null;
    let mut iterations = 0u64;
    let mut calls = 0u64;
    let mut samples = Vec::new();
    let mut with_problem = 0u64;
    for o in out {
        match o {
            Outcome::Done(v) => {
                for e in v["errors"].as_array().cloned().unwrap_or_default() {
                    report.machinery_errors.push(format!("{}", e));
                }
                iterations += v["n"].as_u64().unwrap_or(0);
                calls += v["calls"].as_u64().unwrap_or(0);
                if v.get("locked_recs").is_some() {
                    locked_run += v["n"].as_u64().unwrap_or(0);
                    locked_held += v["held"].as_u64().unwrap_or(0);
                    for r in v["locked_recs"].as_array().cloned().unwrap_or_default() {
                        let problems: Vec<String> = r["problems"].as_array().map(|a| a.iter().map(|s| s.as_str().unwrap_or("").to_string()).collect()).unwrap_or_default();
                        if problems.is_empty() {
                            if locked_sample.is_null() {
                                locked_sample = r["detail"].clone();
                            }
                            continue;
                        }
                        with_problem += 1;
                        let kind = KINDS[r["case"][0].as_u64().unwrap_or(0) as usize];
                        for p in problems {
                            report.deviations.push(Deviation {
                                property: "C19".into(),
                                sig: format!("C19|{}|{}|sweeper-holds-shard-lock", kind, p),
                                replay: json!({"kind": "scan-locked", "locked_case": r["case"], "thorough": thorough, "detail": r["detail"]}),
                            });
                        }
                    }
                    continue;
                }
                for r in v["recs"].as_array().cloned().unwrap_or_default() {
                    let idx = r["i"].as_u64().unwrap_or(0) as usize;
                    let c = &all[idx];
                    let problems: Vec<String> = r["problems"].as_array().map(|a| a.iter().map(|s| s.as_str().unwrap_or("").to_string()).collect()).unwrap_or_default();
                    if problems.is_empty() {
                        if samples.len() < 3 {
                            samples.push(r["detail"].clone());
                        }
                        continue;
                    }
                    with_problem += 1;
                    let mods: Vec<&str> = c.mods.iter().map(|(_, m)| MODS[*m].split(':').next().unwrap_or("")).collect();
                    for p in problems {
                        report.deviations.push(Deviation {
                            property: "C19".into(),
                            sig: format!("C19|{}|{}|mods={}|match={}|type={}", KINDS[c.kind], p, if mods.is_empty() { "none".to_string() } else { mods.join("+") }, c.pattern.unwrap_or("-"), c.type_filter.unwrap_or("-")),
                            replay: json!({"kind": "scan", "index": idx, "thorough": thorough, "detail": r["detail"]}),
                        });
                    }
                }
            }
            Outcome::Died { status, case } => report.machinery_errors.push(format!("worker died: {} {:?}", status, case)),
        }
    }
    if samples.is_empty() {
        samples.push(json!({"note": "no sample"}));
    }
    println!("  c19: iterations={} scan-calls={} iterations-with-a-problem={} (of them {} with one call made while the sweeper held a shard's write lock; held in {})", iterations, calls, with_problem, locked_run, locked_held);
    if locked_run > 0 && locked_held < locked_run / 2 {
        report.machinery_errors.push(format!("the sweeper held a shard lock in only {} of {} lock-held iterations", locked_held, locked_run));
    }
    report.coverage = json!({
        "states": iterations.max(1), "transitions": calls.max(1), "traces_validated_against_impl": iterations, "samples": samples, "exhaustive": true,
        "iterations_with_a_call_made_while_the_sweeper_held_a_shard_write_lock": {"run": locked_run, "lock_really_held": locked_held, "sample": locked_sample,
            "what": "{SCAN, HSCAN, SSCAN, ZSCAN} x COUNT {1,3,10} x the index of the call (every call of the iteration; quick: every call for SCAN, the first two for the others): before that call a key with a 5 ms deadline is written into the shard of a permanent key (SCAN: the shard of the (index mod 17)-th key; collections: the shard of the collection), the clock is moved to the sweeper's next pass, the sweeper is parked at the hook point SWEEP_LOCKED holding that shard's write lock, the call is sent, and the sweeper is released 30 ms of real time later. The whole iteration must still return all 17 permanent elements."},
        "explanation": "states = complete cursor iterations (one per configuration), transitions = scan calls. Configurations enumerated completely: {SCAN, HSCAN, SSCAN, ZSCAN} x initial element sets (all subsets of {a..e}; quick: those with >= 2 elements; plus one 17-element collection that leaves the small-collection fast path; the full sets also with every element name behind a common 40-byte prefix) x COUNT {1,2,10} (thorough {1,2,3,10}) x MATCH {none, [a-c]} (thorough also *, ?) x TYPE {none, string} (thorough also list) x placements of 0 or 1 (thorough: up to 2) modifications (add an element sorting first/middle/last; delete the smallest/middle/largest present) in any of the first 6 gaps between calls. Oracle: elements present from before the first call to after the last and passing the filters are all returned; everything returned existed at some time and passes the filters; the iteration reaches cursor 0 within 4 x (elements + 2) + 8 calls.",
    });
    report.assumptions = vec!["MATCH semantics = Redis stringmatchlen (the reference port used in C01); TYPE filter by the key's type".into()];
    report.finish()
}
