//! C15 — streams are append-only logs with strictly increasing IDs and exact ranges (E1 under virtual time).

use super::e1common::{self, DataProp, SpecRun};
use crate::explore::dataworld::{b, cmd, Act, DataSpec, DataWorld};
use crate::explore::e1::World;
use crate::model::streams::{fmt_id, Id};
use crate::model::{Bytes, Model, Val};
use crate::srv::Srv;

fn sv(v: &[&str]) -> Vec<Bytes> {
    v.iter().map(|x| b(x)).collect()
}

const MAXID: &str = "18446744073709551615-18446744073709551615";
const MAXID1: &str = "18446744073709551615-18446744073709551614";

fn acts() -> Vec<Act> {
    let mut a = vec![Act::Tick(1_000_000), Act::Tick(5_000_000)];
    for c in [
        vec!["XADD", "s", "*", "f", "v"], vec!["XADD", "s", "*", "f", "v", "g", "w"],
        vec!["XADD", "s", "0-0", "f", "v"], vec!["XADD", "s", "0-1", "f", "v"], vec!["XADD", "s", "5-5", "f", "v"],
        vec!["XADD", "s", "@T+0-0", "f", "v"], vec!["XADD", "s", "@T+0-1", "f", "v"], vec!["XADD", "s", "@T+10-0", "f", "v"],
        vec!["XADD", "s", MAXID1, "f", "v"], vec!["XADD", "s", MAXID, "f", "v"],
        vec!["XADD", "s", "abc", "f", "v"], vec!["XADD", "s", "1-1", "f"], vec!["XADD", "s", "*"],
        vec!["XDEL", "s", "@FIRST"], vec!["XDEL", "s", "@LAST"], vec!["XDEL", "s", "@MID"], vec!["XDEL", "s", "7-7"], vec!["XDEL", "s", "@FIRST", "@LAST"], vec!["XDEL", "s", "x"],
        // several ids of which the largest lies above the newest entry, the same id twice, ids in descending order
        // (a seeded shortcut ended the whole command at the first id above the top)
        vec!["XDEL", "s", "@FIRST", "@MID", "18446744073709551615-18446744073709551615"], vec!["XDEL", "s", "18446744073709551615-0", "@LAST", "@FIRST"], vec!["XDEL", "s", "@MID", "@MID"],
        vec!["XTRIM", "s", "MAXLEN", "0"], vec!["XTRIM", "s", "MAXLEN", "1"], vec!["XTRIM", "s", "MAXLEN", "2"], vec!["XTRIM", "s", "MAXLEN", "10"],
        vec!["XTRIM", "s", "MAXLEN", "=", "1"], vec!["XTRIM", "s", "MAXLEN", "~", "1"], vec!["XTRIM", "s", "MAXLEN", "x"],
        vec!["XADD", "s2", "1-1", "a", "b"], vec!["SET", "s", "str"], vec!["DEL", "s"],
    ] {
        a.push(cmd(&c));
    }
    a
}

fn ids_of(m: &Model, key: &[u8]) -> (Vec<Id>, Id) {
    match m.dbs[0].keys.get(key) {
        Some(e) => match &e.val {
            Val::Stream(s) => (s.entries.keys().cloned().collect(), s.last_id),
            _ => (vec![], (0, 0)),
        },
        None => (vec![], (0, 0)),
    }
}

fn probes(m: &Model) -> Vec<Vec<Bytes>> {
    let mut p = Vec::new();
    let (ids, last) = ids_of(m, b"s");
    let mut bounds: Vec<String> = vec!["-".into(), "+".into(), "0-0".into(), "0-1".into()];
    let mut idset: Vec<Id> = Vec::new();
    for id in ids.iter().chain([last].iter()) {
        idset.push(*id);
        if id.1 > 0 {
            idset.push((id.0, id.1 - 1));
        }
        if id.1 < u64::MAX {
            idset.push((id.0, id.1 + 1));
        }
        if id.0 > 0 {
            idset.push((id.0 - 1, u64::MAX));
            idset.push((id.0 - 1, 0));
        }
        if id.0 < u64::MAX {
            idset.push((id.0 + 1, 0));
        }
    }
    idset.sort();
    idset.dedup();
    // keep the probe set bounded: at most 14 ids (lowest 7, highest 7)
    if idset.len() > 14 {
        let hi: Vec<Id> = idset[idset.len() - 7..].to_vec();
        idset.truncate(7);
        idset.extend(hi);
    }
    for id in idset.iter() {
        bounds.push(fmt_id(*id));
    }
    for x in bounds.iter() {
        for y in bounds.iter() {
            p.push(sv(&["XRANGE", "s", x, y]));
            p.push(sv(&["XREVRANGE", "s", y, x]));
        }
        if x != "-" && x != "+" {
            p.push(sv(&["XREAD", "STREAMS", "s", x]));
            p.push(sv(&["XREAD", "COUNT", "1", "STREAMS", "s", x]));
            // two streams read from different ids (a seeded script-path parser paired every stream with the first id)
            p.push(sv(&["XREAD", "STREAMS", "s2", "s", "0-0", x]));
            p.push(sv(&["XREAD", "STREAMS", "s", "s2", x, "0-0"]));
        }
    }
    for c in ["0", "1", "2"] {
        p.push(sv(&["XRANGE", "s", "-", "+", "COUNT", c]));
        p.push(sv(&["XREVRANGE", "s", "+", "-", "COUNT", c]));
    }
    p.push(sv(&["XRANGE", "s", "-", "+", "COUNT", "x"]));
    p.push(sv(&["XRANGE", "s", "abc", "+"]));
    p.push(sv(&["XREAD", "STREAMS", "s", "$"]));
    p.push(sv(&["XREAD", "STREAMS", "s", "0"]));
    p.push(sv(&["XREAD", "COUNT", "2", "STREAMS", "s", "0-0"]));
    p.push(sv(&["XREAD", "STREAMS", "s", "s2", "0-0", "0-0"]));
    // COUNT is a limit per stream, not a budget for the call (a seeded change let the first stream use it up)
    p.push(sv(&["XREAD", "COUNT", "1", "STREAMS", "s", "s2", "0-0", "0-0"]));
    p.push(sv(&["XREAD", "COUNT", "1", "STREAMS", "s2", "s", "0-0", "0-0"]));
    p.push(sv(&["XREAD", "COUNT", "2", "STREAMS", "s", "s2", "0-0", "0-0"]));
    p.push(sv(&["XREAD", "STREAMS", "s2", "s", "0-0", "0-0"]));
    p.push(sv(&["XREAD", "STREAMS", "s", "nokey", "0-0", "0-0"]));
    p.push(sv(&["XREAD", "STREAMS", "s"]));
    p.push(sv(&["XREAD", "STREAMS", "s", "abc"]));
    for k in ["s", "s2", "nokey"] {
        p.push(sv(&["XLEN", k]));
        p.push(sv(&["TYPE", k]));
        p.push(sv(&["EXISTS", k]));
    }
    p.push(sv(&["XRANGE", "nokey", "-", "+"]));
    p
}

fn invariants(srv: &Srv, _m: &Model) -> Vec<String> {
    let mut v = Vec::new();
    if let Ok(ferrous::storage::engine::GetResult::Found(ferrous::storage::value::Value::Stream(st))) = srv.h.storage.get(0, b"s") {
        let (last, am, aseq, alen, n) = st.verif_meta();
        if alen != n {
            v.push("stream length counter differs from the number of stored entries".into());
        }
        if (last.millis(), last.seq()) != (am, aseq) {
            v.push("stream last_id differs from the id-generator atomics".into());
        }
    }
    v
}

pub fn make_world(spec: &str) -> Option<Box<dyn World>> {
    if spec != "c15-stream" {
        return None;
    }
    Some(Box::new(DataWorld::new(DataSpec {
        prop: "C15".into(), acts: acts(), probes: Box::new(probes), uses_time: true, isolated_probes: false,
        invariants: Some(Box::new(invariants)), cross: None, db: 0, destructive_probes: None, on_reset: None,
    })))
}

fn prop() -> DataProp {
    DataProp {
        id: "C15",
        specs: vec![SpecRun { spec: "c15-stream", depth_quick: 3, depth_thorough: 5, budget_quick_s: 30.0, budget_thorough_s: 1200.0 }],
        make_world,
        assumptions: e1common::std_assumptions(),
    }
}

fn extra_worker(_tier: &str, task: &serde_json::Value, io: &mut crate::pool::WorkerIo) -> Option<serde_json::Value> {
    super::bytesfam::worker(task, io)
}

fn extra_parent(pool: &crate::pool::Pool, _tier: &str, report: &mut crate::report::RunReport) -> serde_json::Value {
    super::bytesfam::parent(pool, report, "C15", &["stream"])
}

pub fn parent(tier: &str) -> i32 {
    e1common::data_parent(&prop(), tier, Some(&extra_parent))
}

pub fn handle_factory() -> impl FnMut(&str, &serde_json::Value, &mut crate::pool::WorkerIo) -> (serde_json::Value, bool) {
    e1common::data_handle_factory(make_world, Some(extra_worker))
}
