//! C01 — string and key-space commands follow the Redis reference semantics (E1 + glob E4 + big values).

use super::e1common::{self, SpecRun, Worlds};
use crate::explore::dataworld::{b, cmd, cmdb, Act, DataSpec, DataWorld};
use crate::explore::e1::World;
use crate::model::glob::{glob_is_dc, glob_match};
use crate::model::{Bytes, Model, Val};
use crate::pool::{Outcome, Pool, WorkerIo};
use crate::report::{Deviation, RunReport};
use serde_json::{json, Value};

const BIN_KEY: &[u8] = b"\x00\xff\r\n";
const I64MAX: &str = "9223372036854775807";
const I64MIN: &str = "-9223372036854775808";

fn values() -> Vec<Bytes> {
    vec![b(""), b("x"), b("10"), b("-1"), b(I64MAX), b(I64MIN), b("007"), b("+5"), b(" 1"), b("1.0"), vec![0xff, 0xfe, 0x80], b("abc")]
}

fn full_acts() -> Vec<Act> {
    let mut a: Vec<Act> = Vec::new();
    for v in values() {
        a.push(cmdb(vec![b("SET"), b("a"), v]));
    }
    for c in [
        vec!["SET", "a", "x", "NX"], vec!["SET", "a", "y", "XX"], vec!["SET", "a", "x", "EX", "100"], vec!["SET", "a", "x", "PX", "100000"],
        vec!["SET", "a", "x", "NX", "EX", "100"], vec!["SET", "a", "y", "XX", "PX", "100000"], vec!["SET", "a", "x", "NX", "XX"],
        vec!["SET", "a", "x", "EX", "0"], vec!["SET", "a", "x", "EX", "-1"], vec!["SET", "a", "x", "EX", "abc"], vec!["SET", "a", "x", "junk"],
        vec!["SET", "a", "x", "EX"], vec!["set", "a", "w", "ex", "100"], vec!["SET", "a"],
        vec!["SETNX", "a", "z"], vec!["SETEX", "a", "100", "x"], vec!["PSETEX", "a", "100000", "x"], vec!["SETEX", "a", "0", "x"], vec!["SETEX", "a", "abc", "x"],
        vec!["MSET", "a", "1"], vec!["MSET", "a", "1", "q", "2"], vec!["MSET", "a", "1", "q"], vec!["MSET", "a", "1", "a", "2"],
        vec!["GETSET", "a", "n"],
        vec!["APPEND", "a", ""], vec!["APPEND", "a", "yz"],
        vec!["SETRANGE", "a", "0", ""], vec!["SETRANGE", "a", "0", "Z"], vec!["SETRANGE", "a", "1", "Z"], vec!["SETRANGE", "a", "5", "ZZ"],
        vec!["SETRANGE", "a", "-1", "Z"], vec!["SETRANGE", "a", "x", "Z"], vec!["SETRANGE", "a", "536870912", "Z"],
        vec!["INCR", "a"], vec!["DECR", "a"], vec!["INCRBY", "a", "5"], vec!["INCRBY", "a", "-1"], vec!["INCRBY", "a", I64MAX], vec!["INCRBY", "a", I64MIN],
        vec!["DECRBY", "a", "5"], vec!["DECRBY", "a", I64MIN], vec!["DECRBY", "a", I64MAX], vec!["INCRBY", "a", "abc"], vec!["INCRBY", "a", "007"],
        vec!["INCRBY", "a", "0"], vec!["DECRBY", "nokey", "0"], vec!["INCRBY", "a", "+5"], vec!["INCRBY", "a", " 1"], vec!["INCRBY", "a", "1.0"], vec!["INCRBY", "a", ""],
        vec!["DEL", "a"], vec!["DEL", "a", "q"], vec!["DEL", "a", "a"], vec!["DEL", "nokey"], vec!["DEL", "nokey", "a", "q"],
        vec!["RENAME", "a", "q"], vec!["RENAME", "a", "a"], vec!["RENAME", "nokey", "q"], vec!["RENAME", "q", "a"], vec!["RENAME", "a", "c"],
        vec!["RENAMENX", "a", "q"], vec!["RENAMENX", "a", "a"], vec!["RENAMENX", "nokey", "q"],
        vec!["FLUSHDB"], vec!["FLUSHALL"],
        vec!["LPUSH", "a", "x"], vec!["SADD", "a", "x"], vec!["HSET", "a", "f", "v"], vec!["ZADD", "a", "1", "x"], vec!["XADD", "a", "1-1", "f", "v"],
        vec!["SET", "q", "v"], vec!["SET", "q", "10"], vec!["LPUSH", "q", "x"], vec!["SET", "c", "x"],
        vec!["EXPIRE", "a", "100"], vec!["PERSIST", "a"], vec!["EXPIRE", "q", "100"],
    ] {
        a.push(cmd(&c));
    }
    a.push(cmdb(vec![b("SET"), BIN_KEY.to_vec(), b("bin")]));
    a.push(cmdb(vec![b("APPEND"), BIN_KEY.to_vec(), vec![0, 1, 2]]));
    a.push(cmdb(vec![b("RENAME"), BIN_KEY.to_vec(), b("a")]));
    a
}

fn core_acts() -> Vec<Act> {
    let mut a = Vec::new();
    for c in [
        vec!["SET", "a", "x"], vec!["SET", "a", "10"], vec!["SET", "a", I64MAX], vec!["SET", "a", "x", "EX", "100"], vec!["SET", "a", "y", "NX"],
        vec!["SET", "a", "y", "XX"], vec!["APPEND", "a", "yz"], vec!["SETRANGE", "a", "5", "ZZ"], vec!["INCR", "a"], vec!["DECRBY", "a", "5"],
        vec!["GETSET", "a", "n"], vec!["DEL", "a"], vec!["RENAME", "a", "q"], vec!["RENAMENX", "a", "q"], vec!["SET", "q", "v"],
        vec!["MSET", "a", "1", "q", "2"], vec!["LPUSH", "a", "x"], vec!["EXPIRE", "a", "100"], vec!["PERSIST", "a"], vec!["FLUSHDB"],
    ] {
        a.push(cmd(&c));
    }
    a
}

fn probes(m: &Model) -> Vec<Vec<Bytes>> {
    let mut p: Vec<Vec<Bytes>> = Vec::new();
    let s = |v: &[&str]| -> Vec<Bytes> { v.iter().map(|x| b(x)).collect() };
    for k in ["a", "q", "c", "nokey"] {
        p.push(s(&["GET", k]));
        p.push(s(&["TYPE", k]));
        p.push(s(&["STRLEN", k]));
        p.push(s(&["TTL", k]));
        p.push(s(&["PTTL", k]));
    }
    p.push(vec![b("GET"), BIN_KEY.to_vec()]);
    p.push(vec![b("EXISTS"), BIN_KEY.to_vec()]);
    p.push(s(&["MGET", "a", "q"]));
    p.push(s(&["MGET", "q", "a", "nokey", "a"]));
    p.push(s(&["MGET"]));
    p.push(s(&["EXISTS", "a"]));
    p.push(s(&["EXISTS", "a", "q"]));
    p.push(s(&["EXISTS", "nokey", "a", "q"]));
    p.push(s(&["MGET", "nokey", "a", "q"]));
    p.push(s(&["EXISTS", "a", "a", "nokey"]));
    p.push(s(&["DBSIZE"]));
    p.push(s(&["RANDOMKEY"]));
    for pat in ["*", "a", "a*", "?", "[a-c]", "[^a]", "\\a", "q*", "*a*", "??", "[qa]", "x*"] {
        p.push(s(&["KEYS", pat]));
    }
    p.push(vec![b("KEYS"), vec![b'*', 0xff, b'*']]);
    p.push(vec![b("KEYS"), vec![0, b'?', b'*']]);
    // GETRANGE over the index set, relative to the current length of `a`
    let len = match m.dbs[0].keys.get(b"a".as_slice()) {
        Some(e) => match &e.val {
            Val::Str(sv) => Some(sv.len() as i64),
            _ => None,
        },
        None => Some(0),
    };
    match len {
        Some(l) => {
            let mut idx: Vec<i64> = vec![0, 1, -1, -2, l - 1, l, l + 1, -l, -l - 1, i64::MIN, i64::MAX];
            idx.sort();
            idx.dedup();
            for x in idx.iter() {
                for y in idx.iter() {
                    p.push(vec![b("GETRANGE"), b("a"), x.to_string().into_bytes(), y.to_string().into_bytes()]);
                }
            }
        }
        None => p.push(s(&["GETRANGE", "a", "0", "-1"])),
    }
    p.push(s(&["GETRANGE", "a", "x", "1"]));
    p.push(s(&["GETRANGE", "a", "0"]));
    p
}

pub fn make_world(spec: &str) -> Option<Box<dyn World>> {
    let acts = match spec {
        "c01-full" => full_acts(),
        "c01-core" => core_acts(),
        _ => return None,
    };
    Some(Box::new(DataWorld::new(DataSpec {
        prop: "C01".into(),
        acts,
        probes: Box::new(probes),
        uses_time: false,
        isolated_probes: false,
        invariants: None,
        cross: None,
        db: 0,
        destructive_probes: None,
        on_reset: None,
    })))
}

// ------------------------------------------------------------------ glob E4 (in-process, engine matcher vs reference)

fn glob_sweep(maxlen: usize) -> Value {
    let alphabet: &[u8] = b"ab*?[]^-\\";
    let texts_alpha: &[u8] = b"ab-]";
    let mut texts: Vec<Vec<u8>> = Vec::new();
    for l in 1..=3usize {
        let mut idx = vec![0usize; l];
        loop {
            texts.push(idx.iter().map(|i| texts_alpha[*i]).collect());
            let mut k = 0;
            while k < l {
                idx[k] += 1;
                if idx[k] < texts_alpha.len() {
                    break;
                }
                idx[k] = 0;
                k += 1;
            }
            if k == l {
                break;
            }
        }
    }
    let mut evals = 0u64;
    let mut dc = 0u64;
    let mut matches = 0u64;
    let mut devs: Vec<Value> = Vec::new();
    let mut patterns = 0u64;
    for l in 1..=maxlen {
        let mut idx = vec![0usize; l];
        loop {
            let pat: Vec<u8> = idx.iter().map(|i| alphabet[*i]).collect();
            patterns += 1;
            if glob_is_dc(&pat) {
                dc += 1;
            } else {
                let ps = String::from_utf8_lossy(&pat).to_string();
                for t in texts.iter() {
                    let want = glob_match(&pat, t);
                    let got = ferrous::storage::engine::verif_glob(&ps, &String::from_utf8_lossy(t));
                    evals += 1;
                    if want {
                        matches += 1;
                    }
                    if want != got {
                        if devs.len() < 2000 {
                            devs.push(json!({"pattern": ps, "text": String::from_utf8_lossy(t), "expected": want, "actual": got}));
                        }
                    }
                }
            }
            let mut k = 0;
            while k < l {
                idx[k] += 1;
                if idx[k] < alphabet.len() {
                    break;
                }
                idx[k] = 0;
                k += 1;
            }
            if k == l {
                break;
            }
        }
    }
    // token-level patterns (range classes, negated ranges, escapes, odd classes) x texts that contain the range ends
    let ttexts = crate::model::glob::token_texts();
    for pat in crate::model::glob::token_patterns(if maxlen >= 5 { 3 } else { 2 }) {
        patterns += 1;
        if glob_is_dc(&pat) {
            dc += 1;
            continue;
        }
        let ps = String::from_utf8_lossy(&pat).to_string();
        for t in ttexts.iter() {
            let want = glob_match(&pat, t);
            let got = ferrous::storage::engine::verif_glob(&ps, &String::from_utf8_lossy(t));
            evals += 1;
            if want {
                matches += 1;
            }
            if want != got && devs.len() < 2000 {
                devs.push(json!({"pattern": ps, "text": String::from_utf8_lossy(t), "expected": want, "actual": got}));
            }
        }
    }
    json!({"patterns": patterns, "dont_care_patterns": dc, "evaluations": evals, "matching_pairs": matches, "texts": texts.len(), "devs": devs})
}

/// The same comparison through the commands: every text is a key; for every pattern (all of length <= 3 over the 9-symbol
/// alphabet and the token-level ones, don't-cares left out) KEYS pattern and SCAN 0 MATCH pattern COUNT 1000 must return
/// exactly the keys the reference matches (shortcuts in front of the matcher - literal patterns looked up as names,
/// prefix rejects - live in the commands, not in the matcher).
fn glob_through_keys() -> Value {
    use super::c05::Harness;
    use crate::resp::{self, R};
    let alphabet: &[u8] = b"ab*?[]^-\\";
    let mut patterns: Vec<Vec<u8>> = Vec::new();
    for l in 1..=3usize {
        let mut idx = vec![0usize; l];
        loop {
            let pat: Vec<u8> = idx.iter().map(|i| alphabet[*i]).collect();
            if !glob_is_dc(&pat) {
                patterns.push(pat);
            }
            let mut k = 0;
            while k < l {
                idx[k] += 1;
                if idx[k] < alphabet.len() {
                    break;
                }
                idx[k] = 0;
                k += 1;
            }
            if k == l {
                break;
            }
        }
    }
    for pat in crate::model::glob::token_patterns(2) {
        if !glob_is_dc(&pat) {
            patterns.push(pat);
        }
    }
    patterns.sort();
    patterns.dedup();
    let mut texts: Vec<Vec<u8>> = Vec::new();
    let texts_alpha: &[u8] = b"ab-]";
    for l in 1..=3usize {
        let mut idx = vec![0usize; l];
        loop {
            texts.push(idx.iter().map(|i| texts_alpha[*i]).collect());
            let mut k = 0;
            while k < l {
                idx[k] += 1;
                if idx[k] < texts_alpha.len() {
                    break;
                }
                idx[k] = 0;
                k += 1;
            }
            if k == l {
                break;
            }
        }
    }
    texts.extend(crate::model::glob::token_texts());
    for t in ["*", "a*", "?b", "[a]", "a\\", "\\a", "a.b", "^a"] {
        texts.push(t.as_bytes().to_vec());
    }
    texts.sort();
    texts.dedup();
    let mut devs: Vec<Value> = Vec::new();
    let mut errors: Vec<String> = Vec::new();
    let mut evals = 0u64;
    let mut h = Harness::new(crate::srv::SrvOpts::default());
    let mut run = || -> Result<(), String> {
        h.ensure()?;
        h.aux_call(&["FLUSHALL"])?;
        for t in texts.iter() {
            h.aux_call(&[b"SET".to_vec(), t.clone(), b"v".to_vec()])?;
        }
        for p in patterns.iter() {
            let want: std::collections::BTreeSet<Vec<u8>> = texts.iter().filter(|t| glob_match(p, t)).cloned().collect();
            let as_set = |r: &R| -> Option<std::collections::BTreeSet<Vec<u8>>> {
                match r {
                    R::Arr(v) => Some(v.iter().filter_map(|x| if let R::Bulk(b) = x { Some(b.clone()) } else { None }).collect()),
                    R::NilArr => Some(Default::default()),
                    _ => None,
                }
            };
            let keys = h.aux_call(&[b"KEYS".to_vec(), p.clone()])?;
            let scan = h.aux_call(&[b"SCAN".to_vec(), b"0".to_vec(), b"MATCH".to_vec(), p.clone(), b"COUNT".to_vec(), b"1000".to_vec()])?;
            let scan_set = match &scan {
                R::Arr(v) if v.len() == 2 && (v[0] == R::Bulk(b"0".to_vec()) || v[0] == R::Int(0)) => as_set(&v[1]),
                _ => None,
            };
            for (through, got) in [("KEYS", as_set(&keys)), ("SCAN MATCH", scan_set)] {
                evals += texts.len() as u64;
                match got {
                    Some(got) => {
                        for t in want.symmetric_difference(&got) {
                            if devs.len() < 3000 {
                                devs.push(json!({"pattern": String::from_utf8_lossy(p), "text": String::from_utf8_lossy(t), "expected": want.contains(t), "actual": got.contains(t), "through": through}));
                            }
                        }
                    }
                    None => {
                        if devs.len() < 3000 {
                            devs.push(json!({"pattern": String::from_utf8_lossy(p), "text": "(reply)", "expected": true, "actual": false, "through": through, "reply": resp::show(if through == "KEYS" { &keys } else { &scan })}));
                        }
                    }
                }
            }
        }
        Ok(())
    };
    if let Err(e) = run() {
        errors.push(e);
    }
    json!({"through_keys": {"patterns": patterns.len(), "texts": texts.len(), "evaluations": evals, "devs": devs, "errors": errors}})
}

/// class of a glob deviation: which pattern feature is involved
fn glob_dev_class(pat: &str, expected: bool) -> String {
    let mut feats = Vec::new();
    if pat.contains('[') {
        feats.push("class");
    }
    if pat.contains('\\') {
        feats.push("escape");
    }
    if pat.contains('*') {
        feats.push("star");
    }
    if pat.contains('?') {
        feats.push("qmark");
    }
    if feats.is_empty() {
        feats.push("literal");
    }
    format!("C01|GLOB|{}|exp={}", feats.join("+"), expected)
}

// ------------------------------------------------------------------ parent / worker

pub fn handle_factory() -> impl FnMut(&str, &Value, &mut WorkerIo) -> (Value, bool) {
    let mut worlds = Worlds::new(make_world);
    move |tier: &str, task: &Value, io: &mut WorkerIo| {
        if let Some(v) = super::bytesfam::worker(task, io) {
            return (v, false);
        }
        if task.get("glob_keys").is_some() {
            return (glob_through_keys(), false);
        }
        if let Some(l) = task.get("glob") {
            let _ = tier;
            return (glob_sweep(l.as_u64().unwrap_or(3) as usize), false);
        }
        if let Some(r) = task.get("replay") {
            return (replay(r), false);
        }
        worlds.handle(task, io)
    }
}

pub fn replay(r: &Value) -> Value {
    crate::props::e1common_replay(make_world, r)
}

pub fn parent(tier: &str) -> i32 {
    let mut report = RunReport::new("C01", tier, "model_checking");
    let pool = Pool::new("C01", tier, e1common::nworkers());
    let specs = [
        SpecRun { spec: "c01-full", depth_quick: 2, depth_thorough: 3, budget_quick_s: 30.0, budget_thorough_s: 900.0 },
        SpecRun { spec: "c01-core", depth_quick: 4, depth_thorough: 6, budget_quick_s: 20.0, budget_thorough_s: 900.0 },
    ];
    let all = e1common::run_specs(&pool, tier, &specs, &mut report);
    // glob E4
    let gl = if tier == "thorough" { 5 } else { 4 };
    let out = pool.map(vec![json!({"glob": gl}), json!({"glob_keys": true})], 0);
    let mut through = json!({});
    match &out[1] {
        Outcome::Done(v) => {
            let t = &v["through_keys"];
            for e in t["errors"].as_array().cloned().unwrap_or_default() {
                report.machinery_errors.push(format!("glob through KEYS/SCAN: {}", e));
            }
            for d in t["devs"].as_array().cloned().unwrap_or_default() {
                let sig = format!("{}|through-{}", glob_dev_class(d["pattern"].as_str().unwrap_or(""), d["expected"].as_bool().unwrap_or(false)), d["through"].as_str().unwrap_or("").replace(' ', "-"));
                report.deviations.push(Deviation { property: "C01".into(), sig, replay: json!({"kind": "glob-keys", "case": d}) });
            }
            println!("  c01-glob-through-keys: patterns={} keys={} evaluations={} deviations={}", t["patterns"], t["texts"], t["evaluations"], t["devs"].as_array().map(|a| a.len()).unwrap_or(0));
            through = json!({"patterns": t["patterns"], "keys": t["texts"], "evaluations": t["evaluations"], "commands": ["KEYS pattern", "SCAN 0 MATCH pattern COUNT 1000"]});
        }
        Outcome::Died { status, case } => report.machinery_errors.push(format!("glob-through-keys worker died: {} {:?}", status, case)),
    }
    let mut glob_cov = json!({});
    match &out[0] {
        Outcome::Done(v) => {
            for d in v["devs"].as_array().cloned().unwrap_or_default() {
                let sig = glob_dev_class(d["pattern"].as_str().unwrap_or(""), d["expected"].as_bool().unwrap_or(false));
                report.deviations.push(Deviation { property: "C01".into(), sig, replay: json!({"kind": "glob", "case": d}) });
            }
            glob_cov = json!({"patterns": v["patterns"], "dont_care_patterns": v["dont_care_patterns"], "evaluations": v["evaluations"], "matching_pairs": v["matching_pairs"], "max_pattern_len": gl});
        }
        Outcome::Died { status, case } => report.machinery_errors.push(format!("glob sweep worker died: {} {:?}", status, case)),
    }
    let bytes_cov = super::bytesfam::parent(&pool, &mut report, "C01", &["string", "keyname"]);
    e1common::merge_coverage(&mut report, &all, json!({"glob_matcher_vs_reference": glob_cov, "glob_through_KEYS_and_SCAN": through, "byte_transparency": bytes_cov["byte_transparency"]}));
    report.assumptions = vec![
        "reference semantics as written in /verif/SEMANTICS.md (Redis 7.x), replies compared in normal form (any error = any error, null array = empty array)".into(),
        "the empty key is outside the alphabet (ferrous rejects it on purpose)".into(),
        "bounded: histories up to the completed depth over the listed alphabets".into(),
    ];
    report.finish()
}
