//! C08 — WATCH aborts EXEC whenever a watched key changed, and only then.
//! (a) the matrix: every write command x watched key initially {absent, six types} x path {other connection,
//! same connection before MULTI, other connection inside EXEC, other connection via EVAL, deadline reached
//! without / with a sweeper pass} plus the no-false-abort side (same-shard key, other-shard key, other
//! database), as scripted schedules judged by the per-client dirty-flag model; (b) E1 over WATCH/UNWATCH/
//! MULTI/EXEC/DISCARD/SELECT histories of two connections; (c) a served blocking pop between WATCH and EXEC.

use super::c05::Harness;
use super::e1common::{self, DataProp, SpecRun};
use crate::explore::e1::{self, World};
use crate::explore::multiworld::{MAct, MultiSpec, MultiWorld};
use crate::model::conn::FORWARD_SCRIPT;
use crate::pool::{Outcome, Pool, WorkerIo};
use crate::report::{Deviation, RunReport};
use crate::resp::{self, R};
use crate::srv::SrvOpts;
use serde_json::{json, Value};

fn s(v: &[&str]) -> Vec<Vec<u8>> {
    v.iter().map(|x| x.as_bytes().to_vec()).collect()
}

/// write commands addressing key `k` (`j` is a second key for RENAME)
fn writes() -> Vec<Vec<&'static str>> {
    vec![
        vec!["SET", "k", "v"], vec!["SET", "k", "v", "EX", "100"], vec!["SET", "k", "v", "NX"], vec!["SETNX", "k", "v"], vec!["SETEX", "k", "100", "v"], vec!["PSETEX", "k", "100000", "v"], vec!["MSET", "k", "v"],
        vec!["GETSET", "k", "v"], vec!["APPEND", "k", "x"], vec!["SETRANGE", "k", "1", "Z"], vec!["INCR", "k"], vec!["DECR", "k"], vec!["INCRBY", "k", "2"], vec!["DECRBY", "k", "2"],
        vec!["DEL", "k"], vec!["RENAME", "k", "j"], vec!["RENAME", "j", "k"], vec!["RENAMENX", "j", "k"],
        // the other name in the same shard as k (k4), and in a shard before k's (s2: shard 0; j's is behind k's): RENAME
        // takes one lock or two, and the two in address order
        vec!["RENAME", "k", "k4"], vec!["RENAME", "k4", "k"], vec!["RENAMENX", "k4", "k"], vec!["RENAME", "k", "s2"], vec!["RENAME", "s2", "k"], vec!["EXPIRE", "k", "100"], vec!["PEXPIRE", "k", "100000"], vec!["PERSIST", "k"], vec!["EXPIRE", "k", "0"],
        vec!["FLUSHDB"], vec!["FLUSHALL"],
        vec!["LPUSH", "k", "a"], vec!["RPUSH", "k", "a"], vec!["LPOP", "k"], vec!["RPOP", "k"], vec!["LSET", "k", "0", "z"], vec!["LTRIM", "k", "1", "0"], vec!["LREM", "k", "0", "a"], vec!["BLPOP", "k", "0"],
        vec!["SADD", "k", "m"], vec!["SREM", "k", "a"], vec!["SPOP", "k", "9"],
        vec!["HSET", "k", "f", "v"], vec!["HMSET", "k", "f", "v"], vec!["HDEL", "k", "f"], vec!["HINCRBY", "k", "f", "1"],
        vec!["ZADD", "k", "1", "m"], vec!["ZREM", "k", "a"], vec!["ZINCRBY", "k", "1", "a"], vec!["ZPOPMIN", "k"], vec!["ZPOPMAX", "k"],
        vec!["XADD", "k", "5-1", "f", "v"], vec!["XDEL", "k", "1-1"], vec!["XTRIM", "k", "MAXLEN", "0"],
    ]
}

fn seeds() -> Vec<(&'static str, Vec<Vec<&'static str>>)> {
    vec![
        ("absent", vec![]),
        ("string", vec![vec!["SET", "k", "10"]]),
        ("list", vec![vec!["RPUSH", "k", "a", "b"]]),
        ("set", vec![vec!["SADD", "k", "a", "b"]]),
        ("hash", vec![vec!["HSET", "k", "f", "1"]]),
        ("zset", vec![vec!["ZADD", "k", "1", "a", "2", "b"]]),
        ("stream", vec![vec!["XADD", "k", "1-1", "f", "v"]]),
    ]
}

struct Plan {
    acts: Vec<MAct>,
    hists: Vec<(String, Vec<usize>)>,
}

fn plan() -> Plan {
    let mut acts: Vec<MAct> = Vec::new();
    let mut idx = |a: MAct, acts: &mut Vec<MAct>| -> usize {
        let key = format!("{:?}", a);
        if let Some(p) = acts.iter().position(|x| format!("{:?}", x) == key) {
            return p;
        }
        acts.push(a);
        acts.len() - 1
    };
    let cmd = |c: usize, v: &[&str]| MAct::Cmd(c, s(v));
    let mut hists: Vec<(String, Vec<usize>)> = Vec::new();
    let tail = |acts: &mut Vec<MAct>, idx: &mut dyn FnMut(MAct, &mut Vec<MAct>) -> usize| -> Vec<usize> {
        vec![idx(cmd(0, &["MULTI"]), acts), idx(cmd(0, &["SET", "probe", "1"]), acts), idx(cmd(0, &["EXEC"]), acts)]
    };
    for (sname, seed) in seeds() {
        for w in writes() {
            let wn = w.join(" ");
            // a second key for the RENAME-to-k forms
            let needs_j = w[0].starts_with("RENAME") && w[1] != "k";
            for path in ["other", "same-before-multi", "other-in-exec", "other-via-eval"] {
                if w[0] == "BLPOP" && (path == "other-via-eval" || sname != "list") {
                    continue; // scripts may not block; on anything but a non-empty list the command would block
                }
                if path == "other-via-eval" && (w[0] == "RENAMENX" || w[0] == "SPOP" || (w[0] == "EXPIRE" && w[2] == "0")) {
                    continue; // the script-side twin of RENAMENX is C12's subject
                }
                let mut h: Vec<usize> = Vec::new();
                for sc in seed.iter() {
                    h.push(idx(cmd(1, sc), &mut acts));
                }
                if needs_j {
                    h.push(idx(cmd(1, &["SET", w[1], "jv"]), &mut acts));
                }
                h.push(idx(cmd(0, &["WATCH", "k"]), &mut acts));
                match path {
                    "other" => h.push(idx(cmd(1, &w), &mut acts)),
                    "same-before-multi" => h.push(idx(cmd(0, &w), &mut acts)),
                    "other-in-exec" => {
                        h.push(idx(cmd(1, &["MULTI"]), &mut acts));
                        h.push(idx(cmd(1, &w), &mut acts));
                        h.push(idx(cmd(1, &["EXEC"]), &mut acts));
                    }
                    _ => {
                        let mut e: Vec<&str> = vec!["EVAL", FORWARD_SCRIPT, "0"];
                        e.extend(w.iter());
                        h.push(idx(cmd(1, &e), &mut acts));
                    }
                }
                h.extend(tail(&mut acts, &mut idx));
                hists.push((format!("{}|{}|{}", wn, sname, path), h));
            }
        }
        // the key reaching its deadline between WATCH and EXEC, without and with a sweeper pass
        if sname != "absent" {
            for (tname, ns) in [("deadline-no-sweep", 150_000_000u64), ("deadline-after-sweep", 2_000_000_000u64)] {
                let mut h: Vec<usize> = Vec::new();
                for sc in seed.iter() {
                    h.push(idx(cmd(1, sc), &mut acts));
                }
                h.push(idx(cmd(1, &["PEXPIRE", "k", "100"]), &mut acts));
                h.push(idx(cmd(0, &["WATCH", "k"]), &mut acts));
                h.push(idx(MAct::Tick(ns), &mut acts));
                h.extend(tail(&mut acts, &mut idx));
                hists.push((format!("(deadline)|{}|{}", sname, tname), h));
            }
            // ... and then a write by the other connection finds the remains of the key (its deadline passed, nobody has
            // looked at it, no sweeper pass): whatever the write does with them, the watched key has changed
            // (a seeded FLUSHDB skipped expired entries when it marked what it removed: the remains vanished unnoticed)
            if sname == "string" || sname == "list" {
                for w in writes() {
                    if w[0] == "BLPOP" {
                        continue;
                    }
                    let mut h: Vec<usize> = Vec::new();
                    for sc in seed.iter() {
                        h.push(idx(cmd(1, sc), &mut acts));
                    }
                    if w[0].starts_with("RENAME") && w[1] != "k" {
                        h.push(idx(cmd(1, &["SET", w[1], "jv"]), &mut acts));
                    }
                    h.push(idx(cmd(1, &["PEXPIRE", "k", "100"]), &mut acts));
                    h.push(idx(cmd(0, &["WATCH", "k"]), &mut acts));
                    h.push(idx(MAct::Tick(150_000_000), &mut acts));
                    h.push(idx(cmd(1, &w), &mut acts));
                    h.extend(tail(&mut acts, &mut idx));
                    hists.push((format!("(deadline-then-write)|{}|{}", sname, w.join(" ")), h));
                }
            }
            // a TTL that does not run out must not abort
            let mut h: Vec<usize> = Vec::new();
            for sc in seed.iter() {
                h.push(idx(cmd(1, sc), &mut acts));
            }
            h.push(idx(cmd(1, &["PEXPIRE", "k", "100000"]), &mut acts));
            h.push(idx(cmd(0, &["WATCH", "k"]), &mut acts));
            h.push(idx(MAct::Tick(2_000_000_000), &mut acts));
            h.extend(tail(&mut acts, &mut idx));
            hists.push((format!("(ttl-not-reached)|{}|must-not-abort", sname), h));
            // the deadline passed before the WATCH and nobody has looked at the key since: it is absent when it is watched
            // and absent at EXEC, whoever removes the remains in between (EXEC's own check, the sweeper) - must not abort
            // (a seeded WATCH took its baseline without the lazy removal, which then counted as a modification)
            for (tname, ns) in [("exec-at-once", 0u64), ("sweeper-in-between", 2_000_000_000u64)] {
                let mut h: Vec<usize> = Vec::new();
                for sc in seed.iter() {
                    h.push(idx(cmd(1, sc), &mut acts));
                }
                h.push(idx(cmd(1, &["PEXPIRE", "k", "100"]), &mut acts));
                h.push(idx(MAct::Tick(150_000_000), &mut acts));
                h.push(idx(cmd(0, &["WATCH", "k"]), &mut acts));
                if ns > 0 {
                    h.push(idx(MAct::Tick(ns), &mut acts));
                }
                h.extend(tail(&mut acts, &mut idx));
                hists.push((format!("(expired-before-watch)|{}|{}|must-not-abort", sname, tname), h));
            }
            // a deadline that was removed again before the WATCH (PERSIST, or the key written anew) leaves a stale entry in
            // the sweeper's index: the old deadline passing and the sweeper looking at that entry change nothing and must
            // not abort (a seeded sweeper marked every key it re-validated as modified)
            for (hname, undo) in [("persisted", vec![vec!["PERSIST", "k"]]), ("deleted-and-written-anew", { let mut v = vec![vec!["DEL", "k"]]; v.extend(seed.iter().cloned()); v })] {
                for (tname, ns) in [("no-sweep", 150_000_000u64), ("after-sweep", 2_000_000_000u64)] {
                    let mut h: Vec<usize> = Vec::new();
                    for sc in seed.iter() {
                        h.push(idx(cmd(1, sc), &mut acts));
                    }
                    h.push(idx(cmd(1, &["PEXPIRE", "k", "100"]), &mut acts));
                    for u in undo.iter() {
                        h.push(idx(cmd(1, u), &mut acts));
                    }
                    h.push(idx(cmd(0, &["WATCH", "k"]), &mut acts));
                    h.push(idx(MAct::Tick(ns), &mut acts));
                    h.extend(tail(&mut acts, &mut idx));
                    hists.push((format!("(stale-deadline:{})|{}|{}|must-not-abort", hname, sname, tname), h));
                }
            }
        } else {
            // the watched name is absent but a key of that name once had a deadline (emptied / deleted before it ran out)
            for (tname, ns) in [("no-sweep", 150_000_000u64), ("after-sweep", 2_000_000_000u64)] {
                let mut h: Vec<usize> = vec![idx(cmd(1, &["RPUSH", "k", "x"]), &mut acts), idx(cmd(1, &["PEXPIRE", "k", "100"]), &mut acts), idx(cmd(1, &["LPOP", "k"]), &mut acts)];
                h.push(idx(cmd(0, &["WATCH", "k"]), &mut acts));
                h.push(idx(MAct::Tick(ns), &mut acts));
                h.extend(tail(&mut acts, &mut idx));
                hists.push((format!("(stale-deadline:emptied)|absent|{}|must-not-abort", tname), h));
            }
        }
    }
    // no false abort: the same writes addressed to a same-shard key (ab), an other-shard key (k2), or k in another database
    for w in writes() {
        if w[0] == "FLUSHDB" || w[0] == "FLUSHALL" || w[0] == "BLPOP" {
            continue;
        }
        for (vname, key) in [("same-shard-key", "ab"), ("other-shard-key", "k2")] {
            let w2: Vec<&str> = w.iter().map(|a| if *a == "k" { key } else { *a }).collect();
            if w2.iter().any(|a| *a == "j") {
                continue;
            }
            let mut h = vec![idx(cmd(1, &["SET", "k", "10"]), &mut acts), idx(cmd(0, &["WATCH", "k"]), &mut acts), idx(cmd(1, &w2), &mut acts)];
            h.extend(tail(&mut acts, &mut idx));
            hists.push((format!("{}|string|{}", w.join(" "), vname), h));
        }
        let mut h = vec![idx(cmd(1, &["SET", "k", "10"]), &mut acts), idx(cmd(0, &["WATCH", "k"]), &mut acts), idx(cmd(1, &["SELECT", "1"]), &mut acts), idx(cmd(1, &w), &mut acts)];
        h.extend(tail(&mut acts, &mut idx));
        hists.push((format!("{}|string|other-database", w.join(" ")), h));
    }
    // FLUSHDB of another database must not abort
    let mut h = vec![idx(cmd(1, &["SET", "k", "10"]), &mut acts), idx(cmd(0, &["WATCH", "k"]), &mut acts), idx(cmd(1, &["SELECT", "1"]), &mut acts), idx(cmd(1, &["FLUSHDB"]), &mut acts)];
    h.extend(tail(&mut acts, &mut idx));
    hists.push(("FLUSHDB|string|other-database".to_string(), h));
    Plan { acts, hists }
}

fn hist_acts() -> Vec<MAct> {
    let cmd = |c: usize, v: &[&str]| MAct::Cmd(c, s(v));
    vec![
        // `ab` lives in the same shard as `k` (its watch switches that shard's bookkeeping on), `k2` in another
        cmd(0, &["WATCH", "k"]), cmd(0, &["WATCH", "k2"]), cmd(0, &["WATCH", "k", "k2"]), cmd(0, &["WATCH", "ab"]), cmd(0, &["UNWATCH"]), cmd(0, &["MULTI"]), cmd(0, &["EXEC"]), cmd(0, &["DISCARD"]),
        cmd(0, &["SELECT", "1"]), cmd(0, &["SELECT", "0"]), cmd(0, &["SET", "probe", "1"]), cmd(0, &["SET", "k", "own"]),
        cmd(1, &["SET", "k", "v"]), cmd(1, &["SET", "k2", "v"]), cmd(1, &["SELECT", "1"]), cmd(1, &["DEL", "k"]),
    ]
}

/// two watchers: both connections watch (the same key name, in either database), end their watches in every way
/// and move between databases; the registrations of one must survive whatever the other does
/// (a seeded UNWATCH that unregistered in the currently selected database cancelled the other connection's watch)
fn two_watcher_acts() -> Vec<MAct> {
    let cmd = |c: usize, v: &[&str]| MAct::Cmd(c, s(v));
    vec![
        cmd(0, &["WATCH", "k"]), cmd(0, &["UNWATCH"]), cmd(0, &["MULTI"]), cmd(0, &["EXEC"]), cmd(0, &["SELECT", "1"]), cmd(0, &["SELECT", "0"]), cmd(0, &["SET", "probe", "1"]),
        cmd(1, &["WATCH", "k"]), cmd(1, &["WATCH", "ab"]), cmd(1, &["UNWATCH"]), cmd(1, &["MULTI"]), cmd(1, &["EXEC"]), cmd(1, &["DISCARD"]), cmd(1, &["SELECT", "1"]), cmd(1, &["SELECT", "0"]), cmd(1, &["SET", "k", "v"]),
    ]
}

fn make_world(spec: &str) -> Option<Box<dyn World>> {
    let (acts, uses_time) = match spec {
        "c08-matrix" => (plan().acts, true),
        "c08-hist" => (hist_acts(), false),
        "c08-two-watchers" | "c08-two-watchers-sameshard" => (two_watcher_acts(), false),
        _ => return None,
    };
    let stride = if spec.ends_with("-sameshard") { 16 } else { 1 };
    Some(Box::new(MultiWorld::new(MultiSpec { prop: "C08".into(), nconns: 2, acts, probes: vec![s(&["GET", "probe"]), s(&["EXISTS", "probe"])], uses_time, dump: true, srv_opts: SrvOpts { conn_stride: stride, ..SrvOpts::default() } })))
}

/// (c) a blocked BLPOP served by a push between WATCH and EXEC: the key is created and emptied again
fn blocking_scenario(h: &mut Harness) -> Result<Vec<(String, Value)>, String> {
    let mut devs = Vec::new();
    for variant in ["watch-then-block-then-push", "block-then-watch-then-push"] {
        h.ensure()?;
        h.aux_call(&["FLUSHALL"])?;
        h.srv.as_ref().unwrap().h.storage.verif_reset_watch_trackers();
        let srv = h.srv.as_ref().unwrap();
        let mut a = srv.connect().map_err(|e| format!("{:?}", e))?;
        let mut c = srv.connect().map_err(|e| format!("{:?}", e))?;
        if variant == "watch-then-block-then-push" {
            let _ = srv.call(&mut a, &["WATCH", "k"]);
        }
        c.send(&resp::cmd(&["BLPOP", "k", "0"]));
        let _ = srv.steps(3);
        if variant != "watch-then-block-then-push" {
            let _ = srv.call(&mut a, &["WATCH", "k"]);
        }
        h.aux_call(&["RPUSH", "k", "x"])?;
        let srv = h.srv.as_ref().unwrap();
        let _ = srv.steps(4);
        c.poll();
        let served = c.take_frame().ok().flatten();
        let _ = srv.call(&mut a, &["MULTI"]);
        let _ = srv.call(&mut a, &["SET", "probe", "1"]);
        let r = srv.call(&mut a, &["EXEC"]).map_err(|e| format!("{:?}", e))?;
        let aborted = matches!(r, R::NilArr | R::Nil);
        if served.is_none() {
            devs.push((format!("C08|BLOCKING|{}|blocked-client-not-served", variant), json!({})));
        } else if !aborted {
            devs.push((format!("C08|BLOCKING|{}|EXEC-ran-although-the-watched-key-was-pushed-and-popped", variant), json!({"exec": resp::show(&r), "served": served.map(|f| resp::show(&f))})));
        }
        let p = h.aux_call(&["EXISTS", "probe"])?;
        if aborted && p != R::Int(0) {
            devs.push((format!("C08|BLOCKING|{}|aborted-but-probe-written", variant), json!({})));
        }
        a.discard();
        c.discard();
        let _ = h.srv.as_ref().unwrap().steps(2);
    }
    Ok(devs)
}

fn extra_worker(_tier: &str, task: &Value, _io: &mut WorkerIo) -> Option<Value> {
    if task.get("blocking").is_some() {
        let mut h = Harness::new(SrvOpts::default());
        return Some(match blocking_scenario(&mut h) {
            Ok(d) => json!({"devs": d.iter().map(|(s, d)| json!({"sig": s, "detail": d})).collect::<Vec<_>>(), "errors": []}),
            Err(e) => json!({"devs": [], "errors": [e]}),
        });
    }
    None
}

fn extra_parent(pool: &Pool, _tier: &str, report: &mut RunReport) -> Value {
    // (a) the matrix as scripted schedules
    let p = plan();
    let names: Vec<String> = p.hists.iter().map(|(n, _)| n.clone()).collect();
    let hists: Vec<Vec<usize>> = p.hists.iter().map(|(_, h)| h.clone()).collect();
    let n0 = report.deviations.len();
    let (execs, probes, outcomes, samples, all_obs) = e1::run_scripted(pool, "c08-matrix", hists.clone(), report);
    // give matrix deviations a signature that names the cell
    for d in report.deviations[n0..].iter_mut() {
        if let Some(hist) = d.replay["history"].as_array() {
            let h: Vec<usize> = hist.iter().map(|x| x.as_u64().unwrap_or(0) as usize).collect();
            if let Some(pos) = hists.iter().position(|x| *x == h) {
                let exp_act = d.sig.rsplit('|').next().unwrap_or("").to_string();
                let what = if d.sig.contains("|EXEC|") { "EXEC" } else if d.sig.contains("STATE") { "STATE" } else { "step" };
                d.sig = format!("C08|MATRIX|{}|{}|{}", names[pos], what, exp_act);
            }
        }
    }
    let mut aborted = 0;
    let mut executed = 0;
    for o in all_obs.iter() {
        if let Some(last) = o.last() {
            if last.ends_with("arr[0]") || last.ends_with("nil") {
                aborted += 1;
            } else if last.contains("arr[") {
                executed += 1;
            }
        }
    }
    println!("  c08-matrix: schedules={} probes={} EXEC aborted in {} / executed in {}", execs, probes, aborted, executed);
    if aborted == 0 || executed == 0 {
        report.machinery_errors.push("vacuity: the matrix did not see both aborted and executed transactions".into());
    }
    // (c)
    let out = pool.map(vec![json!({"blocking": true})], 0);
    match &out[0] {
        Outcome::Done(v) => {
            for e in v["errors"].as_array().cloned().unwrap_or_default() {
                report.machinery_errors.push(format!("{}", e));
            }
            for d in v["devs"].as_array().cloned().unwrap_or_default() {
                report.deviations.push(Deviation { property: "C08".into(), sig: d["sig"].as_str().unwrap_or("").to_string(), replay: json!({"kind": "blocking-scenario", "detail": d["detail"]}) });
            }
        }
        Outcome::Died { status, .. } => report.machinery_errors.push(format!("blocking scenario worker died: {}", status)),
    }
    json!({"watch_matrix": {"schedules": execs, "cells": names.len(), "exec_aborted": aborted, "exec_executed": executed, "distinct_observation_sequences": outcomes, "samples": samples.into_iter().take(2).collect::<Vec<_>>()}})
}

fn prop() -> DataProp {
    DataProp {
        id: "C08",
        specs: vec![SpecRun { spec: "c08-hist", depth_quick: 5, depth_thorough: 7, budget_quick_s: 25.0, budget_thorough_s: 1500.0 },
            SpecRun { spec: "c08-two-watchers", depth_quick: 5, depth_thorough: 7, budget_quick_s: 25.0, budget_thorough_s: 1500.0 },
            SpecRun { spec: "c08-two-watchers-sameshard", depth_quick: 4, depth_thorough: 6, budget_quick_s: 15.0, budget_thorough_s: 900.0 }],
        make_world,
        assumptions: {
            let mut a = e1common::std_assumptions();
            a.push("a write that addresses the watched key but leaves it byte-identical (DEL of an absent key, SADD of an existing member, a refused command) may or may not abort: don't care".into());
            a
        },
    }
}

pub fn parent(tier: &str) -> i32 {
    e1common::data_parent(&prop(), tier, Some(&extra_parent))
}

pub fn handle_factory() -> impl FnMut(&str, &Value, &mut WorkerIo) -> (Value, bool) {
    e1common::data_handle_factory(make_world, Some(extra_worker))
}
