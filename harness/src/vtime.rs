//! Virtual time: the process-wide clock and sleep implementation that the libc symbol overrides in
//! main.rs delegate to. When virtual mode is off everything passes through to the real syscalls.
//!
//! * MONO (ns) only moves when the checker calls `tick` / `advance_to`; it never goes backwards.
//! * a thread that sleeps registers (id, wake_at) and parks until released by `tick`;
//! * threads marked free-running (checker threads, event-loop threads) return from sleeps at once;
//! * `tick` hops through the wake-up times in order and releases due sleepers one at a time,
//!   waiting for each to settle (sleep again, park at a hook point, or end) before the next.

use std::cell::Cell;
use std::sync::atomic::{AtomicBool, AtomicI64, AtomicU64, Ordering};
use std::sync::Mutex;

pub static VIRTUAL: AtomicBool = AtomicBool::new(false);
static MONO_NS: AtomicU64 = AtomicU64::new(0);
static REAL_BASE_NS: AtomicU64 = AtomicU64::new(0); // REALTIME = REAL_BASE + MONO
/// number of controlled (non-free-running) threads that are currently runnable
pub static RUNNING: AtomicI64 = AtomicI64::new(0);
static NEXT_ID: AtomicU64 = AtomicU64::new(1);

thread_local! {
    static FREE: Cell<bool> = const { Cell::new(false) };
    static TID: Cell<u64> = const { Cell::new(0) };
    /// true once this thread has been counted in RUNNING (i.e. it is a known controlled thread)
    static KNOWN: Cell<bool> = const { Cell::new(false) };
}

struct Sleeper {
    tid: u64,
    wake_at: u64,
    released: bool,
    /// each sleeper parks on its own flag, so that releasing one does not wake all the others (a worker that
    /// restarts servers accumulates their sweeper threads)
    flag: std::sync::Arc<std::sync::atomic::AtomicBool>,
    thread: std::thread::Thread,
}

struct Reg {
    sleepers: Vec<Sleeper>,
}

static REG: Mutex<Reg> = Mutex::new(Reg { sleepers: Vec::new() });

pub fn my_tid() -> u64 {
    TID.try_with(|t| {
        if t.get() == 0 {
            t.set(NEXT_ID.fetch_add(1, Ordering::Relaxed));
        }
        t.get()
    })
    .unwrap_or(0)
}

pub fn mark_free_running() {
    let _ = FREE.try_with(|f| f.set(true));
}

pub fn is_free_running() -> bool {
    FREE.try_with(|f| f.get()).unwrap_or(true)
}

/// A controlled thread becomes known (counted as running) on first contact.
pub fn note_known_running() {
    let _ = KNOWN.try_with(|k| {
        if !k.get() {
            k.set(true);
            RUNNING.fetch_add(1, Ordering::SeqCst);
        }
    });
}

/// A known controlled thread ends (e.g. bgsave thread at its last hook point).
pub fn note_thread_end() {
    let _ = KNOWN.try_with(|k| {
        if k.get() {
            k.set(false);
            RUNNING.fetch_sub(1, Ordering::SeqCst);
        }
    });
}

/// Called by hook-point parking: the thread stops being runnable / becomes runnable again.
pub fn note_parked() {
    note_known_running();
    RUNNING.fetch_sub(1, Ordering::SeqCst);
}
pub fn note_unparked() {
    RUNNING.fetch_add(1, Ordering::SeqCst);
}

// ---------------------------------------------------------------- real clock (raw syscalls)

pub fn real_clock_ns(clk: libc::clockid_t) -> u64 {
    let mut ts = libc::timespec { tv_sec: 0, tv_nsec: 0 };
    unsafe {
        libc::syscall(libc::SYS_clock_gettime, clk as libc::c_long, &mut ts as *mut libc::timespec);
    }
    ts.tv_sec as u64 * 1_000_000_000 + ts.tv_nsec as u64
}

pub fn real_now_ns() -> u64 {
    real_clock_ns(libc::CLOCK_MONOTONIC)
}

pub fn real_sleep_us(us: u64) {
    let ts = libc::timespec { tv_sec: (us / 1_000_000) as libc::time_t, tv_nsec: ((us % 1_000_000) * 1000) as libc::c_long };
    unsafe {
        libc::syscall(libc::SYS_nanosleep, &ts as *const libc::timespec, std::ptr::null_mut::<libc::timespec>());
    }
}

// ---------------------------------------------------------------- virtual clock

pub fn enable() {
    if VIRTUAL.load(Ordering::SeqCst) {
        return;
    }
    let mono = real_now_ns();
    let real = real_clock_ns(libc::CLOCK_REALTIME);
    // round both up to a whole second so that every epoch is ms-aligned in both clocks
    let mono_r = (mono / 1_000_000_000 + 1) * 1_000_000_000;
    let real_r = (real / 1_000_000_000 + 1) * 1_000_000_000;
    MONO_NS.store(mono_r, Ordering::SeqCst);
    REAL_BASE_NS.store(real_r - mono_r, Ordering::SeqCst);
    VIRTUAL.store(true, Ordering::SeqCst);
}

pub fn mono_ns() -> u64 {
    MONO_NS.load(Ordering::SeqCst)
}

pub fn wall_ms() -> u64 {
    (REAL_BASE_NS.load(Ordering::SeqCst) + MONO_NS.load(Ordering::SeqCst)) / 1_000_000
}

/// clock_gettime as seen by the process
pub fn virt_clock_gettime(clk: libc::clockid_t, ts: *mut libc::timespec) -> libc::c_int {
    if !VIRTUAL.load(Ordering::Relaxed) {
        return unsafe { libc::syscall(libc::SYS_clock_gettime, clk as libc::c_long, ts) as libc::c_int };
    }
    let ns = match clk {
        libc::CLOCK_MONOTONIC | libc::CLOCK_MONOTONIC_RAW | libc::CLOCK_MONOTONIC_COARSE | libc::CLOCK_BOOTTIME => MONO_NS.load(Ordering::SeqCst),
        libc::CLOCK_REALTIME | libc::CLOCK_REALTIME_COARSE => REAL_BASE_NS.load(Ordering::SeqCst) + MONO_NS.load(Ordering::SeqCst),
        _ => return unsafe { libc::syscall(libc::SYS_clock_gettime, clk as libc::c_long, ts) as libc::c_int },
    };
    unsafe {
        (*ts).tv_sec = (ns / 1_000_000_000) as libc::time_t;
        (*ts).tv_nsec = (ns % 1_000_000_000) as libc::c_long;
    }
    0
}

/// Sleep until virtual MONO >= wake_at (controlled threads), or return at once (free-running).
pub fn virt_sleep_until(wake_at: u64) {
    if is_free_running() {
        if REAL_SLEEPS_WHEN_FREE_RUNNING.load(Ordering::SeqCst) {
            let remaining = wake_at.saturating_sub(MONO_NS.load(Ordering::SeqCst));
            REAL_SLEEPS_TAKEN.fetch_add(1, Ordering::SeqCst);
            REAL_SLEEPS_US.fetch_add((remaining / 1000).min(50_000), Ordering::SeqCst);
            real_sleep_us((remaining / 1000).min(50_000));
        }
        return;
    }
    note_known_running();
    let tid = my_tid();
    let mut reg = REG.lock().unwrap();
    if MONO_NS.load(Ordering::SeqCst) >= wake_at {
        return;
    }
    let flag = std::sync::Arc::new(std::sync::atomic::AtomicBool::new(false));
    reg.sleepers.push(Sleeper { tid, wake_at, released: false, flag: flag.clone(), thread: std::thread::current() });
    RUNNING.fetch_sub(1, Ordering::SeqCst);
    drop(reg);
    while !flag.load(Ordering::SeqCst) {
        std::thread::park();
    }
    // RUNNING was incremented by the releaser
    let mut reg = REG.lock().unwrap();
    if let Some(pos) = reg.sleepers.iter().position(|s| s.tid == tid) {
        reg.sleepers.remove(pos);
    }
}

/// While set, a relative sleep of a free-running thread (the event loop's back-off between attempts to write to a full
/// socket) takes its real time, capped at 50 ms, instead of returning at once: the one scenario that checks what the
/// loop does while a peer drains its socket slowly needs the back-off to be real.
pub static REAL_SLEEPS_WHEN_FREE_RUNNING: std::sync::atomic::AtomicBool = std::sync::atomic::AtomicBool::new(false);
/// how many such sleeps were taken, and their total in microseconds
pub static REAL_SLEEPS_TAKEN: AtomicU64 = AtomicU64::new(0);
pub static REAL_SLEEPS_US: AtomicU64 = AtomicU64::new(0);

pub fn virt_nanosleep_rel(ns: u64) {
    if is_free_running() && REAL_SLEEPS_WHEN_FREE_RUNNING.load(Ordering::SeqCst) {
        REAL_SLEEPS_TAKEN.fetch_add(1, Ordering::SeqCst);
        REAL_SLEEPS_US.fetch_add((ns / 1000).min(50_000), Ordering::SeqCst);
        real_sleep_us((ns / 1000).min(50_000));
        return;
    }
    let wake = MONO_NS.load(Ordering::SeqCst).saturating_add(ns);
    virt_sleep_until(wake);
}

pub fn virt_nanosleep_abs(clk: libc::clockid_t, abs_ns: u64) {
    let wake = match clk {
        libc::CLOCK_REALTIME | libc::CLOCK_REALTIME_COARSE => abs_ns.saturating_sub(REAL_BASE_NS.load(Ordering::SeqCst)),
        _ => abs_ns,
    };
    virt_sleep_until(wake);
}

#[derive(Debug)]
pub struct SettleTimeout;

/// Wait (real time) until no controlled thread is runnable.
pub fn settle() -> Result<(), SettleTimeout> {
    let start = real_now_ns();
    let mut spins = 0u32;
    loop {
        if RUNNING.load(Ordering::SeqCst) <= 0 {
            return Ok(());
        }
        spins += 1;
        if spins < 200 {
            std::hint::spin_loop();
        } else {
            real_sleep_us(5);
            if real_now_ns() - start > 20_000_000_000 {
                return Err(SettleTimeout);
            }
        }
    }
}

/// Number of registered sleepers (controlled threads asleep)
pub fn sleeper_count() -> usize {
    REG.lock().unwrap().sleepers.len()
}

/// Earliest wake-up among sleepers
pub fn next_wake() -> Option<u64> {
    REG.lock().unwrap().sleepers.iter().filter(|s| !s.released).map(|s| s.wake_at).min()
}

/// Advance virtual time by delta ns, hopping through wake-up times and releasing due sleepers one at a
/// time in registration order, each settling before the next.
pub fn tick(delta_ns: u64) -> Result<(), SettleTimeout> {
    let target = MONO_NS.load(Ordering::SeqCst) + delta_ns;
    advance_to(target)
}

pub fn advance_to(target: u64) -> Result<(), SettleTimeout> {
    assert!(VIRTUAL.load(Ordering::SeqCst), "virtual time not enabled");
    loop {
        settle()?;
        let next = next_wake();
        match next {
            Some(w) if w <= target => {
                if w > MONO_NS.load(Ordering::SeqCst) {
                    MONO_NS.store(w, Ordering::SeqCst);
                }
                // release due sleepers one at a time
                loop {
                    {
                        let mut reg = REG.lock().unwrap();
                        let now = MONO_NS.load(Ordering::SeqCst);
                        match reg.sleepers.iter_mut().find(|s| !s.released && s.wake_at <= now) {
                            Some(s) => {
                                s.released = true;
                                RUNNING.fetch_add(1, Ordering::SeqCst);
                                s.flag.store(true, Ordering::SeqCst);
                                s.thread.unpark();
                            }
                            None => break,
                        }
                    }
                    settle()?;
                }
            }
            _ => {
                if target > MONO_NS.load(Ordering::SeqCst) {
                    MONO_NS.store(target, Ordering::SeqCst);
                }
                return Ok(());
            }
        }
    }
}

/// Advance to the next whole virtual second boundary at which the earliest sleeper wakes, so that a
/// history starts right after a sweeper pass: returns the new epoch (MONO ns).
pub fn align_epoch() -> Result<u64, SettleTimeout> {
    settle()?;
    if let Some(w) = next_wake() {
        advance_to(w)?;
    }
    // make the epoch ms-aligned (sleepers wake at whole-second offsets from an ms-aligned start, so it is)
    let now = MONO_NS.load(Ordering::SeqCst);
    let aligned = (now + 999_999) / 1_000_000 * 1_000_000;
    if aligned > now {
        advance_to(aligned)?;
    }
    Ok(MONO_NS.load(Ordering::SeqCst))
}
