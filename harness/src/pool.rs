//! Worker pool: the parent process never runs ferrous code; it partitions a finite case space into tasks,
//! hands them to `vcheck-bin --worker` children over stdin/stdout (one JSON document per line) and merges
//! results by task index, so completion order never influences any result or count.

use serde_json::{json, Value};
use std::collections::VecDeque;
use std::io::{BufRead, BufReader, Write};
use std::process::{Child, ChildStdin, ChildStdout, Command, Stdio};
use std::sync::Mutex;

#[derive(Debug, Clone)]
pub enum Outcome {
    Done(Value),
    /// the worker process died while running this task; `case` is the last case it announced
    Died { status: String, case: Option<Value> },
}

pub struct Pool {
    prop: String,
    tier: String,
    n: usize,
    /// environment additions for the workers
    pub env: Vec<(String, String)>,
    /// address-space limit per worker in bytes (0 = none)
    pub rlimit_as: u64,
}

struct Worker {
    child: Child,
    stdin: ChildStdin,
    stdout: BufReader<ChildStdout>,
    tasks_done: usize,
}

impl Pool {
    pub fn new(prop: &str, tier: &str, n: usize) -> Pool {
        Pool { prop: prop.to_string(), tier: tier.to_string(), n: n.max(1), env: Vec::new(), rlimit_as: 24 << 30 }
    }

    fn spawn(&self, slot: usize) -> Worker {
        let exe = std::env::current_exe().expect("current exe");
        let mut cmd = Command::new(exe);
        cmd.arg("--worker").arg(&self.prop).arg("--tier").arg(&self.tier).arg("--slot").arg(slot.to_string());
        cmd.env("VERIF_RLIMIT_AS", self.rlimit_as.to_string());
        for (k, v) in &self.env {
            cmd.env(k, v);
        }
        cmd.stdin(Stdio::piped()).stdout(Stdio::piped()).stderr(Stdio::inherit());
        let mut child = cmd.spawn().expect("spawn worker");
        let stdin = child.stdin.take().unwrap();
        let stdout = BufReader::new(child.stdout.take().unwrap());
        Worker { child, stdin, stdout, tasks_done: 0 }
    }

    /// Run all tasks; result i belongs to task i. `recycle_after`: respawn a worker after that many tasks.
    pub fn map(&self, tasks: Vec<Value>, recycle_after: usize) -> Vec<Outcome> {
        let total = tasks.len();
        let queue: Mutex<VecDeque<(usize, Value)>> = Mutex::new(tasks.into_iter().enumerate().collect());
        let results: Mutex<Vec<Option<Outcome>>> = Mutex::new(vec![None; total]);
        let nworkers = self.n.min(total.max(1));
        std::thread::scope(|s| {
            for slot in 0..nworkers {
                let queue = &queue;
                let results = &results;
                s.spawn(move || {
                    let mut w: Option<Worker> = None;
                    loop {
                        let next = queue.lock().unwrap().pop_front();
                        let (idx, task) = match next {
                            Some(t) => t,
                            None => break,
                        };
                        if w.is_none() {
                            w = Some(self.spawn(slot));
                        }
                        let wk = w.as_mut().unwrap();
                        let line = json!({"idx": idx, "task": task}).to_string();
                        let mut outcome: Option<Outcome> = None;
                        let mut last_case: Option<Value> = None;
                        let mut last_panic = String::new();
                        let mut recycle = false;
                        if wk.stdin.write_all(line.as_bytes()).is_err() || wk.stdin.write_all(b"\n").is_err() || wk.stdin.flush().is_err() {
                            // worker already dead
                        } else {
                            loop {
                                let mut buf = String::new();
                                match wk.stdout.read_line(&mut buf) {
                                    Ok(0) | Err(_) => break,
                                    Ok(_) => {
                                        let v: Value = match serde_json::from_str(buf.trim_end()) {
                                            Ok(v) => v,
                                            Err(_) => continue,
                                        };
                                        if let Some(c) = v.get("case") {
                                            last_case = Some(c.clone());
                                            continue;
                                        }
                                        if let Some(p) = v.get("panic") {
                                            last_panic = p.as_str().unwrap_or("").to_string();
                                            continue;
                                        }
                                        if v.get("idx").and_then(|i| i.as_u64()) == Some(idx as u64) {
                                            if let Some(r) = v.get("result") {
                                                recycle = v.get("recycle").and_then(|b| b.as_bool()).unwrap_or(false);
                                                outcome = Some(Outcome::Done(r.clone()));
                                                break;
                                            }
                                        }
                                    }
                                }
                            }
                        }
                        match outcome {
                            Some(o) => {
                                results.lock().unwrap()[idx] = Some(o);
                                wk.tasks_done += 1;
                                if recycle || (recycle_after > 0 && wk.tasks_done >= recycle_after) {
                                    let mut old = w.take().unwrap();
                                    drop(old.stdin);
                                    let _ = old.child.wait();
                                }
                            }
                            None => {
                                let mut old = w.take().unwrap();
                                drop(old.stdin);
                                let mut status = match old.child.wait() {
                                    Ok(st) => format!("{}", st),
                                    Err(e) => format!("wait failed: {}", e),
                                };
                                if !last_panic.is_empty() {
                                    status.push_str(&format!(" (last panic: {})", last_panic));
                                }
                                results.lock().unwrap()[idx] = Some(Outcome::Died { status, case: last_case });
                            }
                        }
                    }
                    if let Some(mut old) = w.take() {
                        drop(old.stdin);
                        let _ = old.child.wait();
                    }
                });
            }
        });
        results.into_inner().unwrap().into_iter().map(|o| o.expect("every task has an outcome")).collect()
    }
}

// ------------------------------------------------------------------ worker side

static PROTO_FD: std::sync::atomic::AtomicI32 = std::sync::atomic::AtomicI32::new(-1);

pub struct WorkerIo {
    out: std::fs::File,
}

impl WorkerIo {
    /// Redirect fds 1 and 2 (ferrous prints a lot) and keep the original stdout for the protocol.
    pub fn init() -> WorkerIo {
        use std::os::fd::FromRawFd;
        unsafe {
            let proto = libc::dup(1);
            let log_path = std::env::var("VERIF_LOG").ok();
            let path = std::ffi::CString::new(log_path.unwrap_or_else(|| "/dev/null".to_string())).unwrap();
            let fd = libc::open(path.as_ptr(), libc::O_WRONLY | libc::O_CREAT | libc::O_APPEND, 0o644);
            if fd >= 0 {
                libc::dup2(fd, 1);
                libc::dup2(fd, 2);
                libc::close(fd);
            }
            PROTO_FD.store(proto, std::sync::atomic::Ordering::SeqCst);
            std::panic::set_hook(Box::new(|info| {
                // every panic (also those caught on the event-loop thread) is reported on the protocol pipe,
                // so that the parent can name it if the worker dies
                let msg = format!("{}", info).replace('\n', " ");
                let line = format!("{}\n", json!({"panic": msg}));
                let fd = PROTO_FD.load(std::sync::atomic::Ordering::SeqCst);
                if fd >= 0 {
                    libc::write(fd, line.as_ptr() as *const libc::c_void, line.len());
                }
            }));
            WorkerIo { out: std::fs::File::from_raw_fd(proto) }
        }
    }
    pub fn announce_case(&mut self, case: Value) {
        let _ = writeln!(self.out, "{}", json!({"case": case}));
        let _ = self.out.flush();
    }
    pub fn result(&mut self, idx: u64, result: Value, recycle: bool) {
        let _ = writeln!(self.out, "{}", json!({"idx": idx, "result": result, "recycle": recycle}));
        let _ = self.out.flush();
    }
}

/// Worker main loop: read tasks from stdin, run `handler`, write results.
pub fn worker_loop(mut handler: impl FnMut(&Value, &mut WorkerIo) -> (Value, bool)) {
    let mut io = WorkerIo::init();
    let stdin = std::io::stdin();
    let mut line = String::new();
    loop {
        line.clear();
        match stdin.lock().read_line(&mut line) {
            Ok(0) | Err(_) => break,
            Ok(_) => {}
        }
        let v: Value = match serde_json::from_str(line.trim_end()) {
            Ok(v) => v,
            Err(_) => continue,
        };
        let idx = v["idx"].as_u64().unwrap_or(0);
        let (res, recycle) = handler(&v["task"], &mut io);
        io.result(idx, res, recycle);
    }
}
