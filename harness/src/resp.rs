//! The checker's own, independent RESP reader/writer (never shares code with ferrous' codec).

#[derive(Clone, Debug, PartialEq)]
pub enum R {
    Simple(Vec<u8>),
    Err(Vec<u8>),
    Int(i64),
    Bulk(Vec<u8>),
    Nil,    // $-1
    NilArr, // *-1
    Arr(Vec<R>),
    // RESP3 forms (never expected from a RESP2 conversation, decoded so they can be reported)
    Null,
    Bool(bool),
    Double(f64),
    Map(Vec<(R, R)>),
    Set(Vec<R>),
}

#[derive(Debug, Clone, PartialEq)]
pub enum DecodeErr {
    Malformed(String),
}

fn find_crlf(buf: &[u8], from: usize) -> Option<usize> {
    let mut i = from;
    while i + 1 < buf.len() {
        if buf[i] == b'\r' && buf[i + 1] == b'\n' {
            return Some(i);
        }
        i += 1;
    }
    None
}

fn parse_i64(b: &[u8]) -> Result<i64, DecodeErr> {
    std::str::from_utf8(b)
        .ok()
        .and_then(|s| s.parse::<i64>().ok())
        .ok_or_else(|| DecodeErr::Malformed(format!("bad integer {:?}", String::from_utf8_lossy(b))))
}

/// a declared length is 0, a positive decimal without sign or leading zero, or -1
fn canonical_len(line: &[u8]) -> Result<(), DecodeErr> {
    let ok = line == b"-1" || line == b"0" || (!line.is_empty() && line[0] != b'0' && line.iter().all(|c| c.is_ascii_digit()));
    if ok {
        Ok(())
    } else {
        Err(DecodeErr::Malformed("non-canonical length".into()))
    }
}

/// Decode one frame from the front of buf: Ok(None) = incomplete
pub fn decode(buf: &[u8]) -> Result<Option<(R, usize)>, DecodeErr> {
    decode_at(buf, 0, 0)
}

fn decode_at(buf: &[u8], pos: usize, depth: usize) -> Result<Option<(R, usize)>, DecodeErr> {
    if depth > 64 {
        return Err(DecodeErr::Malformed("nesting too deep".into()));
    }
    if pos >= buf.len() {
        return Ok(None);
    }
    let t = buf[pos];
    let eol = match find_crlf(buf, pos + 1) {
        Some(e) => e,
        None => return Ok(None),
    };
    let line = &buf[pos + 1..eol];
    let after = eol + 2;
    match t {
        b'+' => Ok(Some((R::Simple(line.to_vec()), after))),
        b'-' => Ok(Some((R::Err(line.to_vec()), after))),
        b':' => Ok(Some((R::Int(parse_i64(line)?), after))),
        b'_' => {
            if line.is_empty() {
                Ok(Some((R::Null, after)))
            } else {
                Err(DecodeErr::Malformed("bad null".into()))
            }
        }
        b'#' => match line {
            b"t" => Ok(Some((R::Bool(true), after))),
            b"f" => Ok(Some((R::Bool(false), after))),
            _ => Err(DecodeErr::Malformed("bad boolean".into())),
        },
        b',' => {
            let s = String::from_utf8_lossy(line);
            let v = match s.as_ref() {
                "inf" => f64::INFINITY,
                "-inf" => f64::NEG_INFINITY,
                "nan" => f64::NAN,
                o => o.parse::<f64>().map_err(|_| DecodeErr::Malformed("bad double".into()))?,
            };
            Ok(Some((R::Double(v), after)))
        }
        b'$' => {
            canonical_len(line)?;
            let n = parse_i64(line)?;
            if n == -1 {
                return Ok(Some((R::Nil, after)));
            }
            if n < 0 {
                return Err(DecodeErr::Malformed("negative bulk length".into()));
            }
            let n = n as usize;
            if buf.len() < after + n + 2 {
                return Ok(None);
            }
            if &buf[after + n..after + n + 2] != b"\r\n" {
                return Err(DecodeErr::Malformed("bulk not terminated by CRLF".into()));
            }
            Ok(Some((R::Bulk(buf[after..after + n].to_vec()), after + n + 2)))
        }
        b'*' | b'~' | b'%' => {
            canonical_len(line)?;
            let n = parse_i64(line)?;
            if n == -1 && t == b'*' {
                return Ok(Some((R::NilArr, after)));
            }
            if n < 0 {
                return Err(DecodeErr::Malformed("negative container length".into()));
            }
            let count = if t == b'%' { n as usize * 2 } else { n as usize };
            let mut items = Vec::new();
            let mut p = after;
            for _ in 0..count {
                match decode_at(buf, p, depth + 1)? {
                    Some((v, np)) => {
                        items.push(v);
                        p = np;
                    }
                    None => return Ok(None),
                }
            }
            let v = match t {
                b'*' => R::Arr(items),
                b'~' => R::Set(items),
                _ => {
                    let mut m = Vec::new();
                    let mut it = items.into_iter();
                    while let (Some(k), Some(v)) = (it.next(), it.next()) {
                        m.push((k, v));
                    }
                    R::Map(m)
                }
            };
            Ok(Some((v, p)))
        }
        other => Err(DecodeErr::Malformed(format!("unknown type byte {:#x}", other))),
    }
}

/// Encode a command as an array of bulk strings
pub fn cmd<T: AsRef<[u8]>>(args: &[T]) -> Vec<u8> {
    let mut out = Vec::new();
    out.extend_from_slice(format!("*{}\r\n", args.len()).as_bytes());
    for a in args {
        let a = a.as_ref();
        out.extend_from_slice(format!("${}\r\n", a.len()).as_bytes());
        out.extend_from_slice(a);
        out.extend_from_slice(b"\r\n");
    }
    out
}

/// Printable form of bytes: ASCII kept, the rest escaped
pub fn show_bytes(b: &[u8]) -> String {
    let mut s = String::new();
    if b.len() > 48 {
        for &c in &b[..24] {
            push_esc(&mut s, c);
        }
        s.push_str(&format!("…({}B)", b.len()));
        return s;
    }
    for &c in b {
        push_esc(&mut s, c);
    }
    s
}

fn push_esc(s: &mut String, c: u8) {
    match c {
        b'\r' => s.push_str("\\r"),
        b'\n' => s.push_str("\\n"),
        b'\\' => s.push_str("\\\\"),
        b'"' => s.push_str("\\\""),
        0x20..=0x7e => s.push(c as char),
        _ => s.push_str(&format!("\\x{:02x}", c)),
    }
}

pub fn show(r: &R) -> String {
    match r {
        R::Simple(b) => format!("+{}", show_bytes(b)),
        R::Err(b) => format!("-{}", show_bytes(b)),
        R::Int(i) => format!(":{}", i),
        R::Bulk(b) => format!("\"{}\"", show_bytes(b)),
        R::Nil => "nil".into(),
        R::NilArr => "nilarr".into(),
        R::Null => "_".into(),
        R::Bool(b) => format!("#{}", b),
        R::Double(d) => format!(",{}", d),
        R::Arr(v) => format!("[{}]", v.iter().map(show).collect::<Vec<_>>().join(" ")),
        R::Set(v) => format!("~[{}]", v.iter().map(show).collect::<Vec<_>>().join(" ")),
        R::Map(v) => format!("%[{}]", v.iter().map(|(k, v)| format!("{}=>{}", show(k), show(v))).collect::<Vec<_>>().join(" ")),
    }
}

pub fn show_cmd<T: AsRef<[u8]>>(args: &[T]) -> String {
    args.iter().map(|a| {
        let b = a.as_ref();
        let s = show_bytes(b);
        if b.is_empty() || b.iter().any(|c| *c == b' ' || *c < 0x20 || *c > 0x7e) { format!("\"{}\"", s) } else { s }
    }).collect::<Vec<_>>().join(" ")
}

/// Outcome class of a reply, used in deviation signatures
pub fn class(r: &R) -> String {
    match r {
        R::Simple(b) => format!("+{}", show_bytes(b)),
        R::Err(_) => "err".into(),
        R::Int(i) => {
            if i.unsigned_abs() <= 20 { format!(":{}", i) } else { "int".into() }
        }
        R::Bulk(b) => format!("bulk[{}]", if b.len() <= 8 { b.len().to_string() } else { "9+".to_string() }),
        R::Nil => "nil".into(),
        R::NilArr => "arr[0]".into(),
        R::Arr(v) => format!("arr[{}]", v.len()),
        other => show(other),
    }
}

impl R {
    pub fn is_err(&self) -> bool {
        matches!(self, R::Err(_))
    }
    pub fn bulk(b: &[u8]) -> R {
        R::Bulk(b.to_vec())
    }
    pub fn ok() -> R {
        R::Simple(b"OK".to_vec())
    }
    pub fn err() -> R {
        R::Err(b"ERR".to_vec())
    }
    pub fn as_bytes(&self) -> Option<&[u8]> {
        match self {
            R::Bulk(b) | R::Simple(b) => Some(b),
            _ => None,
        }
    }
    pub fn as_arr(&self) -> Option<&[R]> {
        match self {
            R::Arr(v) => Some(v),
            _ => None,
        }
    }
}
